#!/usr/bin/env python3
"""Rule self-test: each seeded mutant (one broken instance) must make its rule fire.

usage: selftest/run.py [--only id,id] [--prop Cxx] [--keep]
A mutant is a list of exact string replacements in files of /repo, applied to a scratch copy
(under a fresh mkdtemp, removed afterwards).  A mutant whose `old` text no longer occurs exactly
once is reported as SKIPPED (the repository moved on), never as a failure.
exit 0: every applicable mutant was caught by the expected rule; exit 1 otherwise.
"""
import argparse
import json
import os
import shutil
import subprocess
import sys
import tempfile

HERE = os.path.dirname(os.path.abspath(__file__))
VERIF = os.path.dirname(HERE)
REPO = "/repo"


def load():
    out = []
    d = os.path.join(HERE, "mutants")
    for f in sorted(os.listdir(d)):
        if f.endswith(".json"):
            with open(os.path.join(d, f)) as fh:
                out += json.load(fh)
    return out


def apply(m, root):
    for e in m["edits"]:
        p = os.path.join(root, e["file"])
        s = open(p).read()
        if s.count(e["old"]) != 1:
            return False
        s = s.replace(e["old"], e["new"])
        open(p, "w").write(s)
    return True


def run_one(m, keep=False):
    tmp = tempfile.mkdtemp(prefix="verif-mut-")
    root = os.path.join(tmp, "repo")
    try:
        shutil.copytree(REPO, root, ignore=shutil.ignore_patterns("target", ".git"))
        if not apply(m, root):
            return "SKIPPED", "edit no longer applies"
        p = subprocess.run([os.path.join(VERIF, "check"), m["property"], "--repo", root], stdout=subprocess.PIPE, stderr=subprocess.STDOUT, cwd=VERIF, env=dict(os.environ, VERIF_SELFTEST="1"))
        out = p.stdout.decode(errors="replace")
        if p.returncode == 2:
            return "BROKEN", "mutant does not compile / cannot analyse:\n" + out[-1500:]
        fired = [l for l in out.splitlines() if l.startswith("  key: ")]
        want = "|%s|" % m["rule"]
        hit = [l for l in fired if want in l and (m.get("key_contains", "") in l)]
        if p.returncode == 1 and hit:
            others = [l for l in fired if l not in hit]
            return "CAUGHT", "%s%s" % (hit[0].strip(), (" (+%d other)" % len(others)) if others else "")
        if p.returncode == 1:
            return "WRONG-RULE", "\n".join(fired)
        return "MISSED", "check passed"
    finally:
        if not keep:
            shutil.rmtree(tmp, ignore_errors=True)


def main():
    ap = argparse.ArgumentParser()
    ap.add_argument("--only", default="")
    ap.add_argument("--prop", default="")
    ap.add_argument("--keep", action="store_true")
    a = ap.parse_args()
    ms = load()
    if a.only:
        ids = set(a.only.split(","))
        ms = [m for m in ms if m["id"] in ids]
    if a.prop:
        ms = [m for m in ms if m["property"] == a.prop]
    bad = 0
    res = []
    # evidence written by these runs must not overwrite the real evidence files
    ev = os.path.join(VERIF, "evidence")
    backup = tempfile.mkdtemp(prefix="verif-ev-")
    if os.environ.get("VERIF_EVIDENCE"):
        ev = None  # the checks of this run write their evidence elsewhere: nothing to protect
    if ev and os.path.isdir(ev):
        shutil.copytree(ev, os.path.join(backup, "evidence"))
    try:
        for m in ms:
            st, info = run_one(m, a.keep)
            res.append((m["id"], st))
            print("%-10s %-28s %s %s" % (st, m["id"], m["property"], info if st != "CAUGHT" else info[:150]))
            if st in ("MISSED", "WRONG-RULE", "BROKEN"):
                bad += 1
    finally:
        if ev and os.path.isdir(os.path.join(backup, "evidence")):
            shutil.rmtree(ev, ignore_errors=True)
            shutil.copytree(os.path.join(backup, "evidence"), ev)
        shutil.rmtree(backup, ignore_errors=True)
    print("selftest: %d mutants, %d caught, %d skipped, %d not caught" % (len(res), sum(1 for _, s in res if s == "CAUGHT"), sum(1 for _, s in res if s == "SKIPPED"), bad))
    return 1 if bad else 0


if __name__ == "__main__":
    sys.exit(main())
