#!/bin/sh
# Builds the verification tools offline.  Nothing is fetched; nothing under /tmp is needed later.
set -e
cd "$(dirname "$0")"
export CARGO_NET_OFFLINE=true
echo "[setup] building tools/mirfacts (rustc_private driver, nightly)"
(cd tools/mirfacts && cargo build --offline --quiet)
if [ -d tools/relang ]; then
  echo "[setup] building tools/relang (regex language checks)"
  (cd tools/relang && cargo build --offline --release --quiet)
fi
echo "[setup] warming the dependency cache (.cache/target) with one fact-generation run"
python3 - <<'PY'
import sys
sys.path.insert(0, '.')
from sa import engine
prog, tq, stats = engine.generate_facts()
print("[setup] facts:", stats)
PY
echo "[setup] done"
