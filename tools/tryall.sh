#!/bin/sh
# usage: tools/tryall.sh <patch.diff> : apply a change to /repo, run every check, undo; prints exit codes and violation keys
P=$1
cd /repo && git apply --check "$P" || { echo "patch does not apply"; exit 3; }
git -C /repo apply "$P"
cd /verif
for c in C01 C02 C03 C04 C05 C06 C07 C08 C09 C10 C11 C12 C13 C14 C15 C16 C17 C18 C19; do
  out=$(./check $c 2>&1); code=$?
  if [ $code -ne 0 ]; then echo "== $c exit=$code"; echo "$out" | grep -E "^  key:|CANNOT|INTERNAL|Error" | cut -c1-300; fi
done
echo "-- done $P"
git -C /repo checkout -- .
