// minimal JSON value + writer (the driver has no cargo dependencies)
pub enum J {
    Null,
    Bool(bool),
    Int(i128),
    Str(String),
    Arr(Vec<J>),
    Obj(Vec<(&'static str, J)>),
}

impl J {
    pub fn s(s: String) -> J {
        J::Str(s)
    }
    pub fn obj(v: Vec<(&'static str, J)>) -> J {
        J::Obj(v)
    }
    pub fn write(&self, out: &mut String) {
        match self {
            J::Null => out.push_str("null"),
            J::Bool(b) => out.push_str(if *b { "true" } else { "false" }),
            J::Int(i) => out.push_str(&i.to_string()),
            J::Str(s) => write_str(s, out),
            J::Arr(v) => {
                out.push('[');
                for (i, x) in v.iter().enumerate() {
                    if i > 0 {
                        out.push(',');
                    }
                    x.write(out);
                }
                out.push(']');
            }
            J::Obj(v) => {
                out.push('{');
                for (i, (k, x)) in v.iter().enumerate() {
                    if i > 0 {
                        out.push(',');
                    }
                    write_str(k, out);
                    out.push(':');
                    x.write(out);
                }
                out.push('}');
            }
        }
    }
}

fn write_str(s: &str, out: &mut String) {
    out.push('"');
    for c in s.chars() {
        match c {
            '"' => out.push_str("\\\""),
            '\\' => out.push_str("\\\\"),
            '\n' => out.push_str("\\n"),
            '\r' => out.push_str("\\r"),
            '\t' => out.push_str("\\t"),
            c if (c as u32) < 0x20 => out.push_str(&format!("\\u{:04x}", c as u32)),
            c => out.push(c),
        }
    }
    out.push('"');
}
