// mirfacts: a rustc_private driver that dumps the resolved program (MIR, ADTs, impls, constants)
// of the local crate as one JSON document per compiler process.
//
// Used as RUSTC_WORKSPACE_WRAPPER under `cargo +nightly check`: argv[1] is the real rustc path
// and is dropped.  Output goes to $MIRFACTS_OUT/<crate>.<kind>.<pid>.json (one write).
#![feature(rustc_private)]
#![allow(clippy::all)]

extern crate rustc_abi;
extern crate rustc_driver;
extern crate rustc_hir;
extern crate rustc_interface;
extern crate rustc_middle;
extern crate rustc_session;
extern crate rustc_span;

mod json;
use json::J;

use rustc_driver::Compilation;
use rustc_hir::def::DefKind;
use rustc_hir::def_id::{DefId, LocalDefId};
use rustc_interface::interface::Compiler;
use rustc_middle::mir::{
    self, AggregateKind, BasicBlockData, Body, BorrowKind, CastKind, Const, ConstValue, Operand,
    Place, ProjectionElem, Rvalue, StatementKind, TerminatorKind, VarDebugInfoContents,
};
use rustc_middle::ty::print::{with_no_trimmed_paths, with_no_visible_paths};
use rustc_middle::ty::{self, GenericArgKind, Instance, InstanceKind, Ty, TyCtxt, TypingEnv};
use rustc_span::Span;

struct Cb;

impl rustc_driver::Callbacks for Cb {
    fn after_analysis<'tcx>(&mut self, _c: &Compiler, tcx: TyCtxt<'tcx>) -> Compilation {
        if let Ok(dir) = std::env::var("MIRFACTS_OUT") {
            let doc = with_no_visible_paths!(with_no_trimmed_paths!(dump_crate(tcx)));
            let name = tcx.crate_name(rustc_span::def_id::LOCAL_CRATE).to_string();
            let kind = crate_kind(tcx);
            let path = format!("{}/{}.{}.{}.json", dir, name, kind, std::process::id());
            let mut s = String::with_capacity(1 << 22);
            doc.write(&mut s);
            std::fs::write(&path, s).expect("mirfacts: cannot write fact file");
        }
        Compilation::Continue
    }
}

fn crate_kind(tcx: TyCtxt<'_>) -> &'static str {
    use rustc_session::config::CrateType;
    if tcx.crate_types().iter().any(|t| matches!(t, CrateType::Executable)) {
        "bin"
    } else {
        "lib"
    }
}

fn main() {
    let mut args: Vec<String> = std::env::args().collect();
    // RUSTC_WORKSPACE_WRAPPER: argv[1] is the path of the real rustc
    if args.len() > 1 && (args[1].ends_with("rustc") || args[1].contains("/rustc")) {
        args.remove(1);
    }
    rustc_driver::run_compiler(&args, &mut Cb);
}

// ------------------------------------------------------------------------------------------

fn span_info(tcx: TyCtxt<'_>, sp: Span) -> (String, usize, usize, bool) {
    let sm = tcx.sess.source_map();
    let exp = sp.from_expansion();
    // use the outermost call site for expanded code so that lines point into the crate's source
    let sp2 = sp.source_callsite();
    let lo = sm.lookup_char_pos(sp2.lo());
    let hi = sm.lookup_char_pos(sp2.hi());
    let file = match &lo.file.name {
        rustc_span::FileName::Real(r) => match r.local_path() {
            Some(p) => p.to_string_lossy().to_string(),
            None => format!("{:?}", r),
        },
        other => format!("{:?}", other),
    };
    (file, lo.line, hi.line, exp)
}

fn ty_str<'tcx>(t: Ty<'tcx>) -> String {
    t.to_string()
}

fn def_path(tcx: TyCtxt<'_>, did: DefId) -> String {
    tcx.def_path_str(did)
}

fn dump_crate<'tcx>(tcx: TyCtxt<'tcx>) -> J {
    let mut adts = Vec::new();
    let mut impls = Vec::new();
    let mut consts = Vec::new();
    let mut traits = Vec::new();
    let mut fns_sig = Vec::new();

    for id in tcx.hir_free_items() {
        let ldid = id.owner_id.def_id;
        let did = ldid.to_def_id();
        match tcx.def_kind(did) {
            DefKind::Struct | DefKind::Enum => adts.push(dump_adt(tcx, did)),
            DefKind::Impl { .. } => impls.push(dump_impl(tcx, did)),
            DefKind::Const { .. } | DefKind::Static { .. } => {
                if let Some(c) = dump_const_item(tcx, did) {
                    consts.push(c)
                }
            }
            DefKind::Trait => {
                let mut methods = Vec::new();
                for it in tcx.associated_items(did).in_definition_order() {
                    methods.push(J::obj(vec![
                        ("name", J::s(it.name().to_string())),
                        ("path", J::s(def_path(tcx, it.def_id))),
                        ("has_default", J::Bool(it.defaultness(tcx).has_value())),
                    ]));
                }
                traits.push(J::obj(vec![
                    ("path", J::s(def_path(tcx, did))),
                    ("methods", J::Arr(methods)),
                ]));
            }
            _ => {}
        }
    }

    let mut bodies = Vec::new();
    let mut ext_enum_ids: Vec<DefId> = Vec::new();
    let mut keys: Vec<LocalDefId> = tcx.mir_keys(()).iter().copied().collect();
    keys.sort_by_key(|k| tcx.def_path_str(k.to_def_id()));
    for ldid in keys {
        let did = ldid.to_def_id();
        let dk = tcx.def_kind(did);
        match dk {
            DefKind::Fn | DefKind::AssocFn | DefKind::Closure => {
                if dk != DefKind::Closure {
                    fns_sig.push(dump_sig(tcx, did));
                }
                let body = tcx.optimized_mir(did);
                // enums of other crates whose discriminant this body reads (variant names for the rules)
                for bbd in body.basic_blocks.iter() {
                    for st in &bbd.statements {
                        if let rustc_middle::mir::StatementKind::Assign(b) = &st.kind {
                            if let Rvalue::Discriminant(pl) = &b.1 {
                                let t = pl.ty(&body.local_decls, tcx).ty;
                                if let ty::Adt(def, _) = t.kind() {
                                    if def.is_enum() && !def.did().is_local() && !ext_enum_ids.contains(&def.did()) {
                                        ext_enum_ids.push(def.did());
                                    }
                                }
                            }
                        }
                    }
                }
                bodies.push(dump_body(tcx, did, body));
            }
            _ => {}
        }
    }
    let mut ext_enums = Vec::new();
    for did in ext_enum_ids {
        let def = tcx.adt_def(did);
        let mut variants = Vec::new();
        for (vi, v) in def.variants().iter_enumerated() {
            variants.push(J::obj(vec![
                ("name", J::s(v.name.to_string())),
                ("idx", J::Int(vi.as_u32() as i128)),
                ("discr", J::s(format!("{}", def.discriminant_for_variant(tcx, vi).val))),
            ]));
        }
        ext_enums.push(J::obj(vec![("path", J::s(def_path(tcx, did))), ("variants", J::Arr(variants))]));
    }

    let unsafe_count = count_unsafe(tcx);

    J::obj(vec![
        ("nonce", J::s(std::env::var("MIRFACTS_NONCE").unwrap_or_default())),
        ("crate", J::s(tcx.crate_name(rustc_span::def_id::LOCAL_CRATE).to_string())),
        ("target_kind", J::s(crate_kind(tcx).to_string())),
        ("unsafe", unsafe_count),
        ("adts", J::Arr(adts)),
        ("ext_enums", J::Arr(ext_enums)),
        ("impls", J::Arr(impls)),
        ("traits", J::Arr(traits)),
        ("consts", J::Arr(consts)),
        ("sigs", J::Arr(fns_sig)),
        ("bodies", J::Arr(bodies)),
    ])
}

// ------------------------------------------------------------------------------------------
// unsafe census over HIR

struct UnsafeVisitor<'tcx> {
    tcx: TyCtxt<'tcx>,
    sites: Vec<J>,
}

impl<'tcx> rustc_hir::intravisit::Visitor<'tcx> for UnsafeVisitor<'tcx> {
    type NestedFilter = rustc_middle::hir::nested_filter::All;
    fn maybe_tcx(&mut self) -> TyCtxt<'tcx> {
        self.tcx
    }
    fn visit_block(&mut self, b: &'tcx rustc_hir::Block<'tcx>) {
        if let rustc_hir::BlockCheckMode::UnsafeBlock(src) = b.rules {
            if matches!(src, rustc_hir::UnsafeSource::UserProvided) && !b.span.from_expansion() {
                let (f, l, _, _) = span_info(self.tcx, b.span);
                self.sites.push(J::obj(vec![
                    ("kind", J::s("block".into())),
                    ("file", J::s(f)),
                    ("line", J::Int(l as i128)),
                ]));
            }
        }
        rustc_hir::intravisit::walk_block(self, b);
    }
    fn visit_item(&mut self, it: &'tcx rustc_hir::Item<'tcx>) {
        let mut is_unsafe = false;
        match &it.kind {
            rustc_hir::ItemKind::Impl(imp) => {
                if let Some(tr) = &imp.of_trait {
                    if matches!(tr.safety, rustc_hir::Safety::Unsafe) {
                        is_unsafe = true;
                    }
                }
            }
            rustc_hir::ItemKind::Fn { sig, .. } => {
                if sig.header.is_unsafe() {
                    is_unsafe = true;
                }
            }
            _ => {}
        }
        if is_unsafe && !it.span.from_expansion() {
            let (f, l, _, _) = span_info(self.tcx, it.span);
            self.sites.push(J::obj(vec![
                ("kind", J::s("item".into())),
                ("file", J::s(f)),
                ("line", J::Int(l as i128)),
            ]));
        }
        rustc_hir::intravisit::walk_item(self, it);
    }
}

fn count_unsafe<'tcx>(tcx: TyCtxt<'tcx>) -> J {
    let mut v = UnsafeVisitor { tcx, sites: Vec::new() };
    tcx.hir_walk_toplevel_module(&mut v);
    J::Arr(v.sites)
}

// ------------------------------------------------------------------------------------------
// types

/// Deep walk: does `ty` (through generic args and fields of ADTs, local or not) mention a cell
/// type, a raw pointer, or a `dyn` object?  Returns descriptions.
fn cell_walk<'tcx>(
    tcx: TyCtxt<'tcx>,
    ty: Ty<'tcx>,
    seen: &mut Vec<Ty<'tcx>>,
    out: &mut Vec<String>,
    depth: usize,
) {
    if depth > 12 || seen.contains(&ty) {
        return;
    }
    seen.push(ty);
    match ty.kind() {
        ty::Adt(def, args) => {
            if def.is_unsafe_cell() {
                out.push(format!("cell:{}", ty));
                return;
            }
            let p = tcx.def_path_str(def.did());
            if p.starts_with("std::sync::atomic") || p.starts_with("core::sync::atomic") {
                out.push(format!("atomic:{}", ty));
                return;
            }
            for v in def.variants() {
                for f in &v.fields {
                    let fty = f.ty(tcx, args);
                    cell_walk(tcx, fty, seen, out, depth + 1);
                }
            }
            // containers keep their elements behind untyped pointers (Vec<T> -> RawVec -> *u8 +
            // PhantomData<T>): the generic arguments are part of the stored state
            for a in args.iter() {
                if let Some(t) = a.as_type() {
                    cell_walk(tcx, t, seen, out, depth + 1);
                }
            }
        }
        ty::Pat(inner, _) => cell_walk(tcx, *inner, seen, out, depth + 1),
        ty::RawPtr(inner, _) => {
            out.push(format!("rawptr:{}", ty));
            cell_walk(tcx, *inner, seen, out, depth + 1);
        }
        ty::Ref(_, inner, _) => cell_walk(tcx, *inner, seen, out, depth + 1),
        ty::Array(inner, _) | ty::Slice(inner) => cell_walk(tcx, *inner, seen, out, depth + 1),
        ty::Tuple(ts) => {
            for t in ts.iter() {
                cell_walk(tcx, t, seen, out, depth + 1)
            }
        }
        ty::Dynamic(..) => out.push(format!("dyn:{}", ty)),
        ty::FnPtr(..) => out.push(format!("fnptr:{}", ty)),
        ty::Closure(..) => out.push(format!("closure:{}", ty)),
        ty::Param(_) => {}
        _ => {}
    }
}

fn dump_generics<'tcx>(tcx: TyCtxt<'tcx>, did: DefId) -> J {
    let g = tcx.generics_of(did);
    let mut params = Vec::new();
    let mut cur = Some(g);
    let mut all = Vec::new();
    while let Some(gg) = cur {
        for p in &gg.own_params {
            all.push((p.index, p.name.to_string(), format!("{:?}", p.kind)));
        }
        cur = gg.parent.map(|p| tcx.generics_of(p));
    }
    all.sort();
    for (_, n, k) in all {
        params.push(J::obj(vec![("name", J::s(n)), ("kind", J::s(k))]));
    }
    let mut preds = Vec::new();
    let gp = tcx.predicates_of(did).instantiate_identity(tcx);
    for (p, _) in gp.predicates.iter().zip(gp.spans.iter()) {
        preds.push(J::s(format!("{}", p.skip_norm_wip())));
    }
    J::obj(vec![("params", J::Arr(params)), ("predicates", J::Arr(preds))])
}

fn vis_str(tcx: TyCtxt<'_>, did: DefId) -> String {
    match tcx.visibility(did) {
        ty::Visibility::Public => "pub".to_string(),
        ty::Visibility::Restricted(m) => {
            if m.is_crate_root() {
                "crate".to_string()
            } else {
                format!("in:{}", tcx.def_path_str(m))
            }
        }
    }
}

fn dump_adt<'tcx>(tcx: TyCtxt<'tcx>, did: DefId) -> J {
    let def = tcx.adt_def(did);
    let mut variants = Vec::new();
    let mut cells = Vec::new();
    for (vi, v) in def.variants().iter_enumerated() {
        let mut fields = Vec::new();
        for f in &v.fields {
            let fty = tcx.type_of(f.did).instantiate_identity().skip_norm_wip();
            let mut out = Vec::new();
            let mut seen = Vec::new();
            cell_walk(tcx, fty, &mut seen, &mut out, 0);
            for o in &out {
                cells.push(J::s(format!("{}.{}: {}", v.name, f.name, o)));
            }
            fields.push(J::obj(vec![
                ("name", J::s(f.name.to_string())),
                ("ty", J::s(ty_str(fty))),
                ("vis", J::s(vis_str(tcx, f.did))),
                ("mentions", J::Arr(out.into_iter().map(J::s).collect())),
            ]));
        }
        let discr = if def.is_enum() {
            J::s(format!("{}", def.discriminant_for_variant(tcx, vi).val))
        } else {
            J::Null
        };
        variants.push(J::obj(vec![
            ("name", J::s(v.name.to_string())),
            ("idx", J::Int(vi.as_u32() as i128)),
            ("discr", discr),
            ("fields", J::Arr(fields)),
        ]));
    }
    let (file, lo, hi, _) = span_info(tcx, tcx.def_span(did));
    J::obj(vec![
        ("path", J::s(def_path(tcx, did))),
        ("kind", J::s(if def.is_enum() { "enum" } else { "struct" }.to_string())),
        ("vis", J::s(vis_str(tcx, did))),
        ("generics", dump_generics(tcx, did)),
        ("variants", J::Arr(variants)),
        ("cells", J::Arr(cells)),
        ("file", J::s(file)),
        ("line_lo", J::Int(lo as i128)),
        ("line_hi", J::Int(hi as i128)),
    ])
}

fn dump_impl<'tcx>(tcx: TyCtxt<'tcx>, did: DefId) -> J {
    let self_ty = tcx.type_of(did).instantiate_identity().skip_norm_wip();
    let tr = tcx.impl_opt_trait_ref(did).map(|t| t.instantiate_identity().skip_norm_wip());
    let mut methods = Vec::new();
    for it in tcx.associated_items(did).in_definition_order() {
        methods.push(J::obj(vec![
            ("name", J::s(it.name().to_string())),
            ("path", J::s(def_path(tcx, it.def_id))),
            ("kind", J::s(format!("{:?}", it.kind).split('{').next().unwrap_or("").trim().to_string())),
        ]));
    }
    let self_adt = match self_ty.kind() {
        ty::Adt(d, _) => J::s(def_path(tcx, d.did())),
        _ => J::Null,
    };
    let (file, lo, _, exp) = span_info(tcx, tcx.def_span(did));
    J::obj(vec![
        ("trait", tr.map(|t| J::s(def_path(tcx, t.def_id))).unwrap_or(J::Null)),
        ("trait_ref", tr.map(|t| J::s(format!("{}", t))).unwrap_or(J::Null)),
        ("self_ty", J::s(ty_str(self_ty))),
        ("self_adt", self_adt),
        ("generics", dump_generics(tcx, did)),
        ("methods", J::Arr(methods)),
        ("file", J::s(file)),
        ("line", J::Int(lo as i128)),
        ("from_expansion", J::Bool(exp)),
    ])
}

fn const_value_json<'tcx>(tcx: TyCtxt<'tcx>, ty: Ty<'tcx>, val: ConstValue) -> Vec<(&'static str, J)> {
    let mut out = Vec::new();
    match val {
        ConstValue::Scalar(s) => {
            if let Ok(i) = s.try_to_scalar_int() {
                match ty.kind() {
                    ty::Bool => out.push(("bool", J::Bool(i.to_uint(i.size()) != 0))),
                    ty::Int(_) => out.push(("int", J::Int(i.to_int(i.size())))),
                    ty::Uint(_) => out.push(("int", J::Int(i.to_uint(i.size()) as i128))),
                    ty::Char => out.push(("int", J::Int(i.to_uint(i.size()) as i128))),
                    _ => {}
                }
            }
        }
        ConstValue::Slice { .. } => {
            if let Some(bytes) = val.try_get_slice_bytes_for_diagnostics(tcx) {
                out.push(("str", J::s(String::from_utf8_lossy(bytes).to_string())));
            }
        }
        _ => {}
    }
    // `[&str; N]` constants (by value, stored indirectly) and `&[&str; N]`: strings joined with U+001F
    {
        let mut target: Option<(rustc_middle::mir::interpret::AllocId, usize, Ty<'tcx>)> = None;
        if let ConstValue::Indirect { alloc_id, offset } = val {
            target = Some((alloc_id, offset.bytes_usize(), ty));
        }
        if let ConstValue::Scalar(rustc_middle::mir::interpret::Scalar::Ptr(ptr, _)) = val {
            if let ty::Ref(_, inner, _) = ty.kind() {
                let (prov, offset) = ptr.prov_and_relative_offset();
                target = Some((prov.alloc_id(), offset.bytes_usize(), *inner));
            }
        }
        if let Some((alloc_id, base, aty)) = target {
            if let ty::Array(elem, len) = aty.kind() {
                let is_str_ref = matches!(elem.kind(), ty::Ref(_, inner, _) if matches!(inner.kind(), ty::Str));
                if is_str_ref {
                    if let (Some(n), rustc_middle::mir::interpret::GlobalAlloc::Memory(a)) = (len.try_to_target_usize(tcx), tcx.global_alloc(alloc_id)) {
                        if let Some(parts) = read_str_array(tcx, a.inner(), base, n as usize) {
                            out.push(("str", J::s(parts.join("\u{1f}"))));
                            out.push(("str_array", J::Bool(true)));
                        }
                    }
                }
            }
        }
    }
    // `&[u8; N]` constants (format_args! templates): raw bytes, one char per byte
    if let ConstValue::Scalar(rustc_middle::mir::interpret::Scalar::Ptr(ptr, _)) = val {
        if let ty::Ref(_, inner, _) = ty.kind() {
            if let ty::Array(elem, len) = inner.kind() {
                if matches!(elem.kind(), ty::Uint(ty::UintTy::U8)) {
                    if let Some(n) = len.try_to_target_usize(tcx) {
                        let (prov, offset) = ptr.prov_and_relative_offset();
                        if let rustc_middle::mir::interpret::GlobalAlloc::Memory(a) = tcx.global_alloc(prov.alloc_id()) {
                            let lo = offset.bytes_usize();
                            let hi = lo + n as usize;
                            let alloc = a.inner();
                            if hi <= alloc.len() {
                                let bytes = alloc.inspect_with_uninit_and_ptr_outside_interpreter(lo..hi);
                                out.push(("bytes", J::s(bytes.iter().map(|b| *b as char).collect())));
                            }
                        }
                    }
                }
            }
        }
    }
    out
}

fn read_str_array<'tcx>(tcx: TyCtxt<'tcx>, alloc: &rustc_middle::mir::interpret::Allocation, base: usize, n: usize) -> Option<Vec<String>> {
    let mut parts: Vec<String> = Vec::new();
    for i in 0..n {
        let at = base + i * 16;
        if at + 16 > alloc.len() {
            return None;
        }
        let raw = alloc.inspect_with_uninit_and_ptr_outside_interpreter(at..at + 16);
        let mut o8 = [0u8; 8];
        o8.copy_from_slice(&raw[0..8]);
        let mut l8 = [0u8; 8];
        l8.copy_from_slice(&raw[8..16]);
        let inner_off = u64::from_le_bytes(o8) as usize;
        let slen = u64::from_le_bytes(l8) as usize;
        let prov = alloc.provenance().ptrs().iter().find(|(sz, _)| sz.bytes_usize() == at).map(|(_, p)| *p)?;
        if let rustc_middle::mir::interpret::GlobalAlloc::Memory(sa) = tcx.global_alloc(prov.alloc_id()) {
            let sal = sa.inner();
            if inner_off + slen > sal.len() {
                return None;
            }
            let b = sal.inspect_with_uninit_and_ptr_outside_interpreter(inner_off..inner_off + slen);
            parts.push(String::from_utf8_lossy(b).to_string());
        } else {
            return None;
        }
    }
    Some(parts)
}

fn dump_const_item<'tcx>(tcx: TyCtxt<'tcx>, did: DefId) -> Option<J> {
    let ty = tcx.type_of(did).instantiate_identity().skip_norm_wip();
    let mut fields = vec![("path", J::s(def_path(tcx, did))), ("ty", J::s(ty_str(ty)))];
    if tcx.generics_of(did).count() == 0 {
        if matches!(tcx.def_kind(did), DefKind::Const { .. }) {
            if let Ok(v) = tcx.const_eval_poly(did) {
                fields.extend(const_value_json(tcx, ty, v));
                // a struct constant: its fields (strings / integers / booleans), by name
                if let ty::Adt(def, _) = ty.kind() {
                    if def.is_struct() {
                        if let Some(d) = tcx.try_destructure_mir_constant_for_user_output(v, ty) {
                            let mut fs = Vec::new();
                            for (i, (fv, fty)) in d.fields.iter().enumerate() {
                                let mut o = vec![("ty", J::s(ty_str(*fty)))];
                                if let Some(fd) = def.non_enum_variant().fields.iter().nth(i) {
                                    o.push(("name", J::s(fd.name.to_string())));
                                }
                                o.extend(const_value_json(tcx, *fty, *fv));
                                fs.push(J::obj(o));
                            }
                            fields.push(("fields", J::Arr(fs)));
                        }
                    }
                }
            }
        }
    }
    let (file, lo, _, _) = span_info(tcx, tcx.def_span(did));
    fields.push(("file", J::s(file)));
    fields.push(("line", J::Int(lo as i128)));
    Some(J::obj(fields))
}

fn dump_sig<'tcx>(tcx: TyCtxt<'tcx>, did: DefId) -> J {
    let sig = tcx.fn_sig(did).instantiate_identity().skip_norm_wip().skip_binder();
    J::obj(vec![
        ("path", J::s(def_path(tcx, did))),
        ("vis", J::s(vis_str(tcx, did))),
        ("inputs", J::Arr(sig.inputs().iter().map(|t| J::s(ty_str(*t))).collect())),
        ("output", J::s(ty_str(sig.output()))),
        ("generics", dump_generics(tcx, did)),
    ])
}

// ------------------------------------------------------------------------------------------
// bodies

struct Cx<'a, 'tcx> {
    tcx: TyCtxt<'tcx>,
    did: DefId,
    body: &'a Body<'tcx>,
    env: TypingEnv<'tcx>,
}

fn dump_body<'tcx>(tcx: TyCtxt<'tcx>, did: DefId, body: &Body<'tcx>) -> J {
    let cx = Cx { tcx, did, body, env: TypingEnv::post_analysis(tcx, did) };
    let dk = tcx.def_kind(did);
    let (file, lo, hi, exp) = span_info(tcx, body.span);
    let kind = match dk {
        DefKind::Closure => "closure",
        DefKind::AssocFn => "method",
        _ => "fn",
    };
    let parent = if dk == DefKind::Closure {
        let mut p = tcx.parent(did);
        while tcx.def_kind(p) == DefKind::Closure {
            p = tcx.parent(p);
        }
        J::obj(vec![
            ("direct", J::s(def_path(tcx, tcx.parent(did)))),
            ("fn", J::s(def_path(tcx, p))),
        ])
    } else {
        J::Null
    };
    // impl header
    let mut impl_j = J::Null;
    let mut trait_method = J::Null;
    if dk == DefKind::AssocFn {
        let p = tcx.parent(did);
        if matches!(tcx.def_kind(p), DefKind::Impl { .. }) {
            let self_ty = tcx.type_of(p).instantiate_identity().skip_norm_wip();
            let tr = tcx.impl_opt_trait_ref(p).map(|t| t.instantiate_identity().skip_norm_wip());
            let self_adt = match self_ty.kind() {
                ty::Adt(d, _) => J::s(def_path(tcx, d.did())),
                _ => J::Null,
            };
            impl_j = J::obj(vec![
                ("trait", tr.map(|t| J::s(def_path(tcx, t.def_id))).unwrap_or(J::Null)),
                ("self_ty", J::s(ty_str(self_ty))),
                ("self_adt", self_adt),
            ]);
            if let Some(ai) = tcx.opt_associated_item(did) {
                if let Some(tm) = ai.trait_item_def_id() {
                    trait_method = J::s(def_path(tcx, tm));
                }
            }
        } else if tcx.def_kind(p) == DefKind::Trait {
            impl_j = J::obj(vec![
                ("trait", J::s(def_path(tcx, p))),
                ("self_ty", J::s("Self".into())),
                ("self_adt", J::Null),
                ("default_method", J::Bool(true)),
            ]);
            trait_method = J::s(def_path(tcx, did));
        }
    }
    let vis = match dk {
        DefKind::Fn | DefKind::AssocFn => J::s(vis_str(tcx, did)),
        _ => J::Null,
    };
    let name = tcx.opt_item_name(did).map(|s| J::s(s.to_string())).unwrap_or(J::Null);

    let mut locals = Vec::new();
    for (_l, d) in body.local_decls.iter_enumerated() {
        locals.push(J::obj(vec![
            ("ty", J::s(ty_str(d.ty))),
            ("mut", J::Bool(d.mutability.is_mut())),
        ]));
    }
    let mut dbg = Vec::new();
    for v in &body.var_debug_info {
        let val = match &v.value {
            VarDebugInfoContents::Place(p) => cx.place(p),
            VarDebugInfoContents::Const(c) => cx.constant(&c.const_, c.span),
        };
        dbg.push(J::obj(vec![("name", J::s(v.name.to_string())), ("v", val)]));
    }
    // closure upvars
    let mut upvars = Vec::new();
    if dk == DefKind::Closure {
        if let Some(ld) = did.as_local() {
            for (i, cap) in tcx.closure_captures(ld).iter().enumerate() {
                upvars.push(J::obj(vec![
                    ("field", J::Int(i as i128)),
                    ("name", J::s(cap.to_string(tcx))),
                    ("by_ref", J::Bool(cap.is_by_ref())),
                    ("ty", J::s(ty_str(cap.place.ty()))),
                ]));
            }
        }
    }

    let mut blocks = Vec::new();
    for (_bb, data) in body.basic_blocks.iter_enumerated() {
        blocks.push(cx.block(data));
    }

    J::obj(vec![
        ("path", J::s(def_path(tcx, did))),
        ("name", name),
        ("kind", J::s(kind.to_string())),
        ("parent", parent),
        ("impl", impl_j),
        ("trait_method", trait_method),
        ("vis", vis),
        ("file", J::s(file)),
        ("line_lo", J::Int(lo as i128)),
        ("line_hi", J::Int(hi as i128)),
        ("from_expansion", J::Bool(exp)),
        ("n_args", J::Int(body.arg_count as i128)),
        ("ret_ty", J::s(ty_str(body.return_ty()))),
        ("locals", J::Arr(locals)),
        ("debug", J::Arr(dbg)),
        ("upvars", J::Arr(upvars)),
        ("blocks", J::Arr(blocks)),
    ])
}

impl<'a, 'tcx> Cx<'a, 'tcx> {
    fn line(&self, sp: Span) -> (J, J) {
        let (_f, lo, _hi, exp) = span_info(self.tcx, sp);
        (J::Int(lo as i128), J::Bool(exp))
    }

    fn place(&self, p: &Place<'tcx>) -> J {
        let mut proj = Vec::new();
        let mut ty = mir::PlaceTy::from_ty(self.body.local_decls[p.local].ty);
        for e in p.projection.iter() {
            let j = match e {
                ProjectionElem::Deref => J::s("*".into()),
                ProjectionElem::Field(f, fty) => {
                    // field name when the base is an ADT
                    let mut name = J::Null;
                    let mut owner = J::Null;
                    if let ty::Adt(def, _) = ty.ty.kind() {
                        let vidx = ty.variant_index.unwrap_or(rustc_abi::FIRST_VARIANT);
                        if let Some(v) = def.variants().get(vidx) {
                            if let Some(fd) = v.fields.get(f) {
                                name = J::s(fd.name.to_string());
                            }
                        }
                        owner = J::s(def_path(self.tcx, def.did()));
                    } else if let ty::Closure(..) = ty.ty.kind() {
                        owner = J::s("closure".into());
                    }
                    J::obj(vec![
                        ("f", J::Int(f.as_u32() as i128)),
                        ("name", name),
                        ("owner", owner),
                        ("ty", J::s(ty_str(fty))),
                    ])
                }
                ProjectionElem::Downcast(name, vi) => J::obj(vec![
                    ("dc", J::Int(vi.as_u32() as i128)),
                    ("name", name.map(|n| J::s(n.to_string())).unwrap_or(J::Null)),
                ]),
                ProjectionElem::Index(l) => J::obj(vec![("idx", J::Int(l.as_u32() as i128))]),
                ProjectionElem::ConstantIndex { offset, from_end, .. } => J::obj(vec![
                    ("cidx", J::Int(offset as i128)),
                    ("from_end", J::Bool(from_end)),
                ]),
                ProjectionElem::Subslice { from, to, from_end } => J::obj(vec![
                    ("sub", J::Arr(vec![J::Int(from as i128), J::Int(to as i128)])),
                    ("from_end", J::Bool(from_end)),
                ]),
                ProjectionElem::OpaqueCast(_) => J::s("opaque".into()),
                ProjectionElem::UnwrapUnsafeBinder(_) => J::s("unwrap_binder".into()),
            };
            proj.push(j);
            ty = ty.projection_ty(self.tcx, e);
        }
        J::obj(vec![("l", J::Int(p.local.as_u32() as i128)), ("p", J::Arr(proj))])
    }

    fn constant(&self, c: &Const<'tcx>, span: Span) -> J {
        let ty = c.ty();
        let mut f = vec![("ty", J::s(ty_str(ty)))];
        match ty.kind() {
            ty::FnDef(did, args) => {
                f.push(("fn", self.callee(*did, args)));
            }
            _ => {
                let mut done = false;
                if let Const::Unevaluated(uv, _) = c {
                    if let Some(p) = uv.promoted {
                        f.push(("promoted", J::Int(p.as_u32() as i128)));
                        f.push(("promoted_of", J::s(def_path(self.tcx, uv.def))));
                        // try to read through the promoted body: `&"lit"` / `&[..]`
                        if let Some(s) = self.promoted_str(uv.def, p) {
                            f.push(("str", J::s(s)));
                            done = true;
                        }
                        // `&CONST_ITEM`: the item
                        if let Some(it) = self.promoted_item(uv.def, p) {
                            f.push(("item", J::s(it)));
                        }
                        // `&Enum::Variant` (a field-less variant): the variant name
                        if let Some((adt, v)) = self.promoted_variant(uv.def, p) {
                            f.push(("enum", J::s(adt)));
                            f.push(("variant", J::s(v)));
                        }
                        // `&Some(true)` / `&Variant(3)`: a variant with one scalar constant as payload
                        if let Some((adt, v, payload)) = self.promoted_variant_payload(uv.def, p) {
                            f.push(("enum", J::s(adt)));
                            f.push(("variant", J::s(v)));
                            f.push(("payload", J::obj(payload)));
                        }
                    } else {
                        f.push(("item", J::s(def_path(self.tcx, uv.def))));
                    }
                }
                if !done {
                    if let Ok(v) = c.eval(self.tcx, self.env, span) {
                        f.extend(const_value_json(self.tcx, ty, v));
                        if let ConstValue::ZeroSized = v {
                            f.push(("zst", J::Bool(true)));
                        }
                    }
                }
            }
        }
        J::obj(vec![("k", J::obj(f))])
    }

    fn promoted_item(&self, def: DefId, p: mir::Promoted) -> Option<String> {
        let ld = def.as_local()?;
        let proms = self.tcx.promoted_mir(ld.to_def_id());
        let b = proms.get(p)?;
        let mut found: Vec<String> = Vec::new();
        for bb in b.basic_blocks.iter() {
            for st in &bb.statements {
                if let StatementKind::Assign(bx) = &st.kind {
                    let (_, rv) = &**bx;
                    if let Rvalue::Use(Operand::Constant(c), ..) = rv {
                        if let Const::Unevaluated(uv, _) = &c.const_ {
                            if uv.promoted.is_none() && matches!(self.tcx.def_kind(uv.def), DefKind::Const { .. }) {
                                found.push(def_path(self.tcx, uv.def));
                            }
                        }
                    }
                }
            }
        }
        if found.len() == 1 {
            found.pop()
        } else {
            None
        }
    }

    fn promoted_variant(&self, def: DefId, p: mir::Promoted) -> Option<(String, String)> {
        let ld = def.as_local()?;
        let proms = self.tcx.promoted_mir(ld.to_def_id());
        let b = proms.get(p)?;
        let mut found: Vec<(String, String)> = Vec::new();
        for bb in b.basic_blocks.iter() {
            for st in &bb.statements {
                if let StatementKind::Assign(bx) = &st.kind {
                    let (_, rv) = &**bx;
                    if let Rvalue::Aggregate(kind, ops) = rv {
                        if let mir::AggregateKind::Adt(did, vidx, _, _, _) = &**kind {
                            let def = self.tcx.adt_def(*did);
                            if def.is_enum() && ops.is_empty() {
                                found.push((def_path(self.tcx, *did), def.variant(*vidx).name.to_string()));
                            }
                        }
                    }
                }
            }
        }
        if found.len() == 1 {
            found.pop()
        } else {
            None
        }
    }

    fn promoted_variant_payload(&self, def: DefId, p: mir::Promoted) -> Option<(String, String, Vec<(&'static str, J)>)> {
        let ld = def.as_local()?;
        let proms = self.tcx.promoted_mir(ld.to_def_id());
        let b = proms.get(p)?;
        let mut found = Vec::new();
        for bb in b.basic_blocks.iter() {
            for st in &bb.statements {
                if let StatementKind::Assign(bx) = &st.kind {
                    let (_, rv) = &**bx;
                    if let Rvalue::Aggregate(kind, ops) = rv {
                        if let mir::AggregateKind::Adt(did, vidx, _, _, _) = &**kind {
                            let def = self.tcx.adt_def(*did);
                            if def.is_enum() && ops.len() == 1 {
                                if let Some(Operand::Constant(c)) = ops.iter().next() {
                                    let ty = c.const_.ty();
                                    if ty.is_bool() || ty.is_integral() {
                                        if let Ok(v) = c.const_.eval(self.tcx, self.env, c.span) {
                                            let pj = const_value_json(self.tcx, ty, v);
                                            if !pj.is_empty() {
                                                found.push((def_path(self.tcx, *did), def.variant(*vidx).name.to_string(), pj));
                                            }
                                        }
                                    }
                                }
                            }
                        }
                    }
                }
            }
        }
        if found.len() == 1 {
            found.pop()
        } else {
            None
        }
    }

    fn promoted_str(&self, def: DefId, p: mir::Promoted) -> Option<String> {
        let ld = def.as_local()?;
        let proms = self.tcx.promoted_mir(ld.to_def_id());
        let b = proms.get(p)?;
        // find a string constant in the promoted body
        let mut found: Vec<String> = Vec::new();
        for bb in b.basic_blocks.iter() {
            for st in &bb.statements {
                if let StatementKind::Assign(bx) = &st.kind {
                    let (_, rv) = &**bx;
                    let ops: Vec<&Operand<'tcx>> = match rv {
                        Rvalue::Use(op, ..) => vec![op],
                        Rvalue::Aggregate(_, ops) => ops.iter().collect(),
                        _ => vec![],
                    };
                    for op in ops {
                        if let Operand::Constant(c) = op {
                            if let Ok(v) = c.const_.eval(self.tcx, self.env, c.span) {
                                if let ConstValue::Slice { .. } = v {
                                    if let Some(bytes) = v.try_get_slice_bytes_for_diagnostics(self.tcx) {
                                        found.push(String::from_utf8_lossy(bytes).to_string());
                                    }
                                }
                            }
                        }
                    }
                }
            }
        }
        if found.len() == 1 {
            found.pop()
        } else if found.is_empty() {
            None
        } else {
            Some(found.join("\u{1f}"))
        }
    }

    fn callee(&self, did: DefId, args: ty::GenericArgsRef<'tcx>) -> J {
        let tcx = self.tcx;
        let decl = def_path(tcx, did);
        let mut resolved = J::Null;
        let mut virt = false;
        let mut res_kind = J::Null;
        if let Ok(Some(inst)) = Instance::try_resolve(tcx, self.env, did, args) {
            resolved = J::s(def_path(tcx, inst.def_id()));
            match inst.def {
                InstanceKind::Virtual(..) => {
                    virt = true;
                    res_kind = J::s("virtual".into())
                }
                InstanceKind::Item(_) => res_kind = J::s("item".into()),
                InstanceKind::Intrinsic(_) => res_kind = J::s("intrinsic".into()),
                InstanceKind::ClosureOnceShim { .. } => res_kind = J::s("closure_once_shim".into()),
                InstanceKind::FnPtrShim(..) => res_kind = J::s("fn_ptr_shim".into()),
                InstanceKind::DropGlue(..) => res_kind = J::s("drop_glue".into()),
                InstanceKind::CloneShim(..) => res_kind = J::s("clone_shim".into()),
                _ => res_kind = J::s("other".into()),
            }
        }
        let tr = tcx.trait_of_assoc(did).map(|t| J::s(def_path(tcx, t))).unwrap_or(J::Null);
        if tcx.trait_of_assoc(did).is_some() && args.len() > 0 {
            if let Some(t0) = args[0].as_type() {
                if matches!(t0.kind(), ty::Dynamic(..)) {
                    virt = true;
                }
            }
        }
        let mut substs = Vec::new();
        let mut closure_args = Vec::new();
        for a in args.iter() {
            match a.kind() {
                GenericArgKind::Type(t) => {
                    substs.push(J::s(ty_str(t)));
                    if let ty::Closure(cd, _) = t.kind() {
                        closure_args.push(J::s(def_path(tcx, *cd)));
                    }
                    // fn items passed as generic args (e.g. map(Literal::from))
                    if let ty::FnDef(fd, _) = t.kind() {
                        closure_args.push(J::s(def_path(tcx, *fd)));
                    }
                }
                GenericArgKind::Lifetime(_) => {}
                GenericArgKind::Const(c) => substs.push(J::s(format!("{}", c))),
            }
        }
        let krate = tcx.crate_name(did.krate).to_string();
        J::obj(vec![
            ("decl", J::s(decl)),
            ("resolved", resolved),
            ("res_kind", res_kind),
            ("virtual", J::Bool(virt)),
            ("trait", tr),
            ("crate", J::s(krate)),
            ("local", J::Bool(did.is_local())),
            ("substs", J::Arr(substs)),
            ("fn_args", J::Arr(closure_args)),
        ])
    }

    fn operand(&self, o: &Operand<'tcx>) -> J {
        match o {
            Operand::Copy(p) => J::obj(vec![("c", self.place(p))]),
            Operand::Move(p) => J::obj(vec![("m", self.place(p))]),
            Operand::Constant(c) => self.constant(&c.const_, c.span),
            #[allow(unreachable_patterns)]
            _ => J::obj(vec![("other", J::s(format!("{:?}", o)))]),
        }
    }

    fn rvalue(&self, rv: &Rvalue<'tcx>) -> J {
        let mut f: Vec<(&'static str, J)> = Vec::new();
        match rv {
            Rvalue::Use(op, ..) => {
                f.push(("k", J::s("use".into())));
                f.push(("ops", J::Arr(vec![self.operand(op)])));
            }
            Rvalue::Repeat(op, n) => {
                f.push(("k", J::s("repeat".into())));
                f.push(("ops", J::Arr(vec![self.operand(op)])));
                f.push(("n", J::s(format!("{}", n))));
            }
            Rvalue::Ref(_, bk, p) => {
                f.push(("k", J::s("ref".into())));
                f.push(("mut", J::Bool(matches!(bk, BorrowKind::Mut { .. }))));
                f.push(("place", self.place(p)));
            }
            Rvalue::RawPtr(k, p) => {
                f.push(("k", J::s("rawptr".into())));
                f.push(("mut", J::Bool(format!("{:?}", k).contains("Mut"))));
                f.push(("place", self.place(p)));
            }
            Rvalue::Cast(ck, op, ty) => {
                f.push(("k", J::s("cast".into())));
                let ckn = match ck {
                    CastKind::PointerCoercion(pc, _) => format!("ptr:{:?}", pc),
                    other => format!("{:?}", other),
                };
                f.push(("cast", J::s(ckn)));
                f.push(("ops", J::Arr(vec![self.operand(op)])));
                f.push(("ty", J::s(ty_str(*ty))));
            }
            Rvalue::BinaryOp(op, bx) => {
                let (a, b) = &**bx;
                f.push(("k", J::s("binop".into())));
                f.push(("op", J::s(format!("{:?}", op))));
                f.push(("ops", J::Arr(vec![self.operand(a), self.operand(b)])));
            }
            Rvalue::UnaryOp(op, a) => {
                f.push(("k", J::s("unop".into())));
                f.push(("op", J::s(format!("{:?}", op))));
                f.push(("ops", J::Arr(vec![self.operand(a)])));
            }
            Rvalue::Discriminant(p) => {
                f.push(("k", J::s("discr".into())));
                f.push(("place", self.place(p)));
            }
            Rvalue::Aggregate(ak, ops) => {
                f.push(("k", J::s("aggregate".into())));
                let mut a: Vec<(&'static str, J)> = Vec::new();
                match &**ak {
                    AggregateKind::Array(t) => {
                        a.push(("kind", J::s("array".into())));
                        a.push(("ty", J::s(ty_str(*t))));
                    }
                    AggregateKind::Tuple => a.push(("kind", J::s("tuple".into()))),
                    AggregateKind::Adt(did, vi, _args, _, _) => {
                        a.push(("kind", J::s("adt".into())));
                        a.push(("path", J::s(def_path(self.tcx, *did))));
                        let def = self.tcx.adt_def(*did);
                        let v = def.variant(*vi);
                        a.push(("variant", J::s(v.name.to_string())));
                        a.push(("variant_idx", J::Int(vi.as_u32() as i128)));
                        a.push((
                            "field_names",
                            J::Arr(v.fields.iter().map(|fd| J::s(fd.name.to_string())).collect()),
                        ));
                    }
                    AggregateKind::Closure(did, _) => {
                        a.push(("kind", J::s("closure".into())));
                        a.push(("path", J::s(def_path(self.tcx, *did))));
                    }
                    other => {
                        a.push(("kind", J::s("other".into())));
                        a.push(("dbg", J::s(format!("{:?}", other))));
                    }
                }
                f.push(("agg", J::obj(a)));
                f.push(("ops", J::Arr(ops.iter().map(|o| self.operand(o)).collect())));
            }
            Rvalue::CopyForDeref(p) => {
                f.push(("k", J::s("use".into())));
                f.push(("ops", J::Arr(vec![J::obj(vec![("c", self.place(p))])])));
            }
            other => {
                f.push(("k", J::s("other".into())));
                f.push(("dbg", J::s(format!("{:?}", other))));
            }
        }
        J::obj(f)
    }

    fn block(&self, data: &BasicBlockData<'tcx>) -> J {
        let mut stmts = Vec::new();
        for st in &data.statements {
            match &st.kind {
                StatementKind::Assign(bx) => {
                    let (dst, rv) = &**bx;
                    let (line, exp) = self.line(st.source_info.span);
                    stmts.push(J::obj(vec![
                        ("k", J::s("assign".into())),
                        ("dst", self.place(dst)),
                        ("rv", self.rvalue(rv)),
                        ("line", line),
                        ("exp", exp),
                    ]));
                }
                StatementKind::SetDiscriminant { place, variant_index } => {
                    let (line, exp) = self.line(st.source_info.span);
                    stmts.push(J::obj(vec![
                        ("k", J::s("setdiscr".into())),
                        ("dst", self.place(place)),
                        ("variant_idx", J::Int(variant_index.as_u32() as i128)),
                        ("line", line),
                        ("exp", exp),
                    ]));
                }
                _ => {}
            }
        }
        let term = data.terminator();
        let (line, exp) = self.line(term.source_info.span);
        let mut t: Vec<(&'static str, J)> = Vec::new();
        match &term.kind {
            TerminatorKind::Call { func, args, destination, target, unwind: _, .. } => {
                t.push(("k", J::s("call".into())));
                match func {
                    Operand::Constant(c) => match c.const_.ty().kind() {
                        ty::FnDef(did, ga) => t.push(("callee", self.callee(*did, ga))),
                        _ => t.push(("callee_op", self.operand(func))),
                    },
                    _ => t.push(("callee_op", self.operand(func))),
                }
                t.push(("args", J::Arr(args.iter().map(|a| self.operand(&a.node)).collect())));
                t.push(("dst", self.place(destination)));
                t.push(("target", target.map(|b| J::Int(b.as_u32() as i128)).unwrap_or(J::Null)));
            }
            TerminatorKind::SwitchInt { discr, targets } => {
                t.push(("k", J::s("switch".into())));
                t.push(("discr", self.operand(discr)));
                let mut ts = Vec::new();
                for (v, bb) in targets.iter() {
                    ts.push(J::Arr(vec![J::s(format!("{}", v)), J::Int(bb.as_u32() as i128)]));
                }
                t.push(("targets", J::Arr(ts)));
                t.push(("otherwise", J::Int(targets.otherwise().as_u32() as i128)));
                // type of the discriminant
                t.push(("discr_ty", J::s(ty_str(discr.ty(&self.body.local_decls, self.tcx)))));
            }
            TerminatorKind::Assert { cond, expected, msg, target, .. } => {
                t.push(("k", J::s("assert".into())));
                t.push(("cond", self.operand(cond)));
                t.push(("expected", J::Bool(*expected)));
                let m = format!("{:?}", msg);
                let kind = m.split('(').next().unwrap_or("").to_string();
                t.push(("msg", J::s(kind)));
                t.push(("target", J::Int(target.as_u32() as i128)));
            }
            TerminatorKind::Goto { target } => {
                t.push(("k", J::s("goto".into())));
                t.push(("target", J::Int(target.as_u32() as i128)));
            }
            TerminatorKind::Return => t.push(("k", J::s("return".into()))),
            TerminatorKind::Unreachable => t.push(("k", J::s("unreachable".into()))),
            TerminatorKind::UnwindResume => t.push(("k", J::s("resume".into()))),
            TerminatorKind::UnwindTerminate(_) => t.push(("k", J::s("terminate".into()))),
            TerminatorKind::Drop { place, target, .. } => {
                t.push(("k", J::s("drop".into())));
                t.push(("place", self.place(place)));
                t.push(("target", J::Int(target.as_u32() as i128)));
            }
            TerminatorKind::FalseEdge { real_target, .. } => {
                t.push(("k", J::s("goto".into())));
                t.push(("target", J::Int(real_target.as_u32() as i128)));
            }
            TerminatorKind::FalseUnwind { real_target, .. } => {
                t.push(("k", J::s("goto".into())));
                t.push(("target", J::Int(real_target.as_u32() as i128)));
            }
            other => {
                t.push(("k", J::s("other".into())));
                t.push(("dbg", J::s(format!("{:?}", other))));
            }
        }
        t.push(("line", line));
        t.push(("exp", exp));
        let _ = self.did;
        J::obj(vec![
            ("cleanup", J::Bool(data.is_cleanup)),
            ("stmts", J::Arr(stmts)),
            ("term", J::obj(t)),
        ])
    }
}
