#!/usr/bin/env python3
"""usage: tools/probe.py <probes.json> : what-if audit. Each probe {id, edits:[{file, old, new}]} is applied to a scratch copy of /repo
(exact, unique string replacement), all rule sets run, and the properties that fire are printed (none = a blind spot worth a look).
Probes need not be behaviour-breaking; this is an exploration aid, not a check."""
import json
import os
import shutil
import subprocess
import sys
import tempfile

VERIF = os.path.dirname(os.path.dirname(os.path.abspath(__file__)))


def main():
    probes = json.load(open(sys.argv[1]))
    for pr in probes:
        tmp = tempfile.mkdtemp(prefix="verif-probe-")
        root = os.path.join(tmp, "repo")
        try:
            shutil.copytree("/repo", root, ignore=shutil.ignore_patterns("target", ".git"))
            ok = True
            for e in pr["edits"]:
                p = os.path.join(root, e["file"])
                s = open(p).read()
                if s.count(e["old"]) != 1:
                    print("%-40s SKIPPED (old text occurs %d times in %s)" % (pr["id"], s.count(e["old"]), e["file"]))
                    ok = False
                    break
                open(p, "w").write(s.replace(e["old"], e["new"]))
            if not ok:
                continue
            p = subprocess.run([os.path.join(VERIF, "tools", "allprops.py"), root], stdout=subprocess.PIPE, stderr=subprocess.PIPE, cwd=VERIF)
            try:
                res = json.loads(p.stdout.decode())
            except Exception:
                print("%-40s ERROR %s" % (pr["id"], (p.stdout.decode() + p.stderr.decode())[-300:]))
                continue
            if "error" in res:
                print("%-40s DOES NOT COMPILE / %s" % (pr["id"], res["error"][-200:].replace("\n", " ")))
                continue
            fired = {k: v["violations"][:2] for k, v in res["props"].items() if v.get("violations")}
            print("%-40s %s" % (pr["id"], "fired: " + json.dumps({k: [x.split("|", 2)[1] + "|" + x.rsplit("|", 1)[-1] for x in v] for k, v in fired.items()})[:400] if fired else "NOTHING FIRED"))
        finally:
            shutil.rmtree(tmp, ignore_errors=True)


if __name__ == "__main__":
    main()
