#!/usr/bin/env python3
"""usage: tools/dbgpatch.py <patch.diff> Cxx [rule id] : apply a change to a scratch copy, run one rule set and print every instance
(ok / violation) of the named rule - for working on the rules"""
import importlib
import os
import shutil
import subprocess
import sys
import tempfile

VERIF = os.path.dirname(os.path.dirname(os.path.abspath(__file__)))
sys.path.insert(0, VERIF)
from sa import engine  # noqa: E402

tmp = tempfile.mkdtemp(prefix="verif-dbg-")
root = os.path.join(tmp, "repo")
try:
    shutil.copytree("/repo", root, ignore=shutil.ignore_patterns("target", ".git"))
    if sys.argv[1] != "-":
        subprocess.run(["patch", "-p1", "-s", "-i", os.path.abspath(sys.argv[1])], cwd=root, check=True)
    prog, tq, stats = engine.generate_facts(root)
    mod = importlib.import_module("sa.rules.%s" % sys.argv[2])
    ctx = engine.Context(sys.argv[2], "quick", prog, tq, stats)
    mod.run(ctx)
    for r in ctx.rules:
        if len(sys.argv) > 3 and r.id != sys.argv[3]:
            continue
        print("==", r.id)
        for i in r.instances:
            print("  ", str(i)[:400])
        for v in r.violations:
            print("  VIOLATION", str(v)[:400])
finally:
    shutil.rmtree(tmp, ignore_errors=True)
