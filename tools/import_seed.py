#!/usr/bin/env python3
"""usage: tools/import_seed.py <seed dir> <id> <property> [checks...]
Imports a seeded change produced by an independent sub-agent into /verif/seeded/<id>/ after it has
been confirmed (confirm.txt written by tools/confirm_seed.sh in a scratch worktree), and records
which checks catch it (by applying it to /repo, running them, and undoing it straight away)."""
import json
import os
import re
import shutil
import subprocess
import sys

VERIF = os.path.dirname(os.path.dirname(os.path.abspath(__file__)))


def main():
    sd, sid, prop = sys.argv[1], sys.argv[2], sys.argv[3]
    checks = sys.argv[4:] or [prop]
    conf = open(os.path.join(sd, "confirm.txt")).read()
    ok = "demo_without_patch=PASS" in conf and "suite_with_patch=PASS" in conf and "demo_with_patch=FAIL" in conf
    if not ok:
        print("NOT CONFIRMED:", sid)
        print(conf[:1500])
        return 1
    dst = os.path.join(VERIF, "seeded", sid)
    if os.path.exists(os.path.join(dst, "meta.json")):
        print("REFUSED: %s exists already" % sid)
        return 1
    os.makedirs(dst, exist_ok=True)
    shutil.copy(os.path.join(sd, "patch.diff"), os.path.join(dst, "patch.diff"))
    shutil.copy(os.path.join(sd, "demo.rs"), os.path.join(dst, "demo.rs"))
    notes = open(os.path.join(sd, "notes.md")).read() if os.path.exists(os.path.join(sd, "notes.md")) else ""
    with open(os.path.join(dst, "notes.md"), "w") as f:
        f.write(notes)
    # run the checks against the change, on a scratch copy of /repo (never /repo itself)
    patch = os.path.join(dst, "patch.diff")
    sys.path.insert(0, os.path.dirname(os.path.abspath(__file__)))
    import bank

    res = bank.run_patch(patch)
    if "error" in res:
        print("cannot run the checks:", res["error"])
        return 1
    results = {}
    for c in checks:
        v = res["props"].get(c, {})
        keys = v.get("violations", [])
        results[c] = {"exit": 1 if keys else (2 if v.get("internal_error") else 0), "violation_keys": keys[:6]}
    others = sorted(p for p, v in res["props"].items() if v.get("violations") and p not in checks)
    if others:
        print("   also fires in:", others)
    needs = ""
    m = re.search(r"(?is)(needs?|manifest|trigger)[^\n]*\n(.{0,900})", notes)
    if m:
        needs = m.group(0)[:900]
    meta = {
        "id": sid,
        "property": prop,
        "origin": "written by an independent sub-agent that saw only the property text and a scratch worktree of the repository (nothing from /verif)",
        "needs_to_manifest": needs or "see notes.md",
        "confirmed_by": {
            "how": "tools/confirm_seed.sh in a scratch git worktree of /repo (removed afterwards): demo on the unchanged tree, full existing suite with the patch, demo with the patch",
            "demo_without_patch": "PASS",
            "existing_suite_with_patch": "PASS",
            "demo_with_patch": "FAIL",
            "log": conf[:3000],
        },
        "checks_run": results,
        "caught": any(v["exit"] == 1 and v["violation_keys"] for v in results.values()),
    }
    with open(os.path.join(dst, "meta.json"), "w") as f:
        json.dump(meta, f, indent=1)
    print(sid, "imported; caught=%s" % meta["caught"], {k: (v["exit"], [x.split("|")[1] for x in v["violation_keys"]][:3]) for k, v in results.items()})
    return 0


if __name__ == "__main__":
    sys.exit(main())
