#!/bin/sh
# usage: tools/confirm_seed.sh <worktree> <seed dir containing patch.diff and demo.rs>
# Confirms in a scratch worktree: demo passes on the unchanged tree; with the patch the existing suite
# still passes and the demo fails.  Writes <seed dir>/confirm.txt and leaves the worktree clean.
WT=$1; SD=$2
cd "$WT" || exit 2
git checkout -q -- . ; rm -f tests/seed_demo.rs
export CARGO_NET_OFFLINE=true
{
echo "## demo on the unchanged tree"
cp "$SD/demo.rs" tests/seed_demo.rs
if timeout 900 cargo test --offline --test seed_demo >/tmp/cs.$$ 2>&1; then echo "demo_without_patch=PASS"; else echo "demo_without_patch=FAIL"; tail -5 /tmp/cs.$$; fi
rm -f tests/seed_demo.rs
echo "## existing suite with the patch"
git apply "$SD/patch.diff" || echo "APPLY_FAILED"
if timeout 1800 cargo test --workspace --no-fail-fast --offline >/tmp/cs.$$ 2>&1; then echo "suite_with_patch=PASS"; else echo "suite_with_patch=FAIL"; grep -E "^test .* FAILED|^error" /tmp/cs.$$ | head; fi
grep -E "^test result" /tmp/cs.$$ | tr '\n' ';'; echo
echo "## demo with the patch"
cp "$SD/demo.rs" tests/seed_demo.rs
if timeout 900 cargo test --offline --test seed_demo >/tmp/cs.$$ 2>&1; then echo "demo_with_patch=PASS"; else echo "demo_with_patch=FAIL"; grep -E "^test .* (FAILED|ok)|panicked" /tmp/cs.$$ | head -8; fi
} > "$SD/confirm.txt" 2>&1
rm -f tests/seed_demo.rs /tmp/cs.$$
git checkout -q -- .
git status --short | head -3 >> "$SD/confirm.txt"
