#!/usr/bin/env python3
"""regenerates the table of independently seeded changes in DESIGN.md (between the SEEDTABLE markers) from seeded/*/meta.json"""
import glob
import json
import os
import re

VERIF = os.path.dirname(os.path.dirname(os.path.abspath(__file__)))


def what(sid):
    p = os.path.join(VERIF, "seeded", sid, "notes.md")
    d = os.path.join(VERIF, "seeded", sid, "patch.diff")
    files = re.findall(r"^\+\+\+ b/(.*)$", open(d).read(), re.M)
    txt = open(p).read() if os.path.exists(p) else ""
    # first sentence-like line that is not a heading
    for line in txt.splitlines():
        l = line.strip(" -*#`")
        if len(l) > 40 and not l.lower().startswith(("seed", "property", "command", "file")):
            return re.sub(r"\s+", " ", l)[:170].replace("|", "/"), files
    return "", files


rows = []
for m in sorted(glob.glob(os.path.join(VERIF, "seeded", "*", "meta.json"))):
    d = json.load(open(m))
    caught = sorted(c for c, v in d["checks_run"].items() if v.get("exit") == 1)
    rules = sorted({k.split("|")[1] for c, v in d["checks_run"].items() for k in v.get("violation_keys", [])})
    hist = d.get("history") or ""
    first = "no" if re.match(r"(?i)\s*missed", hist) else "yes"
    if re.match(r"(?i)\s*caught by (C\d+)", hist):
        first = "by " + re.match(r"(?i)\s*caught by (C\d+)", hist).group(1) + " only"
    w, files = what(d["id"])
    w = d.get("summary") or w
    if d.get("outside_family"):
        caught, rules, first = ["— (not decided)"], [], "no: " + d["outside_family"]
    rows.append("| %s | %s | %s | %s | %s | %s |" % (d["id"], ", ".join(os.path.basename(f) for f in files), w, ", ".join(caught), ", ".join("`%s`" % r for r in rules), first))
n = len(rows)
missed = sum(1 for r in rows if r.endswith("| no |"))
undecided = sum(1 for r in rows if "(not decided)" in r)
table = "| seed | file(s) | what the change does | fires in | rule(s) | caught when first tried |\n|---|---|---|---|---|---|\n" + "\n".join(rows)
table += "\n\n%d seeded changes; %d were caught by the checks as they stood when the change arrived, %d were missed (or caught only under another property) and led to a new or extended rule; %d are caught now and %d are recorded as not decided by this technique, with the reason (`tools/bank.py seeded`).\n" % (n, n - missed - undecided - sum(1 for r in rows if "only |" in r), missed + undecided + sum(1 for r in rows if "only |" in r), n - undecided, undecided)
p = os.path.join(VERIF, "DESIGN.md")
s = open(p).read()
a, b = "<!-- SEEDTABLE:BEGIN -->", "<!-- SEEDTABLE:END -->"
if a in s and b in s:
    s = s[: s.index(a) + len(a)] + "\n" + table + s[s.index(b) :]
    open(p, "w").write(s)
    print("table of %d seeds written" % n)
else:
    print(table)
