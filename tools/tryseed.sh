#!/bin/sh
# usage: tools/tryseed.sh <patch.diff> <Cxx> [more Cyy..] : apply a seeded change to /repo, run the checks, undo it
P=$1; shift
cd /repo && git apply --check "$P" || { echo "patch does not apply"; exit 3; }
git -C /repo apply "$P"
cd /verif
for c in "$@"; do
  out=$(./check $c 2>&1); code=$?
  echo "== $c exit=$code"; echo "$out" | grep -E "^  key:|^VIOLATION|CANNOT" | cut -c1-260
done
git -C /repo checkout -- . 
git -C /repo status --short | head -3
