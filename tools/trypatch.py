#!/usr/bin/env python3
"""usage: tools/trypatch.py <patch.diff> [Cxx ...] : apply a change to a scratch copy of /repo (never /repo itself), run all 18 rule
sets (or print only the listed properties) and print the violation keys"""
import json
import os
import sys

sys.path.insert(0, os.path.dirname(os.path.abspath(__file__)))
import bank  # noqa: E402

res = bank.run_patch(os.path.abspath(sys.argv[1]))
want = sys.argv[2:]
if "error" in res:
    print("ERROR", res["error"])
    sys.exit(2)
for p, v in sorted(res["props"].items()):
    if want and p not in want:
        continue
    if v.get("internal_error"):
        print(p, "INTERNAL", v["internal_error"][-800:])
    for k in v.get("violations", []):
        print(p, k[:400])
print("-- fired:", sorted(p for p, v in res["props"].items() if v.get("violations") or v.get("internal_error")))
