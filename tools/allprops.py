#!/usr/bin/env python3
"""usage: tools/allprops.py <checkout dir> : generate the facts of a checkout ONCE and run the rules of all 18
properties on them in one process (no evidence written).  Prints one JSON object
{"props": {Cxx: {"violations": [keys not listed as known findings], "known": n, "obligations": n}}, "error": ...}."""
import importlib
import json
import os
import sys
import traceback

VERIF = os.path.dirname(os.path.dirname(os.path.abspath(__file__)))
sys.path.insert(0, VERIF)
from sa import engine  # noqa: E402

PROPS = ["C%02d" % i for i in range(1, 20)]


def main():
    repo = sys.argv[1]
    out = {"props": {}}
    try:
        prog, tq, stats = engine.generate_facts(repo)
    except engine.CannotAnalyse as e:
        print(json.dumps({"error": "cannot analyse: %s" % str(e)[-1500:]}))
        return 2
    known = {k["key"] for k in engine.load_known().get("known", [])}
    for p in PROPS:
        mod = importlib.import_module("sa.rules.%s" % p)
        ctx = engine.Context(p, "quick", prog, tq, stats)
        try:
            mod.run(ctx)
        except Exception:
            out["props"][p] = {"internal_error": traceback.format_exc()[-1500:]}
            continue
        allv = [v["key"] for r in ctx.rules for v in r.violations]
        out["props"][p] = {"violations": [k for k in allv if k not in known], "known": len([k for k in allv if k in known]), "obligations": sum(len(r.instances) for r in ctx.rules)}
    print(json.dumps(out))
    return 0


if __name__ == "__main__":
    sys.exit(main())
