#!/usr/bin/env python3
"""Regenerates MANIFEST.json from the per-property table below (single source of truth)."""
import json
import os

HERE = os.path.dirname(os.path.dirname(os.path.abspath(__file__)))

BASE_NOTE = (
    "Trusted base: rustc's type checker, MIR construction and Instance::try_resolve on the installed nightly; the fact "
    "extraction of tools/mirfacts; the std functions modelled by the rules (listed in the evidence file). "
)

CLAIMS = {
    "C15": dict(
        technique="MIR-based static analysis: mutable-use census (F1), who-may-call, verdict tables (F5), clause-store pairing (F2)",
        text="Decides the contract-shape clauses of the incremental SAT interface for all paths of all SatSolver impls: assumptions are never "
        "stored (no mutable use of solver state in solve_under_assumptions; embedded add_clause reachable only from SatSolver::add_clause), "
        "each add_clause appends one 0-terminated record and bumps the counter once, the solving function receives the whole clause store, "
        "verdict tables map Some(true)/Some(false)/None to Satisfiable/Unsatisfiable/Unknown, model width and n_vars() share their roots. "
        "NOT decided: that models satisfy the clauses, that UNSAT is right, that both back ends agree (value clauses; back ends trusted).",
        ref="4/C15",
    ),
    "C16": dict(
        technique="MIR-based static analysis: dependence of format_args! operands (F6), typestate of ChildStdout/ChildStdin at Child::wait (F11), guard/flag analysis of the reply parser (F4)",
        text="Decides, for every path of the code exchanging text with an external solver: the `p cnf` header's variable count depends on the "
        "assumptions and the stored maximum and sizes the model buffer, the clause count is counter+assumptions.len(), stdout is drained "
        "before Child::wait and no ChildStdin is kept by the waiting function (no pipe deadlock), Satisfiable needs status, value-line and "
        "terminator flags, unknown lines panic. NOT decided: timing, the behaviour of a particular external program.",
        ref="4/C16",
    ),
    "C17": dict(
        technique="MIR-based static analysis: result-consumption (F3) of every SAT solve site, verdict tables (F5), who-may-call on catch_unwind/exit, dominance of answer writes",
        text="Decides that on every path outside src/sat the verdict of each SAT call is consumed only by SolvingResult::unwrap_model (whose Unknown "
        "arm diverges), that no back end maps a missing/garbled verdict to Satisfiable/Unsatisfiable, that no panic can be caught "
        "(no catch_unwind/hook), that the binaries exit non-zero only through one exit(1) on the Err arm, and that answers are written once, "
        "after the solver returned. This property is almost entirely shape; nothing value-level is claimed.",
        ref="4/C17",
    ),
}

CLAIMS.update({
    "C08": dict(
        technique="MIR-based static analysis: discriminant-target tables of the event-log scans (F5), logging/replay/cursor pairing (F2), allocator-discipline analysis on shared solver handles, guard analysis of selector retirement and slot exhaustion (F4)",
        text="Decides invalidation, logging and allocation shape clauses for all paths of the six dynamic solvers: every update variant of the event "
        "enum is a barrier in each cache look-up; each update method logs exactly its own variant on every path, the replay applies the same-named "
        "encoder operation, starts at the cursor and advances it to the log length, every query replays before its SAT calls; a private counter "
        "allocator never coexists with n_vars()+1 allocation on a shared solver unless it follows n_vars(); re-encoding targets the attacked "
        "argument, retires the recorded selector (unit clause + removal from the assumptions) and records the new one; slot exhaustion forces a "
        "full rebuild on a fresh solver; assumptions are recomputed per query. NOT decided: equality with a from-scratch computation (value clause), "
        "e.g. the cached-certificate defect D10 described in DESIGN.md is outside this family.",
        ref="4/C08",
    ),
    "C09": dict(
        technique="MIR-based static analysis: return-source analysis through the call graph (Err-capability), control-dependence of table growth on a freshness test (F4), error-before-mutation with callee summaries",
        text="Decides that each Result-returning DynamicSolver update method can return an error at all (a body whose only return source is the "
        "constant Ok(()) cannot report an unknown argument/attack), that encoder tables grow after AAFramework::new_argument only under a "
        "freshness test, that the from-scratch wrapper forwards updates to the framework, and that the framework's fallible mutators fail before "
        "mutating and ignore existing attacks. Six known findings (the buffered encoders' buffer_* functions cannot fail) are listed in "
        "known_findings.json. NOT decided: that later answers equal those of the framework without the rejected operation.",
        ref="4/C09",
    ),
    "C12": dict(
        technique="MIR-based static analysis: who-may-mutate operation tables per field (F1), pairing (F2) and guard (F4) obligations per (mutator, invariant), error-before-mutation summaries",
        text="Decides one structural obligation per (mutator, representation invariant) of the framework store, over all call sites and paths: label "
        "vector append-only with tombstones, pushes only inside entry().or_insert_with with id = len, one Label::new call site and no id setter; "
        "map ops restricted to entry/remove; removed counters incremented exactly once and only when something was removed (self-attack double "
        "count guard); every attack push mirrored in both index lists; index vectors grow only with the argument count; no mutation before an "
        "Err return; duplicate attack insertion guarded; iterators skip tombstones. These are necessary conditions of the set-model behaviour; "
        "full functional correctness is not proved.",
        ref="4/C12",
    ),
})

CLAIMS.update({
    "C05": dict(
        technique="MIR-based static analysis: finite-table extraction and comparison (F5) against the tables stated by the property, result-consumption (F3), who-may-call on exit/stdout/catch_unwind, exactly-once dominance (F2)",
        engine="mirfacts+sa",
        text="Decides the command-line contract for all paths of the two binaries: the 21 problem names printed (AsRef x EnumIter x `{}-{}`) are exactly "
        "those parsed (first hyphen, lower-casing, TryFrom tables) and equal the list of the statement; each (query, semantics) pair reaches the solver "
        "type the statement names and each semantics group its base-semantics encoder; no Result is dropped in the binaries; one exit(1) on the Err arm, "
        "no catch_unwind; stdout is reached only by answer writes, println! of solver-free commands and the logger (forced off by the wrapper, whose "
        "injected flags all exist in the clap definitions); the answer is written exactly once after the solver returned, in the fixed grammar. "
        "NOT decided: that the printed status/witness is the semantically right one (C01-C04), clap's own behaviour.",
        ref="4/C05",
    ),
    "C13": dict(
        technique="regular-language inclusion by DFA product (relang) on the regex constants extracted from MIR, panic census with guard-idiom discharge (F8), guard dominance and small interval reasoning on the ICCMA reader (F4/F7)",
        engine="mirfacts+sa+relang",
        text="Decides for all input strings that the Aspartix declaration languages accepted by the two-stage regex readers lie between two fixed reference "
        "languages (every identifier declaration accepted; nothing but one-word, non-digit-initial, dot-terminated declarations read), that arg/att "
        "languages are disjoint, that stage-2 failures, unknown lines, late argument declarations and undeclared arguments are errors; and for all paths "
        "reachable from both readers that every panic source is dominated by a recognised guard or is a confirmed table entry, that ICCMA indexes are "
        "accepted only in 1..=n (n = the framework's own count), map to id k-1 in parsed direction, labels are 1..=n, content after a blank line is an "
        "error. NOT decided: byte-exact faithfulness as a value fact beyond these clauses.",
        ref="4/C13",
    ),
    "C14": dict(
        technique="regular-language inclusion by DFA product (relang) of writer templates in the reader language, template tables (F5), tombstone-filter and order checks on the writer's loops",
        engine="mirfacts+sa+relang",
        text="Decides for all identifier labels that every line the Aspartix framework writer emits is accepted by the reader as the same kind of "
        "declaration with the same names (capture groups are blanks+name+blanks and the consumer trims), that only live arguments and attacks are "
        "written, arguments before attacks, attacker before attacked, one per line; and that the response writers emit exactly the fixed answer "
        "grammar (`w` + ` {}`..., `[`..`,`..`]`, YES/NO) and flush. NOT decided: equality of the re-read framework as a value beyond grammar "
        "inclusion plus the store invariants of C12.",
        ref="4/C14",
    ),
})

CLAIMS.update({
    "C06": dict(
        technique="type-level facts from the type-checked program (deep type walk for cells, field types, unsafe census) + MIR who-may-mutate census (F1) + compile_fail witnesses",
        text="Decides that querying never modifies the framework (every static solver/helper/encoder reaches it through `&AAFramework<T>`, the store types "
        "reach no cell/atomic/trait object, no unsafe; witness W1: mutating the framework while a solver borrows it does not compile), that static "
        "solvers are stateless across queries (no field write outside constructors, no stored SAT solver, every solver object of a query comes from "
        "the factory call of that query) - hence order/repetition independence -, that the only stateful encoder re-initialises all its cells "
        "before any use in each encoding, and that back ends are reached only through the SatSolver trait, with assumptions never persisting. "
        "NOT decided: equality of statuses across encodings, back ends and the certificate flag (value clauses), dynamic solvers (C08).",
        ref="4/C06",
    ),
})

CLAIMS.update({
    "C01": dict(
        technique="MIR-based static analysis: return-shape summaries (F5), loop/exit structure of the stable solver (F2), id-provenance at by-id look-ups (F6), type-level ownership + compile_fail witness W3",
        text="NARROW CLAIM. Decides only: (1) `no extension` (None) can be returned by the stable solver alone, every other SingleExtensionComputer "
        "returns Some on all paths; (2) in the stable solver an unsatisfiable component returns None at once and the loop ranges over all components "
        "of the caller's framework; (3) answers are the caller's arguments: static solvers own no framework data, by-id look-ups on the solver's own "
        "framework never take a component-local id (results are mapped back by label), SE problems are dispatched to the solver the statement names. "
        "NOT decided: that the returned set is an extension under the semantics, maximality, uniqueness, absence of duplicates (value clauses).",
        ref="4/C01",
    ),
    "C02": dict(
        technique="MIR-based static analysis: path/shape rule on the stable solver's UNSAT outcome with constant propagation from the entry points (F2/F5), dispatch tables (F5), membership-shape check",
        text="NARROW CLAIM. Decides only the clauses the statement singles out: no stable extension in any component => NO for every credulous query "
        "(UNSAT arm returns (status_on_unsat, None) immediately and the credulous entry point passes on_unsat=false); DC-PR is answered through the "
        "complete solver and every (DC, semantics) pair through the solver type named by the statement; GR answers are membership tests in the one "
        "grounded extension; certificate/status shapes. NOT decided: `YES exactly when some extension contains the argument` (value clause).",
        ref="4/C02-C03",
    ),
    "C03": dict(
        technique="MIR-based static analysis: path/shape rule on the stable solver's UNSAT outcome (F2/F5), dispatch tables (F5), membership-shape check, guard analysis of the preferred shortcut (F4)",
        text="NARROW CLAIM. Decides only: no stable extension => YES for every skeptical ST query (entry point passes on_unsat=true); DS-CO (and SE-CO) "
        "are answered through the grounded solver, every (DS, semantics) pair through the solver the statement names; GR/ID answers are membership "
        "tests in the one computed extension; the preferred counter-example shortcut is guarded. NOT decided: `YES exactly when every extension "
        "contains the argument`, correctness of the counter-example / range searches (value clauses).",
        ref="4/C02-C03",
    ),
    "C04": dict(
        technique="MIR-based static analysis: relational return-shape summaries over all 24 certificate methods (F5), must-pass-through of the completion loop (F2), guard + constant of the shortcut (F4), id provenance (F6), ownership",
        text="Decides the shape and assembly clauses: every credulous certificate method returns only (true,Some)/(false,None) and every skeptical one "
        "only (true,None)/(false,Some) on all paths including helpers, caches and dyn dispatch; a certificate decided on the merged component of the "
        "query is returned only after draining the remaining components; the non-maximal shortcut is never taken when a certificate is wanted; "
        "members are the caller's arguments (label mapping, ownership). NOT decided: that the assembled set is an extension / contains / omits the "
        "queried argument as a value fact - in particular the dynamic preferred solver's cached certificate (D10 in DESIGN.md) is outside this family.",
        ref="4/C04",
    ),
    "C07": dict(
        technique="MIR-based static analysis: tag propagation (literal role x polarity x list completeness) from arg_to_lit to every SAT clause/assumption sink (F6), delegation table (F5)",
        text="Decides for all list lengths and placements at once that listed arguments are encoded as a disjunction: positive images of the query list "
        "reach clauses only from the whole list, only negated images reach assumptions, no clause over a filtered part of the list; with/without "
        "certificate variants agree by delegation or are both checked. One known finding (stable credulous lists across components, D5) is listed "
        "in known_findings.json. NOT decided: the status values themselves.",
        ref="4/C07",
    ),
})

CLAIMS.update({
    "C10": dict(
        technique="affine abstract interpretation of the id<->variable maps extracted from MIR (interval x congruence disjointness, symbolic composition), dominance of selector allocation, loop-exit edges of clause-emitting loops (CFG)",
        text="NARROW CLAIM (variable layout and decoder agreement only). Decides for all n >= 1 and all ids that argument, attacker-disjunction and "
        "range variables of the four encoders are given by injective affine maps with pairwise disjoint images, that decoding an argument variable "
        "gives back its id and never decodes an auxiliary/range/lazily-numbered variable as an argument, that range variables are "
        "first_range_var(n)+id, that reserve() covers the layout, that selectors are allocated after encoding, and that a clause-emitting iterator loop of an encoder is left only when its iterator is exhausted. NOT decided: that the models of "
        "the generated CNF are exactly the conflict-free / admissible / complete / stable sets (main statement; needs all-models reasoning).",
        ref="4/C10",
    ),
    "C11": dict(
        technique="generic-bounds census and who-may-call (parametricity argument), sink analysis of formatted labels, table/path rules on component extraction (F5/F2)",
        text="NARROW CLAIM (renaming and mapping clauses). Decides that no solver/encoder/utility can depend on what a label is (only LabelType bounds, "
        "no reflection, no ordering/hash-order iteration, label text reaches only writers/log/errors), that component extraction copies every attack "
        "whose attacker is in the component in (attacker, attacked) order with compact ids in vector order and searches components in both "
        "directions, that results are mapped back by label and readers keep declaration order. NOT decided: invariance under reordering, "
        "duplicated declarations, disjoint union, and the cross-semantics consistency relations (value clauses).",
        ref="4/C11",
    ),
    "C18": dict(
        technique="MIR-based static analysis: literal-role tags on the closures installed on MaximalExtensionComputer (F6), must-execute add_clause (F2), loop structure of drivers and CO/ST",
        text="NARROW CLAIM (progress obligations). Decides that every satisfiable step of the grow/enumerate loops adds on all paths a clause made of the "
        "complement literals and the positive selector, that increase functions assume members + negated selector, fresh searches the negated and "
        "same-range searches the positive selector, that every driver loop steps once per iteration and leaves on the terminal state, that CO makes "
        "no SAT call in a loop and ST one per component, and that the ID enumeration stops early. NOT decided: termination and the numeric bounds.",
        ref="4/C18",
    ),
    "C19": dict(
        technique="MIR-based static analysis: provenance trees across closures (which value is stored under which index, which table an accessor reads with which key), pairing of class membership with the `classified` marks",
        text="NARROW CLAIM (second sentence of the statement only). Decides that the two mappings are total and inverse to each other at the level of "
        "classes: the reduced argument k is made from class k (labels built from the class list in order, nothing filtered), the init->reduced table "
        "stores k under every member of class k (index and value come from one step of one enumeration of the class list) and has one entry per "
        "initial argument, `reduced_arg_to_init_args` reads class `reduced.id()` and maps its members through the initial framework, "
        "`init_to_reduced_arg` reads the table at `init.id()` and looks the result up in the reduced framework, the constructor stores the class "
        "list it reduced; and every argument enters exactly one class (an id put into a class is marked as classified in the same step; an "
        "iteration over the arguments opens a class unless its argument is already classified). Of the first sentence only the mechanism the "
        "property names is decided: a candidate joins a class under `its propagation contains the seed`, and the propagations start from plain "
        "in-degree counters that are never rewritten. NOT decided: that arguments merged this way belong to exactly the same complete extensions "
        "(a semantic fact about the propagation over all graphs).",
        ref="4/C19",
    ),
})


# clauses added after the independently seeded changes and benign refactorings (DESIGN.md section 10)
ADDED = {
    "C01": " Also decided: the counting argument of the grounded extension (initial members = attacker count 0; first-defeat guard and mark; join at counter 1, else decrement by 1; nothing else enters); every iteration of a component loop that goes on contributes the component's part; the callers of a helper returning a tuple with several same-typed components read each component in the same role (no swapped destructuring); the SAT solver handed to an encoding call is created inside every loop that contains the call (no component is encoded on top of another); a range-based maximal-extension computer always runs on a solver filled by encode_constraints_and_range; nothing reachable from the stage solver's single-extension method uses an admissibility-based computation.",
    "C02": " Also decided (scoped to what the credulous entry points can reach, with their constant flags followed into helpers): an argument turned into a SAT literal belongs to the framework that was encoded; fresh solver per encoding; range search on a range encoding; the stage solver is conflict-free based; every listed argument is considered (no early `break`, no loop-carried switch-off); blocking clauses, selector freshness and retirement of query-local selectors in the range-based acceptance search; the counting argument of the grounded extension (GR answers and the grounded pre-step).",
    "C03": " Also decided (scoped to what the skeptical entry points can reach): literal provenance, fresh solver per encoding, range search on a range encoding, stage layering, every listed argument considered, blocking clauses / selector freshness / retirement in the range-based search, the counting argument of the grounded extension (DS-CO, DS-GR and the grounded pre-step).",
    "C04": " Also decided: certificate completion of the range-based solvers uses the range encoding; the dynamic solvers' answer caches (which hold the certificates) are invalidated by every update variant; a cached witness fits every argument of the list it is cached with (D10); id-addressed vectors reached by dynamic queries cover all ids (D11).",
    "C05": " Also decided: a command line rejected by clap returns Ok only for a help/version request; the answer grammar is decided as a language inclusion on the extracted output language of each writer method (F13), with no bare Write::write.",
    "C06": " Also decided, one structural necessary condition per configuration axis (not the equality of statuses itself): encoding - disjoint variable families and the reference clause shapes for each encoder (rules of C10), and the CLI picks the encoder of the base semantics for every --encoding value; certificate flag - the shortcut used only without a certificate quantifies over the listed arguments like the full search; back end / repetition - searches constrain the solver only through the split of the current set and the selector, and a selector made for one SAT call is retired negatively (query-local clauses never outlive the call).",
    "C07": " Also decided: an accumulating loop over the query list is never left early, and the per-component selection of listed arguments is not switched off by a flag set in an earlier iteration.",
    "C08": " Also decided: a query reads only the cache of its own kind; the guarded clauses issued when an argument is re-encoded by the selector-based encoder have exactly the shapes of the static complete / stable encodings (F12), with the attacker ids of iter_attacks_to(argument); the attack-assumption encoder's two full encodings issue exactly the clause shapes of the stable / complete encoding with switchable attacks (literals evaluated to polynomials in the slot variables, the slot count and n_vars()), and an attack's assumption is +att(slot(attacked), slot(attacker)) at its own position; in everything a dynamic query reaches, vectors addressed by argument ids are sized by the id bound, not the live count (defect D11, repaired); a list of decided arguments is cached with a witness only if it is tied to that witness (read off the same SAT model, or cleared of the witness's members: defect D10, repaired).",
    "C09": " Also decided: the freshness test guarding the encoder tables is a by-label look-up or ONE counting function compared before/after; the cache barriers and log/replay obligations of C08; index-pairing of the framework store.",
    "C11": " Also decided: literal provenance across component frameworks; the grounded propagation counts stored attacks with the same multiplicity when it initialises and when it decrements its counters; the whole counting argument of the grounded extension (rule grounded-propagation).",
    "C12": " Also decided: an entry is removed from a per-argument index list at the position found by searching that same list.",
    "C14": " Also decided: the output language of write_framework equals (arg(L).\\n)*(att(L,L).\\n)* (F13), declarations are written in iterator order with nothing filtered or sorted, and no writer uses a bare Write::write; a local staging buffer is cleared only after a write_all of the whole buffer (other buffer forms: not decided).",
    "C15": " Also decided: the integer fields n_vars() is computed from are only ever raised (max / increment / guarded store).",
    "C16": " Also decided: the waiting thread never feeds the child's stdin itself before the piped stdout is drained.",
    "C18": " Also decided: the stored model is replaced together with the stored set, from the same SAT answer; a query method delegates to at most one other query method per path; a retired selector was created in the iteration that retires it; the same-range search keeps the polarity of the two halves of the range split; the installed increase/discard functions add nothing but the selector to those halves; a CO/ST query never starts further queries per listed argument.",
}
for _k, _v in ADDED.items():
    CLAIMS[_k]["text"] += _v

NOT_APPLICABLE = {}

PENDING_REASON = "check under construction in this round: not yet claimed (see DESIGN.md section 10 build order)"


def main():
    props = [json.loads(l) for l in open(os.path.join(HERE, "properties.jsonl"))]
    checks = []
    na = []
    for p in props:
        pid = p["id"]
        if pid in CLAIMS:
            c = CLAIMS[pid]
            checks.append(
                {
                    "property_id": pid,
                    "quick_cmd": "./check %s --tier quick" % pid,
                    "thorough_cmd": "./check %s --tier thorough" % pid,
                    "evidence_file": "evidence/%s.json" % pid,
                    "replay_cmd_template": "./check %s --replay {path}" % pid,
                    "engine": c.get("engine", "mirfacts+sa"),
                    "level_claimed": {"category": "other", "text": c["text"], "design_ref": "DESIGN.md section " + c["ref"]},
                    "level_note": BASE_NOTE + c.get("note", ""),
                    "technique": c["technique"],
                }
            )
        elif pid in NOT_APPLICABLE:
            na.append({"property_id": pid, "reason": NOT_APPLICABLE[pid]})
        else:
            na.append({"property_id": pid, "reason": PENDING_REASON})
    m = {
        "version": 1,
        "setup_cmd": "./setup.sh",
        "hooks": {
            "guard": "crustabri_verif",
            "enable": "none needed: static analysis reads the unmodified sources (RUSTFLAGS='--cfg crustabri_verif' is reserved and unused)",
            "baseline_off_cmd": "cd /repo && cargo test --workspace --no-fail-fast --offline",
            "source_commits": [],
            "add_only": True,
        },
        "engines": [
            {"name": "mirfacts", "path": "tools/mirfacts", "serves_properties": sorted(CLAIMS), "kind_free_text": "rustc_private driver dumping resolved MIR/ADT/impl facts as JSON (injected with RUSTC_WORKSPACE_WRAPPER under cargo +nightly check)"},
            {"name": "relang", "path": "tools/relang", "serves_properties": ["C05", "C13", "C14"], "kind_free_text": "regex-automata based decision of inclusion / disjointness of regular languages (dense DFA product, all strings), with shortest witnesses"},
            {"name": "sa", "path": "sa", "serves_properties": sorted(CLAIMS), "kind_free_text": "Python rule engine: CFG, dominators, def-use/origin tracing, call graph, per-property rules"},
        ],
        "checks": checks,
        "not_applicable": na,
        "notes": "Static analysis only. known_findings.json lists recorded findings and the fix: commits made to /repo. ./check exits 2 (no VIOLATION line) when /repo does not compile.",
    }
    with open(os.path.join(HERE, "MANIFEST.json"), "w") as f:
        json.dump(m, f, indent=1)
        f.write("\n")
    print("MANIFEST.json: %d checks, %d not_applicable" % (len(checks), len(na)))


if __name__ == "__main__":
    main()
