// relang: decides questions about the languages of regular expressions (as the `regex` crate
// interprets them: Unicode classes, UTF-8 haystacks) by product construction over dense DFAs.
//
// stdin:  {"pos": [pattern, ..], "neg": [pattern, ..], "max_states": n}
// stdout: {"witness": string|null, "witness_bytes": [..], "states": n, "captures": {...}}
//   witness = a shortest string matched (whole-string: patterns carry their own ^..$) by every
//   pattern of `pos` and NOT matched by at least one pattern of `neg` (by none needed if `neg` is
//   empty).  null = no such string exists.
//
//   subset(A, B)   <=>  witness(pos=A, neg=B) == null
//   disjoint(A, B) <=>  witness(pos=A+B, neg=[]) == null
//
// {"op":"groups","pattern":p}: capture group count and the sub-pattern text of each group.
use regex_automata::{
    dfa::{dense, Automaton, StartKind},
    util::{start, syntax},
    Anchored,
};
use std::collections::{HashMap, VecDeque};
use std::io::Read;

type Dfa = dense::DFA<Vec<u32>>;

fn build(p: &str) -> Result<Dfa, String> {
    dense::Builder::new()
        .configure(
            dense::Config::new()
                .start_kind(StartKind::Anchored)
                .minimize(true)
                .dfa_size_limit(Some(1 << 28))
                .determinize_size_limit(Some(1 << 28)),
        )
        .syntax(syntax::Config::new().unicode(true).utf8(true))
        .build(p)
        .map_err(|e| format!("cannot compile {:?}: {}", p, e))
}

fn groups(p: &str) -> serde_json::Value {
    use regex_syntax::ast::{parse::Parser, Ast};
    let ast = Parser::new().parse(p);
    let mut out = Vec::new();
    fn walk(a: &Ast, src: &str, out: &mut Vec<serde_json::Value>) {
        match a {
            Ast::Group(g) => {
                if g.capture_index().is_some() {
                    let sp = g.ast.span();
                    out.push(serde_json::json!({
                        "index": g.capture_index().unwrap(),
                        "pattern": &src[sp.start.offset..sp.end.offset],
                    }));
                }
                walk(&g.ast, src, out);
            }
            Ast::Concat(c) => c.asts.iter().for_each(|x| walk(x, src, out)),
            Ast::Alternation(c) => c.asts.iter().for_each(|x| walk(x, src, out)),
            Ast::Repetition(r) => walk(&r.ast, src, out),
            _ => {}
        }
    }
    match ast {
        Ok(a) => {
            walk(&a, p, &mut out);
            serde_json::json!({"ok": true, "groups": out})
        }
        Err(e) => serde_json::json!({"ok": false, "error": e.to_string()}),
    }
}

fn main() {
    let mut s = String::new();
    std::io::stdin().read_to_string(&mut s).unwrap();
    let q: serde_json::Value = serde_json::from_str(&s).expect("bad query");
    if q.get("op").and_then(|o| o.as_str()) == Some("groups") {
        println!("{}", groups(q["pattern"].as_str().unwrap()));
        return;
    }
    let strs = |k: &str| -> Vec<String> {
        q.get(k)
            .and_then(|v| v.as_array())
            .map(|a| a.iter().map(|x| x.as_str().unwrap().to_string()).collect())
            .unwrap_or_default()
    };
    let pos = strs("pos");
    let neg = strs("neg");
    let max_states = q.get("max_states").and_then(|v| v.as_u64()).unwrap_or(5_000_000) as usize;
    let mut dfas: Vec<Dfa> = Vec::new();
    for p in pos.iter().chain(neg.iter()) {
        match build(p) {
            Ok(d) => dfas.push(d),
            Err(e) => {
                println!("{}", serde_json::json!({"error": e}));
                std::process::exit(2);
            }
        }
    }
    let np = pos.len();
    let n = dfas.len();
    let cfg = start::Config::new().anchored(Anchored::Yes);
    let init: Vec<_> = dfas.iter().map(|d| d.start_state(&cfg).expect("start state")).collect();
    let accept = |st: &Vec<regex_automata::util::primitives::StateID>| -> bool {
        let m: Vec<bool> = (0..n)
            .map(|i| {
                let e = dfas[i].next_eoi_state(st[i]);
                dfas[i].is_match_state(e)
            })
            .collect();
        let all_pos = m[..np].iter().all(|b| *b);
        let some_neg_fails = if n == np { true } else { m[np..].iter().any(|b| !*b) };
        all_pos && some_neg_fails
    };
    let mut seen: HashMap<Vec<regex_automata::util::primitives::StateID>, (usize, u8)> = HashMap::new();
    let mut order: Vec<Vec<regex_automata::util::primitives::StateID>> = Vec::new();
    let mut queue = VecDeque::new();
    seen.insert(init.clone(), (usize::MAX, 0));
    order.push(init.clone());
    queue.push_back(0usize);
    let mut found: Option<usize> = None;
    if accept(&init) {
        found = Some(0);
    }
    while found.is_none() {
        let Some(cur) = queue.pop_front() else { break };
        let st = order[cur].clone();
        for b in 0u16..=255 {
            let b = b as u8;
            let nx: Vec<_> = (0..n).map(|i| dfas[i].next_state(st[i], b)).collect();
            // prune: some positive automaton is dead
            if (0..np).any(|i| dfas[i].is_dead_state(nx[i])) {
                continue;
            }
            if seen.contains_key(&nx) {
                continue;
            }
            let id = order.len();
            seen.insert(nx.clone(), (cur, b));
            order.push(nx.clone());
            if accept(&nx) {
                found = Some(id);
                break;
            }
            queue.push_back(id);
            if order.len() > max_states {
                println!("{}", serde_json::json!({"error": "state limit exceeded", "states": order.len()}));
                std::process::exit(2);
            }
        }
    }
    match found {
        None => println!("{}", serde_json::json!({"witness": null, "states": order.len()})),
        Some(mut id) => {
            let mut bytes = Vec::new();
            while id != 0 {
                let (p, b) = seen[&order[id]];
                bytes.push(b);
                id = p;
            }
            bytes.reverse();
            println!(
                "{}",
                serde_json::json!({"witness": String::from_utf8_lossy(&bytes), "witness_bytes": bytes, "states": order.len()})
            );
        }
    }
}
