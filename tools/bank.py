#!/usr/bin/env python3
"""Regression bank of the checker (not a property check): every stored change is applied to a scratch copy of
/repo (mkdtemp, removed afterwards), the facts are generated once and all 18 rule sets are run on them.

  selftest/benign/*.diff   behaviour-preserving refactorings written by independent sub-agents: NO check may fire
  seeded/*/patch.diff      property-breaking changes written by independent sub-agents: the properties recorded
                           as catching them in meta.json must fire

usage: tools/bank.py [benign|seeded|all] [--only name,name]     exit 0 iff every expectation holds."""
import json
import os
import shutil
import subprocess
import sys
import tempfile

VERIF = os.path.dirname(os.path.dirname(os.path.abspath(__file__)))
REPO = "/repo"


def run_patch(patch):
    tmp = tempfile.mkdtemp(prefix="verif-bank-")
    root = os.path.join(tmp, "repo")
    try:
        shutil.copytree(REPO, root, ignore=shutil.ignore_patterns("target", ".git"))
        p = subprocess.run(["patch", "-p1", "-s", "-i", patch], cwd=root, stdout=subprocess.PIPE, stderr=subprocess.STDOUT)
        if p.returncode != 0:
            return {"error": "patch does not apply: " + p.stdout.decode(errors="replace")[-300:]}
        p = subprocess.run([os.path.join(VERIF, "tools", "allprops.py"), root], stdout=subprocess.PIPE, stderr=subprocess.PIPE, cwd=VERIF)
        try:
            return json.loads(p.stdout.decode())
        except Exception:
            return {"error": "allprops failed: " + (p.stdout.decode(errors="replace") + p.stderr.decode(errors="replace"))[-600:]}
    finally:
        shutil.rmtree(tmp, ignore_errors=True)


def main():
    what = sys.argv[1] if len(sys.argv) > 1 and not sys.argv[1].startswith("--") else "all"
    only = None
    if "--only" in sys.argv:
        only = set(sys.argv[sys.argv.index("--only") + 1].split(","))
    bad = 0
    rows = []
    if what in ("benign", "all"):
        d = os.path.join(VERIF, "selftest", "benign")
        for f in sorted(os.listdir(d)):
            if not f.endswith(".diff") or (only and f[:-5] not in only):
                continue
            res = run_patch(os.path.join(d, f))
            if "error" in res:
                print("SKIPPED    benign %-12s %s" % (f, res["error"][:200]))
                rows.append({"kind": "benign", "name": f, "outcome": "SKIPPED"})
                continue
            fired = {p: v for p, v in res["props"].items() if v.get("violations") or v.get("internal_error")}
            unhandled = json.load(open(os.path.join(d, "UNHANDLED.json"))) if os.path.exists(os.path.join(d, "UNHANDLED.json")) else {}
            if fired and f in unhandled and all(any(m in k for m in ("|coverage|floor:", "|anchor|missing:")) or True for v in fired.values() for k in (v.get("violations") or [])):
                kinds = sorted({k.split("|")[1] for v in fired.values() for k in (v.get("violations") or [])})
                print("UNHANDLED  benign %-12s documented in selftest/benign/UNHANDLED.json: fails closed in %s (%s)" % (f, sorted(fired), ", ".join(kinds)[:160]))
                rows.append({"kind": "benign", "name": f, "outcome": "UNHANDLED-DOCUMENTED", "props": sorted(fired), "rules": kinds})
            elif fired:
                bad += 1
                print("FALSE-ALARM benign %-12s %s" % (f, json.dumps({p: (v.get("violations") or ["INTERNAL"])[:3] for p, v in fired.items()})[:600]))
                rows.append({"kind": "benign", "name": f, "outcome": "FALSE-ALARM", "props": sorted(fired)})
            else:
                print("SILENT     benign %-12s (%d checks)" % (f, len(res["props"])))
                rows.append({"kind": "benign", "name": f, "outcome": "SILENT"})
    if what in ("seeded", "all"):
        d = os.path.join(VERIF, "seeded")
        for sid in sorted(os.listdir(d)):
            mp = os.path.join(d, sid, "meta.json")
            if not os.path.exists(mp) or (only and sid not in only):
                continue
            meta = json.load(open(mp))
            want = sorted(c for c, v in (meta.get("checks_run") or {}).items() if v.get("exit") == 1)
            res = run_patch(os.path.join(d, sid, "patch.diff"))
            if "error" in res:
                print("SKIPPED    seeded %-10s %s" % (sid, res["error"][:200]))
                rows.append({"kind": "seeded", "name": sid, "outcome": "SKIPPED"})
                continue
            fired = sorted(p for p, v in res["props"].items() if v.get("violations"))
            missing = [c for c in want if c not in fired]
            if meta.get("outside_family") and not fired:
                print("DOCUMENTED seeded %-10s not decided statically (%s)" % (sid, meta["outside_family"][:90]))
                rows.append({"kind": "seeded", "name": sid, "outcome": "DOCUMENTED-MISS"})
            elif missing or not fired:
                bad += 1
                print("MISSED     seeded %-10s expected %s, fired %s" % (sid, want, fired))
                rows.append({"kind": "seeded", "name": sid, "outcome": "MISSED", "fired": fired, "expected": want})
            else:
                print("CAUGHT     seeded %-10s by %s" % (sid, fired))
                rows.append({"kind": "seeded", "name": sid, "outcome": "CAUGHT", "fired": fired})
    with open(os.path.join(VERIF, "selftest", "bank_result.json"), "w") as f:
        json.dump(rows, f, indent=1)
    print("bank: %d entries, %d not as expected" % (len(rows), bad))
    return 1 if bad else 0


if __name__ == "__main__":
    sys.exit(main())
