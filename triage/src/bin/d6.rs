use crustabri::solvers::*;
use crustabri::dynamics::*;
use std::panic::{catch_unwind, AssertUnwindSafe};
fn labels(w: Option<Vec<&crustabri::aa::Argument<&'static str>>>) -> Option<Vec<&'static str>> { w.map(|v| v.iter().map(|a| *a.label()).collect()) }
fn main() {
    // stable, selector-based
    let mut s = DynamicStableSemanticsSolver::new();
    s.new_argument("a"); s.new_argument("b"); s.new_argument("a"); s.new_argument("c"); s.new_argument("d");
    s.new_attack(&"c", &"d").unwrap();
    let r = catch_unwind(AssertUnwindSafe(|| { let (st, w) = s.is_credulously_accepted_with_certificate(&"c"); (st, labels(w)) }));
    println!("stable/selectors dup: DC c -> {:?}   (expected true, cert = {{a,b,c}})", r.ok());
    let r = catch_unwind(AssertUnwindSafe(|| { let (st, w) = s.is_skeptically_accepted_with_certificate(&"d"); (st, labels(w)) }));
    println!("stable/selectors dup: DS d -> {:?}   (expected false, cert = {{a,b,c}})", r.ok());
    // complete, selector-based
    let mut s = DynamicCompleteSemanticsSolver::new();
    s.new_argument("a"); s.new_argument("b"); s.new_argument("a"); s.new_argument("c"); s.new_argument("d");
    s.new_attack(&"c", &"d").unwrap();
    let r = catch_unwind(AssertUnwindSafe(|| { let (st, w) = s.is_credulously_accepted_with_certificate(&"c"); (st, labels(w)) }));
    println!("complete/selectors dup: DC c -> {:?}", r.ok());
    let r = catch_unwind(AssertUnwindSafe(|| { let (st, w) = s.is_credulously_accepted_with_certificate(&"d"); (st, labels(w)) }));
    println!("complete/selectors dup: DC d -> {:?} (expected false)", r.ok());
    // stable, attacks
    let mut s = crustabri::dynamics::assumptions_on_attacks::DynamicStableSemanticsSolverAttacks::new();
    s.new_argument("a"); s.new_argument("b");
    let _ = s.is_credulously_accepted(&"a");
    s.new_argument("a"); s.new_argument("c"); 
    s.new_attack(&"b", &"c").unwrap();
    let r = catch_unwind(AssertUnwindSafe(|| { let (st, w) = s.is_credulously_accepted_with_certificate(&"b"); (st, labels(w)) }));
    println!("stable/attacks dup: DC b -> {:?} (expected true, cert {{a,b}})", r.ok());
    let r = catch_unwind(AssertUnwindSafe(|| { let (st, w) = s.is_credulously_accepted_with_certificate(&"c"); (st, labels(w)) }));
    println!("stable/attacks dup: DC c -> {:?} (expected false)", r.ok());
    // preferred
    let mut s = DynamicPreferredSemanticsSolver::new();
    s.new_argument("a"); s.new_argument("b"); s.new_argument("a"); s.new_argument("c"); s.new_argument("d");
    s.new_attack(&"c", &"d").unwrap();
    let r = catch_unwind(AssertUnwindSafe(|| { let (st, w) = s.is_skeptically_accepted_with_certificate(&"d"); (st, labels(w)) }));
    println!("preferred dup: DS d -> {:?} (expected false, cert {{a,b,c}})", r.ok());
    let r = catch_unwind(AssertUnwindSafe(|| { let (st, w) = s.is_skeptically_accepted_with_certificate(&"c"); (st, labels(w)) }));
    println!("preferred dup: DS c -> {:?} (expected true)", r.ok());
}
