use crustabri::aa::{AAFramework, ArgumentSet};
use crustabri::io::{AspartixReader, InstanceReader};
use crustabri::solvers::*;
use crustabri::dynamics::*;
use crustabri::sat::{ExternalSatSolver, SatSolver, Literal};
use std::panic::{catch_unwind, AssertUnwindSafe};

fn af(args: &[&'static str], atts: &[(&'static str, &'static str)]) -> AAFramework<&'static str> {
    let mut af = AAFramework::new_with_argument_set(ArgumentSet::new_with_labels(args));
    for (a, b) in atts { af.new_attack(a, b).unwrap(); }
    af
}

fn main() {
    let which = std::env::args().nth(1).unwrap();
    match which.as_str() {
        "D4" => {
            let f = af(&["a", "b"], &[("a", "b"), ("b", "a")]);
            let mut s = CompleteSemanticsSolver::new(&f);
            let plain = s.are_credulously_accepted(&[&"a", &"b"]);
            let (cert, w) = s.are_credulously_accepted_with_certificate(&[&"a", &"b"]);
            println!("D4 plain={} with_cert={} cert={:?}", plain, cert, w.map(|v| v.iter().map(|a| *a.label()).collect::<Vec<_>>()));
        }
        "D5" => {
            let f = af(&["a", "y", "x"], &[("y", "x")]);
            let mut s = StableSemanticsSolver::new(&f);
            println!("D5 DC-ST [a,x] = {} (a alone: {}, x alone: {})", s.are_credulously_accepted(&[&"a", &"x"]), s.is_credulously_accepted(&"a"), s.is_credulously_accepted(&"x"));
            let mut s = StableSemanticsSolver::new(&f);
            println!("D5 DS-ST [a,x] = {}", s.are_skeptically_accepted(&[&"a", &"x"]));
        }
        "D6" => {
            let mut s = DynamicStableSemanticsSolver::new();
            s.new_argument("a"); s.new_argument("b"); s.new_argument("a"); s.new_argument("c");
            s.new_attack(&"a", &"c").unwrap();
            let r = catch_unwind(AssertUnwindSafe(|| (s.is_credulously_accepted(&"c"), s.is_credulously_accepted(&"a"), s.is_credulously_accepted(&"b"))));
            println!("D6 stable dyn after duplicate new_argument: (DC c, DC a, DC b) = {:?} (expected (false,true,true))", r.ok());
            let mut s = DynamicCompleteSemanticsSolver::new();
            s.new_argument("a"); s.new_argument("b"); s.new_argument("a"); s.new_argument("c");
            s.new_attack(&"a", &"c").unwrap();
            let r = catch_unwind(AssertUnwindSafe(|| (s.is_credulously_accepted(&"c"), s.is_credulously_accepted(&"a"), s.is_credulously_accepted(&"b"))));
            println!("D6 complete dyn: {:?} (expected (false,true,true))", r.ok());
            let mut s = crustabri::dynamics::assumptions_on_attacks::DynamicStableSemanticsSolverAttacks::new();
            s.new_argument("a"); s.new_argument("b");
            let _ = s.is_credulously_accepted(&"a");
            s.new_argument("a"); s.new_argument("c");
            s.new_attack(&"a", &"c").unwrap();
            let r = catch_unwind(AssertUnwindSafe(|| (s.is_credulously_accepted(&"c"), s.is_credulously_accepted(&"a"), s.is_credulously_accepted(&"b"))));
            println!("D6 stable attacks dyn: {:?} (expected (false,true,true))", r.ok());
        }
        "D7" => {
            let mut s = DynamicStableSemanticsSolver::new();
            s.new_argument("a");
            let r1 = s.remove_argument(&"zz");
            let r2 = s.new_attack(&"a", &"zz");
            let r3 = s.remove_attack(&"a", &"a");
            println!("D7 results of invalid updates: {:?} {:?} {:?}", r1.is_ok(), r2.is_ok(), r3.is_ok());
            let q1 = catch_unwind(AssertUnwindSafe(|| s.is_credulously_accepted(&"a"))).is_ok();
            let q2 = catch_unwind(AssertUnwindSafe(|| s.is_credulously_accepted(&"a"))).is_ok();
            println!("D7 later queries succeed? {} {}", q1, q2);
        }
        "D8" => {
            let mut s = DynamicPreferredSemanticsSolver::new();
            s.new_argument("x");
            println!("D8 DS x = {}", s.is_skeptically_accepted(&"x"));
            s.new_argument("b"); s.new_argument("c");
            s.new_attack(&"b", &"c").unwrap(); s.new_attack(&"c", &"b").unwrap();
            println!("D8 DS b = {} (expected false), DS c = {} (expected false)", s.is_skeptically_accepted(&"b"), s.is_skeptically_accepted(&"c"));
            let mut fresh = DynamicPreferredSemanticsSolver::new();
            fresh.new_argument("x"); fresh.new_argument("b"); fresh.new_argument("c");
            fresh.new_attack(&"b", &"c").unwrap(); fresh.new_attack(&"c", &"b").unwrap();
            println!("D8 from scratch: DS b = {}", fresh.is_skeptically_accepted(&"b"));
        }
        "D9" => {
            for t in ["arg(a)x\n", "arg(a).\natt(a,a)!\n", "arg(a).\n"] {
                let r = AspartixReader::default().read(&mut t.as_bytes());
                println!("D9 {:?} -> {}", t, match r { Ok(f) => format!("accepted: {} args {} attacks", f.n_arguments(), f.n_attacks()), Err(e) => format!("rejected: {}", e) });
            }
        }
        "D3" => {
            let mut s = ExternalSatSolver::new("printf".to_string(), vec!["s SATISFIABLE\nv 1 2\n".to_string()]);
            s.add_clause(vec![Literal::from(1), Literal::from(2), Literal::from(3)]);
            println!("D3 truncated model -> {:?}", s.solve());
        }
        "D2" => {
            // external program that dumps its stdin to the file given by env D2_OUT and answers UNSAT
            let f = af(&["a", "b"], &[("a", "b")]);
            let mut s = StableSemanticsSolver::new_with_sat_solver_factory(&f, Box::new(|| Box::new(ExternalSatSolver::new("sh".to_string(), vec!["-c".to_string(), "cat >> $D2_OUT; echo '---' >> $D2_OUT; echo 's UNSATISFIABLE'".to_string()]))));
            println!("D2 DC-ST b = {}", s.is_credulously_accepted(&"b"));
        }
        "D1" => {
            let n: usize = std::env::args().nth(2).unwrap().parse().unwrap();
            let script = format!("cat > /dev/null; i=0; while [ $i -lt {} ]; do echo 'c xxxxxxxxxxxxxxxxxxxxxxxxxxxxxxxxxxxxxxxxxxxxxxxxxxxxxxxxxxxxxx'; i=$((i+1)); done; echo 's UNSATISFIABLE'", n);
            let mut s = ExternalSatSolver::new("sh".to_string(), vec!["-c".to_string(), script]);
            s.add_clause(vec![Literal::from(1)]);
            println!("D1 {} comment lines -> {:?}", n, s.solve());
        }
        "D10" => {
            // a<->b, b->c ... find case where cached certificate contains the refused label
            let mut s = DynamicPreferredSemanticsSolver::new();
            for l in ["a", "b", "c", "d"] { s.new_argument(l); }
            for (x, y) in [("a", "b"), ("b", "a"), ("c", "d"), ("d", "c")] { s.new_attack(&x, &y).unwrap(); }
            for q in ["a", "b", "c", "d"] {
                let (st, w) = s.is_skeptically_accepted_with_certificate(&q);
                let w = w.map(|v| v.iter().map(|a| *a.label()).collect::<Vec<_>>());
                let bad = w.as_ref().map(|v| v.contains(&q)).unwrap_or(false);
                println!("D10 DS {} = {} cert={:?} {}", q, st, w, if bad { "<-- certificate contains the refused argument" } else { "" });
            }
        }
        _ => {}
    }
}
