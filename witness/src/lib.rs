//! Compile-fail witnesses for the clauses that the type system itself enforces.
//! Every witness is paired with a `no_run` twin that differs only by the offending line, so a
//! witness whose paths are merely wrong cannot pass.  Nothing here is executed: `compile_fail`
//! and `no_run` examples are only type-checked (cargo +nightly test --doc).

/// W1 (C06): the framework cannot be modified while a static solver borrowing it is alive.
///
/// ```compile_fail,E0502
/// use crustabri::aa::{AAFramework, ArgumentSet};
/// use crustabri::solvers::{GroundedSemanticsSolver, SingleExtensionComputer};
/// let mut af = AAFramework::new_with_argument_set(ArgumentSet::new_with_labels(&["a"]));
/// let mut solver = GroundedSemanticsSolver::new(&af);
/// af.new_argument("b"); // mutable borrow while `solver` holds `&af`
/// solver.compute_one_extension();
/// ```
///
/// Twin (must compile):
///
/// ```no_run
/// use crustabri::aa::{AAFramework, ArgumentSet};
/// use crustabri::solvers::{GroundedSemanticsSolver, SingleExtensionComputer};
/// let mut af = AAFramework::new_with_argument_set(ArgumentSet::new_with_labels(&["a"]));
/// let mut solver = GroundedSemanticsSolver::new(&af);
/// solver.compute_one_extension();
/// af.new_argument("b");
/// ```
pub struct W1;

/// W1b (C06): the same for a SAT-based solver and an attack removal.
///
/// ```compile_fail,E0502
/// use crustabri::aa::{AAFramework, ArgumentSet};
/// use crustabri::solvers::{CredulousAcceptanceComputer, StableSemanticsSolver};
/// let mut af = AAFramework::new_with_argument_set(ArgumentSet::new_with_labels(&["a", "b"]));
/// af.new_attack(&"a", &"b").unwrap();
/// let mut solver = StableSemanticsSolver::new(&af);
/// af.remove_attack(&"a", &"b").unwrap(); // mutable borrow while `solver` holds `&af`
/// solver.are_credulously_accepted(&[&"a"]);
/// ```
///
/// ```no_run
/// use crustabri::aa::{AAFramework, ArgumentSet};
/// use crustabri::solvers::{CredulousAcceptanceComputer, StableSemanticsSolver};
/// let mut af = AAFramework::new_with_argument_set(ArgumentSet::new_with_labels(&["a", "b"]));
/// af.new_attack(&"a", &"b").unwrap();
/// let mut solver = StableSemanticsSolver::new(&af);
/// solver.are_credulously_accepted(&[&"a"]);
/// af.remove_attack(&"a", &"b").unwrap();
/// ```
pub struct W1b;

/// W2 (C12): argument ids cannot be forged - `Label::new` is not callable from outside the crate.
///
/// ```compile_fail,E0624
/// use crustabri::utils::Label;
/// let l: Label<&str> = Label::new(7, "a");
/// let _ = l.id();
/// ```
///
/// Twin (must compile): labels are only obtained from a set.
///
/// ```no_run
/// use crustabri::aa::ArgumentSet;
/// let args = ArgumentSet::new_with_labels(&["a"]);
/// let l = args.get_argument(&"a").unwrap();
/// let _ = l.id();
/// ```
pub struct W2;

/// W2b (C12): an argument's id and label cannot be assigned through a shared or owned `Label`.
///
/// ```compile_fail,E0616
/// use crustabri::aa::ArgumentSet;
/// let args = ArgumentSet::new_with_labels(&["a"]);
/// let l = args.get_argument(&"a").unwrap().clone();
/// let mut l = l;
/// l.id = 3; // private field
/// ```
///
/// ```no_run
/// use crustabri::aa::ArgumentSet;
/// let args = ArgumentSet::new_with_labels(&["a"]);
/// let l = args.get_argument(&"a").unwrap().clone();
/// let _ = l.id();
/// ```
pub struct W2b;

/// W3 (C01/C04): answers are references into the caller's framework (held through the solver) -
/// they cannot outlive it, so they cannot be copies owned by the solver or by a component.
///
/// ```compile_fail,E0597
/// use crustabri::aa::{AAFramework, ArgumentSet};
/// use crustabri::solvers::{GroundedSemanticsSolver, SingleExtensionComputer};
/// let ext = {
///     let af = AAFramework::new_with_argument_set(ArgumentSet::new_with_labels(&["a"]));
///     let mut solver = GroundedSemanticsSolver::new(&af);
///     solver.compute_one_extension().unwrap()
/// }; // `af` and `solver` dropped here while `ext` still refers to the arguments
/// let _ = ext.len();
/// ```
///
/// ```no_run
/// use crustabri::aa::{AAFramework, ArgumentSet};
/// use crustabri::solvers::{GroundedSemanticsSolver, SingleExtensionComputer};
/// let af = AAFramework::new_with_argument_set(ArgumentSet::new_with_labels(&["a"]));
/// let mut solver = GroundedSemanticsSolver::new(&af);
/// let ext = solver.compute_one_extension().unwrap();
/// let _ = ext.len();
/// ```
pub struct W3;
