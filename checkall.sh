#!/bin/sh
# runs every check once (quick tier by default) and prints a one-line summary per property
T=${1:-quick}
cd "$(dirname "$0")"
for c in C01 C02 C03 C04 C05 C06 C07 C08 C09 C10 C11 C12 C13 C14 C15 C16 C17 C18 C19; do
  out=$(./check $c --tier $T 2>&1); code=$?
  echo "$c exit=$code $(echo "$out" | tail -1)"
done
