"""Rules on the framework store (AAFramework / ArgumentSet / LabelSet), shared by C12, C09, C14."""
import re

from ..core import (
    is_try_residual,
    Site,
    callee_of,
    callee_is,
    callee_name,
    callee_decl,
    callee_matches,
    strip_generics,
    op_place,
    op_const,
    origins,
    data_deps,
    place_fields,
    self_fields_read,
    switch_sites,
)
from ..flow import conditions, consumers, on_some_arm, on_none_arm
from ..census import field_uses, find_fields

LABEL = "utils::label::Label"
LABELSET = "utils::label::LabelSet"
AAF = "aa::aa_framework::AAFramework"
ARGSET = "aa::arguments::ArgumentSet"


def _muts(prog, owner, field):
    return [u for u in field_uses(prog, owner, field) if u.mut]


def _ops(uses):
    return sorted({u.op for u in uses})


def find_store_fields(prog):
    """role-based discovery of the store's fields"""
    out = {}
    f = find_fields(prog, r"^alloc::vec::Vec<core::option::Option<utils::label::Label<T>>>$")
    out["labels"] = f[0] if len(f) == 1 else None
    f = find_fields(prog, r"^std::collections::hash::map::HashMap<T, usize>$")
    out["map"] = f[0] if len(f) == 1 else None
    f = find_fields(prog, r"^alloc::vec::Vec<core::option::Option<\(usize, usize\)>>$")
    out["attacks"] = f[0] if len(f) == 1 else None
    return out


def attacks_wrapper(prog):
    """the private newtype wrapping the tombstoned attack entries (`struct AttackSlot(Option<(usize, usize)>)` held in a `Vec<AttackSlot>`),
    or None"""
    for p2, a2 in prog.adts.items():
        if str(a2.get("vis") or "pub") != "pub" and len(a2["variants"]) == 1 and len(a2["variants"][0]["fields"]) == 1 and a2["variants"][0]["fields"][0]["ty"].replace(" ", "") == "core::option::Option<(usize,usize)>":
            if find_fields(prog, r"^alloc::vec::Vec<%s>$" % re.escape(p2)):
                return p2
    return None


def labels_wrapper(prog, fields):
    """(wrapper type, holder type, holder field) when the label vector is the single field of a crate-private newtype held by the store
    (`struct Slots<T>(Vec<Option<Label<T>>>)` as the `labels` field of LabelSet); None otherwise"""
    if not fields.get("labels"):
        return None
    owner = fields["labels"][0]
    adt = prog.adt(owner)
    if not adt or str(adt.get("vis") or "pub") == "pub" or len(adt["variants"]) != 1 or len(adt["variants"][0]["fields"]) != 1:
        return None
    holders = [(p2, f2["name"]) for p2, a2 in prog.adts.items() for v2 in a2["variants"] for f2 in v2["fields"] if re.match(r"^%s(<.*>)?$" % re.escape(owner), f2["ty"].replace(" ", ""))]
    if len(holders) != 1:
        return None
    return (owner, holders[0][0], holders[0][1])


def _increment_sites(prog, owner, field):
    """store sites of a usize counter field with their increment (int or None)"""
    out = []
    for u in _muts(prog, owner, field):
        if u.op.startswith("init"):
            continue
        s = u.site
        n = s.node
        inc = None
        if s.si is not None and n["k"] == "assign" and n["rv"]["k"] == "use":
            for o in origins(s.body, n["rv"]["ops"][0], transparent=()):
                if o.kind == "binop" and o.data["op"] in ("Add", "AddWithOverflow"):
                    ks = [op_const(x) for x in o.data["ops"]]
                    for k in ks:
                        if k is not None and "int" in k:
                            inc = k["int"]
        out.append((u, inc))
    return out


def _is_take_equivalent(u):
    """`mem::take(&mut v[i])` and `mem::replace(&mut v[i], None)` are Option::take under another name"""
    if u.op == "index_mut>core::mem::take":
        return True
    if u.op == "index_mut>core::mem::replace":
        b = u.site.body
        os_ = origins(b, u.site.node["args"][1], transparent=())
        return bool(os_) and all(o.kind == "agg" and o.data.get("variant") == "None" for o in os_)
    return False


def _is_pair_search(prog, body, o):
    """origin `o` (a call) is a search of an index list for a live attack equal to a given pair: `Iterator::position` /
    `Iterator::any` with a comparing closure, or a local helper of the store returning Option<usize> / bool that compares
    attack slots (`fn find_live_attack(from, to) -> Option<usize>`)"""
    if o.kind != "call":
        return False
    if callee_matches(o.data, r"iterator::Iterator::(position|any|find)$"):
        return True
    t = prog.body_for_callee(o.data, body) if o.data.get("decl") != "<indirect>" else None
    if t is not None and t.kind != "closure" and t.impl and t.impl.get("self_adt") == AAF and (t.ret_ty.startswith("core::option::Option<") or t.ret_ty == "bool"):
        for x in prog.with_closures(t):
            if any(callee_matches(callee_of(s), r"cmp::PartialEq::(eq|ne)$") for s in x.calls()):
                return True
    return False


def rule_label_ops(ctx):
    prog = ctx.prog
    r = ctx.rule(
        "labels-append-only",
        "the id-indexed label vector is only ever appended to (inside the closure of `entry(..).or_insert_with`, with id = its length "
        "at that moment) or tombstoned with Option::take; the label->id map only sees entry/or_insert_with/remove; Label::new has one call site",
    )
    fields = find_store_fields(prog)
    if not r.require_anchor(fields["labels"], "field of type Vec<Option<Label<T>>>"):
        return
    owner, fld, _ = fields["labels"]
    uses = _muts(prog, owner, fld)
    allowed = {"init", "alloc::vec::Vec::push", "alloc::vec::Vec::shrink_to_fit", "alloc::vec::Vec::reserve", "index_mut>core::option::Option::take"}
    for u in uses:
        r.check(u.op in allowed or _is_take_equivalent(u), "%s.%s|%s" % (owner, fld, u.fn.path), "op=" + u.op, "%s in %s" % (u.op, u.fn.path), "forbidden operation on the label vector: %s in %s (ids must be stable and never reused)" % (u.op, u.fn.path), u.site.loc())
    pushes = [u for u in uses if u.op == "alloc::vec::Vec::push"]
    r.floor(len(pushes), 1, "push sites on the label vector")
    lw = labels_wrapper(prog, fields)
    if lw:
        r.ok("%s.%s|push" % (owner, fld), "NOT decided: the label vector is the field of the private wrapper %s; the pairing of its pushes with the label->id map happens across the wrapper's methods, which this rule does not inline" % lw[0].rsplit("::", 1)[-1], pushes[0].site.loc() if pushes else None)
        return
    for u in pushes:
        b = u.site.body
        # inside a closure handed to Entry::or_insert_with
        in_entry = False
        if b.kind == "closure":
            fn = u.fn
            for s in fn.calls():
                c = callee_of(s)
                if callee_matches(c, r"hash::map::Entry::or_insert_with$") and b.path in c.get("fn_args", []):
                    # the entry comes from HashMap::entry on the map field
                    for o in origins(fn, s.node["args"][0], transparent=()):
                        if o.kind == "call" and callee_matches(o.data, r"hash::map::HashMap::entry$"):
                            in_entry = True
        if not in_entry:
            # `if let Entry::Vacant(e) = map.entry(label) { labels.push(..); e.insert(id) }`
            ent = None
            for pth, e in prog.ext_enums.items():
                if pth.endswith("collections::hash::map::Entry"):
                    ent = {str(v["discr"]): v["name"] for v in e["variants"]}
            for c in conditions(b, u.site.bb):
                if not c.is_discr or ent is None:
                    continue
                if any(o.kind == "call" and callee_matches(o.data, r"hash::map::HashMap::entry$") for o in origins(b, c.place, transparent=())):
                    vs = {ent.get(v, v) for v in c.values}
                    if c.negated:
                        vs = set(ent.values()) - vs
                    if vs == {"Vacant"}:
                        in_entry = True
        if not in_entry:
            # `if self.map.contains_key(&label) { return; }` before the push
            from ..prov import prov as _pv
            from .grounded import inherited_conditions as _ic, _cond_trees as _ct

            for c_, t_ in _ct(prog, _ic(prog, b, u.site.bb)):
                if c_[0] == "call" and re.search(r"hash::map::HashMap::contains_key$", c_[1]) and t_ is False and fields["map"] and any(l[0] == "param" and l[3] and l[3][-1] == fields["map"][1] for l in [c_[2][0]] if isinstance(l, tuple)):
                    in_entry = True
        r.check(in_entry, "%s.%s|push" % (owner, fld), "push-outside-entry", "label pushed only when the map entry is vacant (or_insert_with closure)", "a label is pushed outside `entry(..).or_insert_with`: inserting an existing label would create a second id", u.site.loc())
        # pushed value = Some(Label::new(len(labels), ..))
        ok_id = False
        for o in origins(b, u.site.node["args"][1], transparent=()):
            if o.kind == "agg" and o.data.get("variant") == "Some":
                for oo in origins(b, o.site.node["rv"]["ops"][0], transparent=()):
                    if oo.kind == "call" and callee_is(oo.data, LABEL + "::new"):
                        _, calls, _ = data_deps(b, oo.site.node["args"][0])
                        if any(callee_matches(callee_of(cs), r"^alloc::vec::Vec::len$") for cs in calls):
                            ok_id = True
                        # ... or through a private getter of the store that returns that length
                        from ..prov import prov as _pv2, inlining as _inl2
                        from .grounded import _is_call as _isc

                        with _inl2():
                            for e_ in _pv2(prog, b, oo.site.node["args"][0]):
                                if _isc(e_, r"Vec::len$", 1) and e_[2][0][0] == "param" and e_[2][0][3] and e_[2][0][3][-1] == fld:
                                    ok_id = True
        r.check(ok_id, "%s.%s|push" % (owner, fld), "id-not-len", "the new label's id is the vector length at insertion", "the id given to a new label is not the current length of the label vector", u.site.loc())
    # Label::new call sites and Label aggregates
    new_sites = [(b, s) for b in prog.lib_bodies() for s in b.calls() if callee_is(callee_of(s), LABEL + "::new")]
    r.check(len(new_sites) == 1, LABEL + "::new", "call-sites=%d" % len(new_sites), "Label::new has exactly one call site", "Label::new has %d call sites" % len(new_sites), new_sites[0][1].loc() if new_sites else None)
    aggs = []
    for b in prog.lib_bodies():
        for s in b.sites():
            n = s.node
            if s.si is not None and n["k"] == "assign" and n["rv"]["k"] == "aggregate" and n["rv"]["agg"].get("path") == LABEL:
                aggs.append((b, s))
    bad = [(b, s) for b, s in aggs if not (b.path.endswith("Label::<T>::new") or (b.trait_method or "").endswith("Clone::clone"))]
    r.check(not bad, LABEL, "built-in:%s" % sorted({b.path for b, _ in bad}), "Label values are built only by Label::new (and derived Clone)", "a Label is constructed outside Label::new in %s" % sorted({b.path for b, _ in bad}), bad[0][1].loc() if bad else None)
    sig = prog.sigs.get(("lib", LABEL + "::<T>::new"))
    r.check(sig is not None and sig["vis"] != "pub", LABEL + "::new", "vis=%s" % (sig and sig["vis"]), "Label::new is not public", loc=None)
    # setters: no store into Label.id anywhere
    idw = [u for u in field_uses(prog, LABEL, "id") if u.mut and u.op != "init"]
    r.check(not idw, LABEL + ".id", "written", "Label.id is never written after construction", loc=idw[0].site.loc() if idw else None)
    # map
    if r.require_anchor(fields["map"], "field of type HashMap<T, usize>"):
        mo, mf, _ = fields["map"]
        allowed_m = {"init", "std::collections::hash::map::HashMap::entry", "std::collections::hash::map::HashMap::remove", "std::collections::hash::map::HashMap::shrink_to_fit", "std::collections::hash::map::HashMap::reserve"}
        for u in _muts(prog, mo, mf):
            if u.op == "std::collections::hash::map::HashMap::insert":
                # the non-entry form of insertion: only after `contains_key` said no, next to the push of the label
                from .grounded import inherited_conditions as _ic2, _cond_trees as _ct2

                guarded = any(c_[0] == "call" and re.search(r"hash::map::HashMap::contains_key$", c_[1]) and t_ is False for c_, t_ in _ct2(prog, _ic2(prog, u.site.body, u.site.bb)))
                paired = any(p_.site.body is u.site.body and (u.site.body.dominates(p_.site, u.site) or u.site.body.dominates(u.site, p_.site)) for p_ in pushes)
                r.check(guarded and paired, "%s.%s|%s" % (mo, mf, u.fn.path), "op=" + u.op, "insert of a label the map does not hold yet, next to the push of its slot", "the label map is written by `insert` %s" % ("without a `contains_key` test: an existing label gets a second id" if not guarded else "away from the push of the label's slot"), u.site.loc())
                continue
            r.check(u.op in allowed_m, "%s.%s|%s" % (mo, mf, u.fn.path), "op=" + u.op, "%s in %s" % (u.op, u.fn.path), "forbidden operation on the label map: %s" % u.op, u.site.loc())


def _on_success_of_map_remove(b, bb):
    """block bb runs only when `map.remove(k)` returned Some: on the Some arm of a match on it, or after
    `map.remove(k).ok_or_else(..)?` / `.ok_or(..)?` (the Continue arm of the `?`)"""
    for c in conditions(b, bb):
        if not c.is_discr:
            continue
        for o in origins(b, c.place, transparent=()):
            if o.kind != "call":
                continue
            if callee_matches(o.data, r"hash::map::HashMap::remove$") and on_some_arm(c):
                return True
            if callee_decl(o.data) == "core::ops::try_trait::Try::branch" and on_none_arm(c):  # ControlFlow::Continue has index 0
                _, calls, _ = data_deps(b, o.site.node["args"][0])
                if any(callee_matches(callee_of(x), r"hash::map::HashMap::remove$") for x in calls) and any(callee_decl(callee_of(x)) in ("core::option::Option::ok_or_else", "core::option::Option::ok_or") for x in calls):
                    return True
    return False


def rule_removed_counter(ctx):
    prog = ctx.prog
    r = ctx.rule(
        "removed-counter",
        "the removed-labels counter is incremented by 1 exactly where the map's `remove` returned Some, and the live count is `labels.len() - counter`",
    )
    fields = find_store_fields(prog)
    if not r.require_anchor(fields["labels"], "label vector field"):
        return
    owner = fields["labels"][0]
    lw = labels_wrapper(prog, fields)
    if lw:
        r.ok(lw[1], "NOT decided: the label vector is the field of the private wrapper %s; the tombstoning and the counter are in different types, which this rule does not follow" % lw[0].rsplit("::", 1)[-1])
        return
    adt = prog.adt(owner)
    counters = [f["name"] for v in adt["variants"] for f in v["fields"] if f["ty"] == "usize"]
    if not r.require_anchor(len(counters) == 1, "single usize counter field in %s" % owner):
        return
    cnt = counters[0]
    incs = _increment_sites(prog, owner, cnt)
    r.check(len(incs) == 1 and incs[0][1] == 1, owner + "." + cnt, "increments=%s" % [i for _, i in incs], "one `+= 1` site", "the removed-labels counter has %d update sites (increments %s)" % (len(incs), [i for _, i in incs]), incs[0][0].site.loc() if incs else None)
    for u, inc in incs:
        b = u.site.body
        guarded = _on_success_of_map_remove(b, u.site.bb)
        if not guarded and b.kind != "closure" and not any(c.is_discr for c in conditions(b, u.site.bb)):
            # a private helper (`tombstone_slot`) that runs on every call: judge its call sites
            css = prog.callers_of(b)
            okc = bool(css)
            for cs in css:
                okc = okc and _on_success_of_map_remove(cs.body, cs.bb)
            sigp = prog.sigs.get(("lib", b.path))
            guarded = okc and sigp is not None and sigp["vis"] != "pub"
        r.check(guarded, owner + "." + cnt, "unguarded-increment", "increment is on the Some arm of map.remove", "the removed-labels counter is incremented on a path where nothing was removed", u.site.loc())
        # the same arm tombstones the slot
        takes = [x for x in _muts(prog, owner, fields["labels"][1]) if x.op.endswith("Option::take") and x.site.body is b]
        r.check(len(takes) == 1 and (b.dominates(u.site, takes[0].site) or b.dominates(takes[0].site, u.site)), owner + "." + cnt, "take-pairing", "the increment is paired with one Option::take of the slot", loc=u.site.loc())
    # len() = labels.len() - counter
    lenb = prog.lib(owner + "::<T>::len")
    if r.require_anchor(lenb, owner + "::len"):
        ok = False
        for o in origins(lenb, {"l": 0, "p": []}, transparent=()):
            if o.kind == "binop" and o.data["op"] in ("Sub", "SubWithOverflow"):
                a, b2 = o.data["ops"]
                _, ca, _ = data_deps(lenb, a)
                if any(callee_matches(callee_of(c), r"^alloc::vec::Vec::len$") for c in ca) and fields["labels"][1] in self_fields_read(lenb, a) and self_fields_read(lenb, b2) == {cnt}:
                    ok = True
        if not ok:
            from ..prov import prov as _pv3, inlining as _inl3
            from .splits import linear as _lin3
            from .grounded import _is_call as _isc3

            with _inl3():
                vals = [_lin3(e_, lambda t: "L" if (_isc3(t, r"Vec::len$", 1) and t[2][0][0] == "param" and t[2][0][3] and t[2][0][3][-1] == fields["labels"][1]) else ("R" if (t[0] == "param" and t[2] == 1 and t[3] == (cnt,)) else None)) for e_ in _pv3(prog, lenb, {"l": 0, "p": []})]
            ok = bool(vals) and all(v == {"L": 1, "R": -1} for v in vals)
        r.check(ok, owner + "::len", "shape", "len() = labels.len() - removed", "len() is not `labels.len() - removed counter`", lenb.loc())


def rule_attack_ops(ctx):
    prog = ctx.prog
    r = ctx.rule(
        "attacks-append-only",
        "the attack vector is only appended to or tombstoned (Option::take / `= None`); every tombstoning is paired with exactly one "
        "increment of the removed-attacks counter that is conditional on the slot having been Some",
    )
    fields = find_store_fields(prog)
    if not fields["attacks"] and attacks_wrapper(prog):
        r.ok("attacks", "NOT decided: the tombstoned attack entries are wrapped in the private type %s, whose methods this rule does not inline" % attacks_wrapper(prog).rsplit("::", 1)[-1])
        return
    if not r.require_anchor(fields["attacks"], "field of type Vec<Option<(usize, usize)>>"):
        return
    owner, fld, _ = fields["attacks"]
    uses = _muts(prog, owner, fld)
    allowed = {"init", "alloc::vec::Vec::push", "alloc::vec::Vec::shrink_to_fit", "alloc::vec::Vec::reserve", "index_mut>core::option::Option::take", "index_mut>store-through:None"}
    for u in uses:
        r.check(u.op in allowed, "%s.%s|%s" % (owner, fld, u.fn.path), "op=" + u.op, "%s in %s" % (u.op, u.fn.path), "forbidden operation on the attack vector: %s in %s" % (u.op, u.fn.path), u.site.loc())
    tomb = [u for u in uses if u.op in ("index_mut>core::option::Option::take", "index_mut>store-through:None")]
    adt = prog.adt(owner)
    counters = [f["name"] for v in adt["variants"] for f in v["fields"] if f["ty"] == "usize"]
    if not r.require_anchor(len(counters) == 1, "single usize counter field in %s" % owner):
        return
    cnt = counters[0]
    incs = _increment_sites(prog, owner, cnt)
    r.check(len(incs) == len(tomb) and all(i == 1 for _, i in incs), owner + "." + cnt, "increments=%d tombstonings=%d" % (len(incs), len(tomb)), "%d tombstoning sites, %d `+= 1` sites" % (len(tomb), len(incs)), "tombstoning sites (%d) and counter increments (%d) do not pair up" % (len(tomb), len(incs)), None)
    r.floor(len(tomb), 1, "tombstoning sites on the attack vector")
    used = set()
    for t in tomb:
        b = t.site.body
        cands = [(u, i) for u, i in incs if u.site.body is b and id(u) not in used]
        paired = None
        for u, i in cands:
            if t.op.endswith("Option::take"):
                # increment guarded by is_some(take result), or on the Some arm of a match / `if let` on it
                for c in conditions(b, u.site.bb):
                    if c.is_discr and on_some_arm(c):
                        if any(o.kind == "call" and o.site is not None and o.site.bb == t.site.bb for o in origins(b, c.place, transparent=())):
                            paired = u
                    if c.is_true():
                        for o in origins(b, c.place, transparent=()):
                            if o.kind == "call" and callee_matches(o.data, r"^core::option::Option::is_some$"):
                                # its argument derives from this take call
                                _, calls, _ = data_deps(b, o.site.node["args"][0])
                                if any(cs.bb == t.site.bb for cs in calls):
                                    paired = u
            else:
                # `= None` at an index found by a search for == Some(..): store and increment in the same arm
                if b.dominates(t.site, u.site) and not b.in_loop(u.site.bb):
                    searched = False
                    for c in conditions(b, t.site.bb):
                        if on_some_arm(c):
                            for o in origins(b, c.place, transparent=()):
                                if _is_pair_search(prog, b, o):
                                    searched = True
                    if searched and b.postdominates(u.site, t.site):
                        paired = u
                    # `if slot.is_none() { return }  slot = None;  counter += 1`: store and increment run only when the slot was Some
                    if paired is None and b.postdominates(u.site, t.site):
                        for c in conditions(b, t.site.bb):
                            if c.is_discr:
                                continue
                            for o in origins(b, c.place, transparent=()):
                                if o.kind == "call" and ((callee_matches(o.data, r"^core::option::Option::is_none$") and c.is_false()) or (callee_matches(o.data, r"^core::option::Option::is_some$") and c.is_true())):
                                    if fld in self_fields_read(b, o.site.node["args"][0], through_calls=False) | self_fields_read(b, o.site.node["args"][0]):
                                        paired = u
        if paired is not None:
            used.add(id(paired))
        r.check(paired is not None, "%s.%s|%s" % (owner, fld, t.fn.path), "unpaired:" + t.op, "tombstoning in %s paired with a guarded counter increment" % t.fn.path, "tombstoning of an attack in %s is not paired with an increment conditional on the slot having been Some (a self-attack is in both index lists: double count)" % t.fn.path, t.site.loc())
    # n_attacks = attacks.len() - counter
    nb = prog.lib(owner + "::<T>::n_attacks")
    if r.require_anchor(nb, owner + "::n_attacks"):
        ok = False
        for o in origins(nb, {"l": 0, "p": []}, transparent=()):
            if o.kind == "binop" and o.data["op"] in ("Sub", "SubWithOverflow"):
                a, b2 = o.data["ops"]
                _, ca, _ = data_deps(nb, a)
                if any(callee_matches(callee_of(c), r"^alloc::vec::Vec::len$") for c in ca) and fld in self_fields_read(nb, a) and self_fields_read(nb, b2) == {cnt}:
                    ok = True
        r.check(ok, owner + "::n_attacks", "shape", "n_attacks() = attacks.len() - removed", loc=nb.loc())


def _local_roots(b, op, limit=8):
    """named / single-definition locals an operand is a plain copy or borrow of"""
    out = set()
    p = op_place(op)
    work = [p["l"]] if p is not None else []
    seen = set()
    while work and len(seen) < 40:
        l = work.pop()
        if l in seen:
            continue
        seen.add(l)
        out.add(l)
        for d in b.defs.get(l, []):
            if d.si is None or d.node["k"] != "assign":
                continue
            rv = d.node["rv"]
            if rv["k"] in ("use", "cast"):
                q = op_place(rv["ops"][0])
                if q is not None and (not q["p"] or q["p"] == ["*"]):
                    work.append(q["l"])
            elif rv["k"] == "ref" and (not rv["place"]["p"] or rv["place"]["p"] == ["*"]):
                work.append(rv["place"]["l"])
    return out


def rule_index_pairing(ctx):
    prog = ctx.prog
    r = ctx.rule(
        "index-pairing",
        "every push on the attack vector is followed on the same path by a push of `attacks.len() - 1` on the attacker's from-list and "
        "the attacked's to-list; the per-argument index vectors grow only when the argument count grew",
    )
    fields = find_store_fields(prog)
    if not fields["attacks"] and attacks_wrapper(prog):
        r.ok("attacks", "NOT decided: the tombstoned attack entries are wrapped in the private type %s, whose methods this rule does not inline" % attacks_wrapper(prog).rsplit("::", 1)[-1])
        return
    if not r.require_anchor(fields["attacks"], "attack vector field"):
        return
    owner, fld, _ = fields["attacks"]
    adt = prog.adt(owner)
    idx_fields = [f["name"] for v in adt["variants"] for f in v["fields"] if f["ty"] == "alloc::vec::Vec<alloc::vec::Vec<usize>>"]
    if not r.require_anchor(len(idx_fields) == 2, "two Vec<Vec<usize>> index fields in %s" % owner):
        return
    pushes = [u for u in _muts(prog, owner, fld) if u.op == "alloc::vec::Vec::push"]
    r.floor(len(pushes), 1, "push sites on the attack vector")
    for u in pushes:
        b = u.site.body
        for f in idx_fields:
            ip = [x for x in _muts(prog, owner, f) if x.op == "index_mut>alloc::vec::Vec::push" and x.site.body is b and b.dominates(u.site, x.site) and b.postdominates(x.site, u.site)]
            ok = False
            for x in ip:
                # pushed value = len(attacks) - 1 (read after the push), or len(attacks) read before the push
                for o in origins(b, x.site.node["args"][1], transparent=()):
                    if o.kind == "binop" and o.data["op"] in ("Sub", "SubWithOverflow"):
                        k = op_const(o.data["ops"][1])
                        _, calls, _ = data_deps(b, o.data["ops"][0])
                        if k is not None and k.get("int") == 1 and any(callee_matches(callee_of(c), r"^alloc::vec::Vec::len$") and b.dominates(u.site, c) for c in calls):
                            ok = True
                    elif o.kind == "call" and callee_matches(o.data, r"^alloc::vec::Vec::len$") and fld in self_fields_read(b, o.site.node["args"][0]) and b.dominates(o.site, u.site):
                        ok = True
            r.check(ok, "%s|%s|%s" % (owner, u.fn.path, f), "missing-index-push", "attack push in %s is followed by a push of len-1 on %s" % (u.fn.path, f), "the attack pushed in %s is not recorded in index list %s on the same path" % (u.fn.path, f), u.site.loc())
    # growth of the index vectors
    for f in idx_fields:
        grows = [x for x in _muts(prog, owner, f) if x.op == "alloc::vec::Vec::push"]
        r.floor(len(grows), 1, "growth sites of index vector %s" % f)
        for x in grows:
            b = x.site.body
            guarded = False
            for c in conditions(b, x.site.bb):
                for o in origins(b, c.place, transparent=()):
                    if o.kind == "binop" and o.data["op"] in ("Gt", "Lt", "Ne", "Ge", "Le"):
                        _, calls, _ = data_deps(b, c.place)
                        if sum(1 for cs in calls if callee_matches(callee_of(cs), r"ArgumentSet::len$|LabelSet::len$|n_arguments$")) >= 2:
                            guarded = True
                    # `if self.arguments.get_argument(&label).is_ok() { return }` before the insertion: grows only for a new label
                    if o.kind == "call" and not c.is_discr:
                        d0 = callee_decl(o.data)
                        absent = (d0 in ("core::result::Result::is_ok", "core::option::Option::is_some") and c.is_false()) or (d0 in ("core::result::Result::is_err", "core::option::Option::is_none") and c.is_true())
                        if absent:
                            _, calls, _ = data_deps(b, o.site.node["args"][0])
                            if any(callee_matches(callee_of(cs), r"ArgumentSet::get_argument$|LabelSet::get_label$|HashMap::get$|HashMap::contains_key$") for cs in calls):
                                guarded = True
                    if o.kind == "call" and not c.is_discr and callee_matches(o.data, r"HashMap::contains_key$|ArgumentSet::has_argument$|LabelSet::has_label$") and c.is_false():
                        guarded = True
            r.check(guarded, "%s.%s|%s" % (owner, f, x.fn.path), "unguarded-growth", "index vector %s grows only when the argument count grew" % f, "index vector %s grows even when the inserted label already existed" % f, x.site.loc())
    # per-argument lists of a removed argument are reset; other mutations are push / swap_remove
    allowed = {"init", "alloc::vec::Vec::push", "index_mut>alloc::vec::Vec::push", "index_mut>alloc::vec::Vec::swap_remove", "index_mut>alloc::vec::Vec::remove", "index_mut>store-through", "index_mut>alloc::vec::Vec::retain", "index_mut>core::mem::take", "index_mut>core::mem::replace", "index_mut>alloc::vec::Vec::clear"}
    for f in idx_fields:
        for x in _muts(prog, owner, f):
            r.check(x.op in allowed, "%s.%s|%s" % (owner, f, x.fn.path), "op=" + x.op, "%s in %s" % (x.op, x.fn.path), "unexpected operation on index vector %s: %s" % (f, x.op), x.site.loc())
    # an entry is removed from a per-argument list at the position where it was *found in that list*
    n_rm = 0
    for f in idx_fields:
        for x in _muts(prog, owner, f):
            if x.op not in ("index_mut>alloc::vec::Vec::swap_remove", "index_mut>alloc::vec::Vec::remove"):
                continue
            b = x.site.body
            if len(x.site.node.get("args") or []) < 2:
                continue
            n_rm += 1
            anchor = "%s.%s|%s|remove-position" % (owner, f, x.fn.path)
            poss = []
            for o in origins(b, x.site.node["args"][1], transparent=("core::option::Option::unwrap", "core::option::Option::expect")):
                if o.kind == "call" and callee_decl(callee_of(o.site)) == "core::iter::traits::iterator::Iterator::position":
                    poss.append(o.site)
                elif o.kind == "agg" and o.data.get("variant") == "Some":
                    continue
                elif o.kind == "call" and callee_decl(callee_of(o.site)) in ("core::iter::traits::iterator::Iterator::next",):
                    continue
            if not poss:
                # the position may come out of a `match list.iter().position(..) { Some(p) => .. }`
                seen, calls, _ = data_deps(b, x.site.node["args"][1])
                poss = [c for c in calls if callee_decl(callee_of(c)) == "core::iter::traits::iterator::Iterator::position"]
            if not poss:
                r.ok(anchor, "position not obtained by Iterator::position: NOT decided", x.site.loc())
                continue
            searched = set()
            for ps in poss:
                for o in origins(b, ps.node["args"][0], transparent=("core::slice::iter", "core::iter::traits::collect::IntoIterator::into_iter", "core::ops::deref::Deref::deref", "core::ops::index::Index::index", "core::ops::index::IndexMut::index_mut", "alloc::vec::Vec::as_slice", "core::iter::traits::iterator::Iterator::by_ref")):
                    if o.kind == "param" and o.data == 1 and o.fields and str(o.fields[0]) in idx_fields:
                        searched.add(str(o.fields[0]))
                    elif o.kind in ("undef", "partial"):
                        continue
                    else:
                        searched.add("?" + o.kind)
            if not searched or any(y.startswith("?") for y in searched):
                r.ok(anchor, "searched collection not resolved (%s): NOT decided" % sorted(searched), x.site.loc())
                continue
            r.check(searched == {f}, anchor, "searched=%s" % sorted(searched), "the removed slot of %s is the one found by a search of %s" % (f, f), "an entry of %s is removed at a position found by searching %s: the two lists hold an attack at unrelated positions, so another attack is dropped from %s (or the call panics)" % (f, sorted(searched), f), x.site.loc())
    # removal by value: `list.retain(|id| *id != x)` keeps everything but x, which must be the id of the attack tombstoned in the same function
    for f in idx_fields:
        for x in _muts(prog, owner, f):
            if x.op != "index_mut>alloc::vec::Vec::retain":
                continue
            b = x.site.body
            c = callee_of(x.site)
            clos = [prog.lib(fa) for fa in (c.get("fn_args") or [])] if c else []
            clos = [cl for cl in clos if cl is not None]
            if len(clos) != 1:
                continue
            cl = clos[0]
            kept_out = None  # capture field compared with the element
            for st in cl.sites():
                nd = st.node
                if st.si is not None and nd["k"] == "assign" and nd["rv"]["k"] == "binop" and nd["rv"]["op"] in ("Ne", "Eq"):
                    for o2 in nd["rv"]["ops"]:
                        for o in origins(cl, o2, transparent=()):
                            if o.kind == "upvar":
                                kept_out = o.data
            if kept_out is None:
                continue
            from ..tags import _closure_capture_operand

            par, cap = _closure_capture_operand(prog, cl, kept_out)
            if cap is None or par is not b:
                continue
            cap_roots = {o.data for o in origins(b, cap, transparent=()) if o.kind in ("param",)} | _local_roots(b, cap)
            tomb_roots = set()
            for s2 in b.calls():
                if callee_decl(callee_of(s2)) == "core::ops::index::IndexMut::index_mut" and fld in self_fields_read(b, s2.node["args"][0], through_calls=False):
                    # a store of None through the returned reference
                    dstl = s2.node["dst"]["l"]
                    stores_none = False
                    for st in b.sites():
                        nd = st.node
                        if st.si is None or nd["k"] != "assign" or nd["dst"]["l"] != dstl or nd["dst"]["p"] != ["*"]:
                            continue
                        if nd["rv"]["k"] == "aggregate" and nd["rv"]["agg"].get("variant") == "None":
                            stores_none = True
                        elif nd["rv"]["k"] == "use":
                            k0 = op_const(nd["rv"]["ops"][0])
                            if k0 is not None and str(k0.get("ty", "")).startswith("core::option::Option<"):
                                stores_none = True
                            for o in origins(b, nd["rv"]["ops"][0], transparent=()):
                                if o.kind == "agg" and o.data.get("variant") == "None":
                                    stores_none = True
                    if stores_none:
                        tomb_roots |= _local_roots(b, s2.node["args"][1])
            anchor = "%s.%s|%s|retain-value" % (owner, f, x.fn.path)
            if not tomb_roots:
                r.ok(anchor, "no attack is tombstoned in this function: NOT decided", x.site.loc())
                continue
            n_rm += 1
            r.check(bool(cap_roots & tomb_roots), anchor, "retain-by-other-value", "the entries removed from %s are those equal to the id of the tombstoned attack" % f, "`retain` removes from %s the entries equal to a value that is not the id of the attack tombstoned here: other attacks disappear from the per-argument list (or the removed one stays)" % f, x.site.loc())
    r.floor(n_rm, 2, "positional removals from the per-argument index lists")


# ------------------------------------------------------------------------------------------
# error-before-mutation


def _mutating_sites(prog, b):
    """sites of `b` (a &mut self method) that mutate self state: stores, &mut borrows of fields
    passed to calls (std or local)"""
    out = []
    for s in b.sites():
        n = s.node
        if s.si is not None and n["k"] == "assign":
            d = n["dst"]
            if d["l"] == 1 and place_fields(d):
                out.append((s, "store self.%s" % place_fields(d)[0], None))
            rv = n["rv"]
            if rv["k"] == "ref" and rv.get("mut") and rv["place"]["l"] == 1:
                f = place_fields(rv["place"])
                for c in consumers(b, d["l"], follow_refs=True):
                    if c.kind == "call":
                        # a pure accessor (`fn label_set_mut(&mut self) -> &mut LabelSet { &mut self.0 }`) mutates nothing:
                        # what happens to the reference it returns is what counts
                        t = prog.body_for_callee(c.info[0], b) if c.info[0] and c.info[0].get("decl") != "<indirect>" else None
                        if t is not None and t.kind != "closure" and not list(t.calls()) and t.ret_ty.startswith("&mut ") and all(st.node["k"] != "assign" or not (st.node["dst"]["p"]) for st in t.sites() if st.si is not None):
                            for c2 in consumers(b, c.site.node["dst"]["l"], follow_refs=True):
                                if c2.kind == "call":
                                    out.append((c2.site, "%s(&mut self%s via %s)" % (strip_generics((c2.info[0] or {}).get("decl", "?")), "." + str(f[0]) if f else "", t.path.rsplit("::", 1)[-1]), c2.info[0]))
                                elif c2.kind == "store":
                                    out.append((c2.site, "escaping &mut", None))
                            continue
                        out.append((c.site, "%s(&mut self%s)" % (strip_generics((c.info[0] or {}).get("decl", "?")), "." + str(f[0]) if f else ""), c.info[0]))
                    elif c.kind == "store":
                        info = c.info
                        if isinstance(info, tuple) and info[0] == "aggregate" and info[1].get("kind") == "closure":
                            out.append((c.site, "captured &mut self%s" % ("." + str(f[0]) if f else ""), {"closure": info[1].get("path")}))
                        else:
                            out.append((c.site, "escaping &mut", None))
                # stores through the borrow
                for s2 in b.sites():
                    n2 = s2.node
                    if s2.si is not None and n2["k"] == "assign" and n2["dst"]["l"] == d["l"] and n2["dst"]["p"] and n2["dst"]["p"][0] == "*":
                        out.append((s2, "store through &mut self%s" % ("." + str(f[0]) if f else ""), None))
    return out


def _err_exits(b):
    """sites producing an Err value that reaches the return place"""
    out = []
    for o in origins(b, {"l": 0, "p": []}, transparent=()):
        if o.kind == "agg" and o.data.get("path") == "core::result::Result" and o.data.get("variant") == "Err":
            out.append((o.site, "Err(..)", None))
        elif o.kind == "call" and is_try_residual(o.data):
            out.append((o.site, "?", o.site))
        elif o.kind == "call" and "core::result::Result<" in b.ret_ty:
            nm = strip_generics(callee_name(o.data) or "")
            out.append((o.site, "result of " + nm, o.site))
    return out


NON_MUTATING_ON_FAILURE = (
    "std::collections::hash::map::HashMap::remove",  # returns None <=> nothing removed
    "std::collections::hash::map::HashMap::get_mut",
)


def error_before_mutation_ok(prog, b, _stack=()):
    """list of (err site, mutation site, description) pairs violating error-before-mutation"""
    bad = []
    if b.id in _stack:
        return bad
    muts = _mutating_sites(prog, b)
    for es, ekind, via in _err_exits(b):
        for ms, what, callee in muts:
            if ms.bb == es.bb and (ms.si, es.si) == (None, None) and ms is es:
                continue
            before = b.dominates(ms, es) or b.reaches(ms.bb, es.bb)
            if ms.bb == es.bb:
                before = (ms.si if ms.si is not None else 1 << 30) < (es.si if es.si is not None else 1 << 30)
            if not before:
                continue
            # the mutation call is the fallible operation whose failure is being reported
            if callee is not None and "closure" not in callee:
                nm = strip_generics(callee.get("decl", ""))
                if nm in NON_MUTATING_ON_FAILURE:
                    # the error exit must be on the failure (None) arm of this call's result
                    on_none = False
                    for c in conditions(b, es.bb):
                        if on_none_arm(c):
                            for o in origins(b, c.place, transparent=()):
                                if o.kind == "call" and o.site.bb == ms.bb:
                                    on_none = True
                    if on_none:
                        continue
                    # `map.remove(k).ok_or_else(|| err)?`: the error is the None result of this very call turned into an Err
                    if es.si is None and es.node.get("args"):
                        _, ecalls, _ = data_deps(b, es.node["args"][0])
                        if any(cs.bb == ms.bb for cs in ecalls) and any(callee_decl(callee_of(cs)) in ("core::option::Option::ok_or_else", "core::option::Option::ok_or", "anyhow::Context::context", "anyhow::Context::with_context") for cs in ecalls):
                            continue
                tgt = prog.body_for_callee(callee, b)
                if tgt is not None and "core::result::Result<" in tgt.ret_ty:
                    # Err propagated from this very call (`?` on its result), and callee is itself safe
                    _, calls, _ = data_deps(b, es.node["args"][0]) if (es.si is None and es.node.get("args")) else (None, [], None)
                    if es.si is not None and es.node.get("k") == "assign" and es.node["rv"]["k"] == "aggregate" and es.node["rv"]["agg"].get("variant") == "Err" and es.node["rv"]["ops"]:
                        # `match call(..) { Ok(v) => v, Err(e) => return Err(e) }`: the long form of `?`
                        _, calls, _ = data_deps(b, es.node["rv"]["ops"][0])
                    if any(cs.bb == ms.bb for cs in calls) and not error_before_mutation_ok(prog, tgt, _stack + (b.id,)):
                        continue
            bad.append((es, ms, what))
    return bad


def rule_error_before_mutation(ctx):
    prog = ctx.prog
    r = ctx.rule(
        "error-before-mutation",
        "on every path to an Err return of a fallible mutator of the framework store no mutable use of the store has happened "
        "(a failing HashMap::remove / a propagated Err of a callee that is itself error-before-mutation does not count)",
    )
    n = 0
    for b in prog.lib_bodies():
        if b.kind == "closure" or not b.impl or b.impl.get("trait"):
            continue
        if b.impl.get("self_adt") not in (AAF, ARGSET, LABELSET):
            continue
        if "core::result::Result<" not in b.ret_ty or not b.local_ty(1).startswith("&mut "):
            continue
        n += 1
        bad = error_before_mutation_ok(prog, b)
        if bad:
            es, ms, what = bad[0]
            r.violation(b.id, "mutation-before-err:" + what, "%s: `%s` happens before an error return: a rejected update leaves the framework changed" % (b.path, what), ms.loc(), path="mutation at %s -> error exit at %s" % (ms.loc(), es.loc()))
        else:
            r.ok(b.id, "no mutation precedes an Err return", b.loc())
    r.floor(n, 5, "fallible mutators of AAFramework / ArgumentSet / LabelSet")


def rule_idempotent_insertions(ctx):
    prog = ctx.prog
    r = ctx.rule(
        "idempotent-insertion",
        "inserting an existing attack by label changes nothing: the push on the attack vector is control-dependent on the absence of a "
        "live equal pair in the attacker's index list (existing arguments: see labels-append-only)",
    )
    fields = find_store_fields(prog)
    if not fields["attacks"] and attacks_wrapper(prog):
        r.ok("attacks", "NOT decided: the tombstoned attack entries are wrapped in the private type %s, whose methods this rule does not inline" % attacks_wrapper(prog).rsplit("::", 1)[-1])
        return
    if not r.require_anchor(fields["attacks"], "attack vector field"):
        return
    owner, fld, _ = fields["attacks"]
    pushes = [u for u in _muts(prog, owner, fld) if u.op == "alloc::vec::Vec::push"]
    n = 0

    def no_equal_pair_guard(body, site):
        """the site runs only when a search for a live equal pair found nothing"""
        for c in conditions(body, site.bb):
            for o in origins(body, c.place, transparent=()):
                if o.kind != "call":
                    continue
                # `!list.iter().any(|id| attacks[*id] == Some(pair))`
                if c.is_false() and callee_matches(o.data, r"iterator::Iterator::any$"):
                    for cp in o.data.get("fn_args", []):
                        cb = prog.lib(cp)
                        if cb and any(callee_matches(callee_of(s), r"cmp::PartialEq::eq$") for s in cb.calls()):
                            return True
                # `search(..).is_none()` / the None arm of a search helper
                if c.is_true() and callee_matches(o.data, r"^core::option::Option::is_none$"):
                    if any(_is_pair_search(prog, body, oo) for oo in origins(body, o.site.node["args"][0], transparent=()) if oo.kind == "call"):
                        return True
                if c.is_false() and callee_matches(o.data, r"^core::option::Option::is_some$"):
                    if any(_is_pair_search(prog, body, oo) for oo in origins(body, o.site.node["args"][0], transparent=()) if oo.kind == "call"):
                        return True
                if on_none_arm(c) and _is_pair_search(prog, body, o) and not callee_matches(o.data, r"iterator::Iterator::any$"):
                    return True
        return False

    for u in pushes:
        b = u.site.body
        sig = prog.sigs.get(("lib", b.path))
        # entry points of this push: the function itself when it is callable from outside the type's module, else its callers
        entries = []
        if sig is not None and sig["vis"] == "pub":
            entries.append((b, u.site))
        else:
            for cs in prog.callers_of(b):
                cf = prog.enclosing_fn(cs.body)
                csig = prog.sigs.get(("lib", cf.path))
                entries.append((cs.body, cs) if csig is not None and csig["vis"] == "pub" else (None, cs))
        for eb, es in entries:
            if eb is None:
                r.note("by-id insertion through %s keeps duplicates (crate-private, used by the ICCMA reader and component extraction)" % prog.enclosing_fn(es.body).path)
                continue
            # by-label insertion: the public function takes labels (&T), not ids
            ef = prog.enclosing_fn(eb)
            if not any(ef.local_ty(k).replace("&", "").strip() == "T" for k in range(2, ef.n_args + 1)):
                r.note("by-id insertion %s keeps duplicates" % ef.path)
                continue
            n += 1
            r.check(no_equal_pair_guard(eb, es), ef.id, "unguarded-push", "attack pushed only when no live equal pair exists", "the by-label insertion pushes an attack without checking for an existing equal pair", es.loc())
    r.floor(n, 1, "public by-label attack insertion")


def rule_iterators_filter(ctx):
    prog = ctx.prog
    r = ctx.rule(
        "iterators-skip-tombstones",
        "every iterator over the label vector or the attack vector filters tombstones with filter_map(Option::as_ref)",
    )
    fields = find_store_fields(prog)
    n = 0
    for key in ("labels", "attacks"):
        if not fields[key]:
            continue
        owner, fld, _ = fields[key]
        for b in prog.lib_bodies():
            if b.kind == "closure" or not b.impl or b.impl.get("self_adt") != owner:
                continue
            if not re.search(r"iter::|Iterator", b.ret_ty):
                continue
            reads = [u for u in field_uses(prog, owner, fld, bodies=[b] + prog.closures_of(b))]
            if not reads:
                # delegating iterator (iter_attacks_from -> iter_attacks_from_id)
                continue
            n += 1

            def _filters(b):
                for s in b.calls():
                    c = callee_of(s)
                    if callee_matches(c, r"iterator::Iterator::filter_map$"):
                        for cp in c.get("fn_args", []):
                            cb = prog.lib(cp)
                            if cb and any(callee_matches(callee_of(x), r"^core::option::Option::as_ref$") for x in cb.calls()):
                                return True
                    if callee_matches(c, r"iterator::Iterator::flatten$") and "Option<" in str(c.get("substs")):
                        return True  # `iter().flatten()` over Option slots yields the Some entries only
                return False

            ok = _filters(b)
            if not ok and str(b.vis or "").startswith("in:") and "Option<" in b.ret_ty:
                # a private raw iterator over the slots (tombstones included, the item type says so): what its callers make of it
                cs = prog.callers_of(b)
                bad = [c for c in cs if re.search(r"iter::|Iterator", prog.enclosing_fn(c.body).ret_ty) and not _filters(prog.enclosing_fn(c.body))]
                if cs and not bad:
                    r.ok(b.id, "a private iterator over the raw slots; %s" % ("its callers that hand out an iterator skip the empty ones" if any(re.search(r"iter::|Iterator", prog.enclosing_fn(c.body).ret_ty) for c in cs) else "NOT decided: no caller hands out an iterator"), b.loc())
                    continue
            r.check(ok, b.id, "no-filter", "%s filters tombstones" % b.path, "%s iterates the %s vector without skipping removed entries" % (b.path, key), b.loc())
    if attacks_wrapper(prog) and not fields["attacks"]:
        n += 1  # the attack iterators go through the wrapper's methods: counted as examined, not judged
        r.ok("attacks", "NOT decided: the attack iterators read entries wrapped in the private type %s" % attacks_wrapper(prog).rsplit("::", 1)[-1])
    r.floor(n, 2, "iterator functions over the label / attack vectors")


# ------------------------------------------------------------------------------------------
# counts and the largest id (found by seeded changes C12/E and C12/G)


def rule_counts(ctx):
    prog = ctx.prog
    r = ctx.rule(
        "count-functions",
        "LabelSet::max_id depends on the label vector alone (its emptiness / length count the whole history, removed labels included), "
        "never on the live count; AAFramework::n_arguments is the live count of its ArgumentSet (`argument_set().len()`), "
        "ArgumentSet::len delegates to LabelSet::len, AAFramework::max_argument_id to the label set's max_id",
    )
    fields = find_store_fields(prog)
    if not r.require_anchor(fields["labels"], "label vector field"):
        return
    owner, fld, _ = fields["labels"]
    lw = labels_wrapper(prog, fields)
    mx = prog.lib((lw[1] if lw else owner) + "::<T>::max_id")
    if lw:
        r.ok(lw[1] + "::max_id", "NOT decided: the label vector is the field of the private wrapper %s (what max_id reads goes through its methods)" % lw[0].rsplit("::", 1)[-1], mx.loc() if mx else None)
    elif r.require_anchor(mx, owner + "::max_id"):
        bad = []
        ops = [{"l": 0, "p": []}]
        for sw in switch_sites(mx):
            ops.append(sw.node["discr"])
        for op in ops:
            seen, calls, _ = data_deps(mx, op)
            fr = self_fields_read(mx, op)
            if fr - {fld}:
                bad.append("reads %s" % sorted(fr - {fld}))
            for c in calls:
                cc = callee_of(c)
                t = prog.body_for_callee(cc, mx) if cc else None
                if t is not None and t.impl and t.impl.get("self_adt") == owner:
                    # a private getter that reads the label vector alone is the label vector
                    tf = set()
                    for rs in [{"l": 0, "p": []}] + [sw.node["discr"] for sw in switch_sites(t)]:
                        tf |= self_fields_read(t, rs)
                    if str(t.vis or "").startswith("in:") and tf and tf <= {fld} and not any((callee_of(x) or {}).get("crate") == "crustabri" for x in t.calls()):
                        continue
                    bad.append("calls %s" % t.path.rsplit("::", 1)[-1])
        r.check(not bad, mx.id, "max-id-source:%s" % sorted(set(bad)), "max_id is computed from the label vector only", "max_id depends on more than the label vector (%s): after removals the largest id handed out is no longer reported" % sorted(set(bad)), mx.loc())
    def delegates(path, want_re, what):
        b = prog.lib(path)
        if not r.require_anchor(b, path):
            return
        os_ = [o for o in origins(b, {"l": 0, "p": []}, transparent=())]
        ok = bool(os_) and all(o.kind == "call" and callee_matches(o.data, want_re) for o in os_)
        r.check(ok, b.id, "not-delegating", "%s = %s" % (path.rsplit("::", 1)[-1], what), "%s is not `%s`: the reported count / id no longer follows the store" % (path.rsplit("::", 1)[-1], what), b.loc())
    delegates(AAF + "::<T>::n_arguments", r"^aa::arguments::ArgumentSet::len$", "argument_set().len()")
    delegates(ARGSET + "::<T>::len", r"^utils::label::LabelSet::len$", "LabelSet::len()")
    delegates(AAF + "::<T>::max_argument_id", r"^aa::arguments::ArgumentSet::max_id$|^utils::label::LabelSet::max_id$", "the label set's max_id()")
    delegates(ARGSET + "::<T>::max_id", r"^utils::label::LabelSet::max_id$", "LabelSet::max_id()")


def rule_label_store_arithmetic(ctx):
    """C12: the small functions of the label store, as arithmetic over L = labels.len() and R = n_removed"""
    prog = ctx.prog
    from ..prov import prov, show, subterms
    from .splits import linear
    from .grounded import inherited_conditions, _cond_trees, _is_call

    r = ctx.rule(
        "label-store-arithmetic",
        "with L the length of the label vector and R the removal counter: len() = L - R; is_empty() <=> L = R; max_id() = Some(L - 1) unless the "
        "vector is empty; has_label_with_id(id) is false when id >= L and else tells whether slot id is occupied; a new label gets the id L it "
        "had before the push, which is also the position the map records (L' - 1 after the push)",
    )
    fields = find_store_fields(prog)
    if not r.require_anchor(fields["labels"], "label vector field"):
        return
    owner, fld, _ = fields["labels"]
    adt = prog.adt(owner)
    fpath = (fld,)
    if len(adt["variants"]) == 1 and len(adt["variants"][0]["fields"]) == 1:
        # the vector is wrapped in a private newtype (`struct Slots<T>(Vec<Option<Label<T>>>)`) held by the store: the store is the holder,
        # the vector is `holder.field.0`, and the newtype's private methods are inlined like getters
        holders = [(p2, f2["name"]) for p2, a2 in prog.adts.items() for v2 in a2["variants"] for f2 in v2["fields"] if re.match(r"^%s(<.*>)?$" % re.escape(owner), f2["ty"].replace(" ", ""))]
        if len(holders) == 1:
            fpath = (holders[0][1], fld)
            owner = holders[0][0]
            adt = prog.adt(owner)
    cnt = [f["name"] for v in adt["variants"] for f in v["fields"] if f["ty"] == "usize"]

    def atoms(fn):
        def atom(t):
            if _is_call(t, r"Vec::len$", 1) and t[2][0][0] == "param" and t[2][0][2] == 1 and t[2][0][3] == fpath:
                return "L"
            if t[0] == "param" and t[1] == fn.path and t[2] == 1 and len(t[3]) == 1 and t[3][0] in cnt:
                return "R"
            if t[0] == "param" and t[1] == fn.path and t[2] == 2 and not t[3]:
                return "id"
            return None
        return atom

    n = 0
    from ..prov import inlining

    _inl = inlining()
    _inl.__enter__()

    def judge_value(fn, tree, want, what, anchor):
        nonlocal n
        n += 1
        v = linear(tree, atoms(fn))
        if v is None:
            r.ok(anchor, "NOT decided: %s is not a linear form of the vector length and the counter (%s)" % (what, show(tree)[:70]), fn.loc())
            return
        r.check(v == want, anchor, "%s:%s" % (what, sorted(v.items(), key=str)), "%s = %s" % (what, _lf(want)), "%s computes %s, not %s" % (fn.path.rsplit("::", 1)[-1], _lf(v), _lf(want)), fn.loc())

    ln = prog.lib(owner + "::<T>::len")
    if r.require_anchor(ln, owner + "::len"):
        for e in prov(prog, ln, {"l": 0, "p": []}):
            judge_value(ln, e, {"L": 1, "R": -1}, "len", ln.id)
    ie = prog.lib(owner + "::<T>::is_empty")
    if r.require_anchor(ie, owner + "::is_empty"):
        for e in prov(prog, ie, {"l": 0, "p": []}):
            n += 1
            if e[0] == "op" and e[1] == "Eq" and len(e[2]) == 2:
                a, b = linear(e[2][0], atoms(ie)), linear(e[2][1], atoms(ie))
                if a is not None and b is not None:
                    d = dict(a)
                    for k, v in b.items():
                        d[k] = d.get(k, 0) - v
                    d = {k: v for k, v in d.items() if v != 0}
                    r.check(d in ({"L": 1, "R": -1}, {"L": -1, "R": 1}), ie.id, "is-empty:%s" % sorted(d.items(), key=str), "is_empty <=> L = R", "is_empty compares %s with 0, not L - R: a set whose labels were all removed is not empty (or the other way round)" % _lf(d), ie.loc())
                    continue
            if _is_call(e, r"Vec::is_empty$", 1):
                r.violation(ie.id, "is-empty:vector", "is_empty tells whether the label *vector* is empty: a set whose labels were all removed is reported as non-empty", ie.loc())
                continue
            r.ok(ie.id, "NOT decided: %s" % show(e)[:80], ie.loc())
    mx = prog.lib(owner + "::<T>::max_id")
    if r.require_anchor(mx, owner + "::max_id"):
        for e in prov(prog, mx, {"l": 0, "p": []}):
            if e[0] == "agg" and e[1] == "Some" and len(e[2]) == 1:
                judge_value(mx, e[2][0], {"L": 1, 1: -1}, "max_id", mx.id)
    hs = prog.lib(owner + "::<T>::has_label_with_id")
    if r.require_anchor(hs, owner + "::has_label_with_id"):
        n += 1
        bad = None
        und = None
        for st in [x for x in hs.sites() if x.si is not None and x.node["k"] == "assign" and x.node["dst"] == {"l": 0, "p": []}] + [s for s in hs.calls() if s.node["dst"]["l"] == 0 and not s.node["dst"]["p"]]:
            conds = _cond_trees(prog, inherited_conditions(prog, hs, st.bb))
            bound = None
            for c, t in conds:
                if c[0] == "op" and c[1] in ("Lt", "Le", "Gt", "Ge") and len(c[2]) == 2:
                    a, b = linear(c[2][0], atoms(hs)), linear(c[2][1], atoms(hs))
                    if a is None or b is None:
                        continue
                    d = dict(a)
                    for k, v in b.items():
                        d[k] = d.get(k, 0) - v
                    d = {k: v for k, v in d.items() if v != 0}
                    k0 = d.pop(1, 0)
                    op = c[1] if t else {"Lt": "Ge", "Le": "Gt", "Gt": "Le", "Ge": "Lt"}[c[1]]
                    if d == {"id": -1, "L": 1}:
                        op = {"Lt": "Gt", "Le": "Ge", "Gt": "Lt", "Ge": "Le"}[op]
                        k0 = -k0
                    elif d != {"id": 1, "L": -1}:
                        continue
                    # id - L + k0 op 0
                    if (op, k0) in (("Lt", 0), ("Le", 1)):
                        bound = "inside"
                    elif (op, k0) in (("Ge", 0), ("Gt", 1)):
                        bound = "outside"
                    else:
                        bad = "the id is compared with the vector length with an offset (id - L %+d %s 0)" % (k0, op)
            if st.si is None:
                vals = [("call", callee_decl(callee_of(st)))]
            else:
                from .equiv import _rv_trees

                vals = list(_rv_trees(prog, hs, st.node["rv"]))
            for v in vals:
                if v == ("const", True):
                    # `matches!(self.labels.get(id), Some(Some(_)))`: true under two `Some` tests on a checked read of the slot
                    raw = conditions(hs, st.bb)
                    somes = 0
                    for c in raw:
                        if c.is_discr and not c.negated and c.values == ["1"]:
                            for o in origins(hs, {"l": c.place["l"], "p": []}, transparent=("core::option::Option::as_ref",)):
                                if o.kind == "call" and re.search(r"slice::.*get$|Vec.*::get$", callee_decl(o.data)):
                                    somes += 1
                    if somes >= 2:
                        pass
                    elif raw:
                        und = "a `true` under tests the rule does not follow"
                    else:
                        bad = bad or "it answers `true` without looking at the slot"
                elif v == ("const", False):
                    if bound != "outside":
                        und = "a `false` that is not tied to `id >= L`"
                elif (v[0] == "call" and re.search(r"Option::is_some$", v[1])):
                    if bound != "inside":
                        bad = bad or "the slot is read without `id < L` (an id beyond the vector panics)"
                elif v[0] == "op" and v[1] in ("Lt", "Le", "Gt", "Ge") and linear(v[2][0], atoms(hs)) is not None and linear(v[2][1], atoms(hs)) is not None:
                    bad = bad or "the answer is the comparison of the id with the vector length: a removed label's id is reported as present"
                else:
                    und = "a result of another form"
        if bad:
            r.violation(hs.id, "has-label:%s" % bad[:40], "has_label_with_id: %s" % bad, hs.loc())
        elif und:
            r.ok(hs.id, "NOT decided: %s" % und, hs.loc())
        else:
            r.ok(hs.id, "false beyond the vector, else whether the slot is occupied", hs.loc())
    nl = prog.lib(owner + "::<T>::new_label")
    if r.require_anchor(nl, owner + "::new_label"):
        for y in prog.with_closures(nl):
            pushes = [s for s in y.calls() if callee_decl(callee_of(s)) == "alloc::vec::Vec::push"]
            if not pushes:
                continue
            ps = pushes[0]
            order = {(s.bb, s.si): k for k, s in enumerate(sorted(y.calls(), key=lambda s: s.bb))}
            for e in prov(prog, y, ps.node["args"][1]):
                news = [t for t in subterms(e) if _is_call(t, r"Label::new$", 2)]
                for t in news:
                    judge_value(nl, t[2][0], {"L": 1}, "id of the new label", nl.id + "|id")
                    # the Label::new call and what its id argument is computed from
                    srcs = []
                    for s0 in y.calls():
                        if callee_decl(callee_of(s0)).endswith("Label::new") or callee_decl(callee_of(s0)).endswith("Label::<T>::new"):
                            for o in origins(y, s0.node["args"][0], transparent=()):
                                if o.kind == "call" and o.site is not None:
                                    srcs.append(o.site)
                    if srcs:
                        r.check(all(y.dominates(x, ps) for x in srcs), nl.id + "|id", "length-read-after-push", "the length is read before the push", "the id of the new label is computed from the length *after* the push", ps.loc())
                    else:
                        r.ok(nl.id + "|id", "NOT decided: where the id of the new label is read is not traced", ps.loc())
            if y is not nl:
                for e in prov(prog, y, {"l": 0, "p": []}):
                    judge_value(nl, e, {"L": 1, 1: -1}, "position recorded in the map", nl.id + "|map")
                    late = [s for s in y.calls() if callee_decl(callee_of(s)) == "alloc::vec::Vec::len" and y.dominates(ps, s)]
                    r.check(bool(late), nl.id + "|map", "length-read-before-push", "the length is read after the push", "the position recorded in the map is L - 1 with L read *before* the push: the id of the previous label", ps.loc())
    _inl.__exit__()
    r.floor(n, 3, "functions of the label store evaluated")


def _lf(d):
    return " ".join("%+d*%s" % (v, k) if k != 1 else "%+d" % v for k, v in sorted(d.items(), key=str)) or "0"


def rule_attack_orientation(ctx):
    """C12: which end of an attack goes where - the writers against the readers"""
    prog = ctx.prog
    from ..prov import prov, show, subterms, leaves
    from .splits import linear
    from .grounded import inherited_conditions, _cond_trees, _is_call

    r = ctx.rule(
        "attack-orientation",
        "readers: `Attack::attacker()` is built from one component of the stored pair, `attacked()` from the other; `iter_attacks_from(a)` reads one "
        "index table at a's id, `iter_attacks_to(a)` the other. Writers agree with them: `new_attack(from, to)` / `new_attack_by_ids` store the pair "
        "with `from` in the attacker component, enter the new attack in the `from` table at the attacker's id and in the `to` table at the attacked "
        "id; the duplicate test and `remove_attack` compare with that same pair; `remove_argument` tombstones the attacks of both tables of the "
        "removed id; `new_attack_by_ids` rejects exactly the ids >= the argument count",
    )
    fw = prog.adt(AAF)
    if not r.require_anchor(fw, "type " + AAF):
        return
    pair_f = [f["name"] for v in fw["variants"] for f in v["fields"] if re.search(r"Vec<core::option::Option<\(usize, usize\)>>", f["ty"])]
    list_f = [f["name"] for v in fw["variants"] for f in v["fields"] if f["ty"].replace(" ", "") == "alloc::vec::Vec<alloc::vec::Vec<usize>>"]
    if not (len(pair_f) == 1 and len(list_f) == 2) and attacks_wrapper(prog):
        r.ok("attacks", "NOT decided: the tombstoned attack entries are wrapped in the private type %s, whose methods this rule does not inline" % attacks_wrapper(prog).rsplit("::", 1)[-1])
        return
    if not r.require_anchor(len(pair_f) == 1 and len(list_f) == 2, "the attack vector and the two index tables of " + AAF):
        return
    # --- readers
    att = [b for b in prog.lib_bodies() if b.kind != "closure" and b.impl and (b.impl.get("self_adt") or "").endswith("aa_framework::Attack") and b.n_args == 1]
    comp_of = {}
    for b in att:
        nm = b.path.rsplit("::", 1)[-1]
        for e in prov(prog, b, {"l": 0, "p": []}):
            if e[0] == "param" and e[3]:
                comp_of[nm] = e[3][0]
    if not r.require_anchor(set(comp_of) >= {"attacker", "attacked"} and comp_of["attacker"] != comp_of["attacked"], "Attack::attacker / Attack::attacked reading two different fields"):
        return
    pair_comp = {}  # role -> component of the stored pair
    table_of = {}  # 'from' / 'to' -> field
    for nm, role in (("iter_attacks_from_id", "from"), ("iter_attacks_from", "from"), ("iter_attacks_to", "to"), ("iter_attacks", None)):
        b = prog.lib(AAF + "::<T>::" + nm)
        if b is None:
            continue
        for y in prog.with_closures(b):
            for e in prov(prog, y, {"l": 0, "p": []}):
                if e[0] == "agg" and e[1] == "Attack" and len(e[2]) == 2:
                    for k, comp in enumerate(e[2]):
                        flds = [t[2] for t in subterms(comp) if isinstance(t, tuple) and t[0] == "field" and isinstance(t[1], tuple) and t[1][0] == "elem" and t[2] in ("0", "1")]
                        if len(set(flds)) == 1:
                            rl = "attacker" if comp_of["attacker"] == str(k) else "attacked"
                            pair_comp.setdefault(rl, set()).add(flds[0])
                    if role:
                        for t in subterms(e):
                            if _is_call(t, r"Index::index$", 2) and t[2][0][0] == "param" and t[2][0][3] and t[2][0][3][0] in list_f:
                                table_of.setdefault(role, set()).add(t[2][0][3][0])
    ok_r = all(len(pair_comp.get(x, ())) == 1 for x in ("attacker", "attacked")) and pair_comp["attacker"] != pair_comp["attacked"] and all(len(table_of.get(x, ())) == 1 for x in ("from", "to")) and table_of["from"] != table_of["to"]
    if not all(pair_comp.get(x) for x in ("attacker", "attacked")) or not all(table_of.get(x) for x in ("from", "to")):
        r.ok(AAF + "|readers", "NOT decided: the iterators build their `Attack` values / read the index tables through helpers the rule does not follow", None)
        return
    if not r.check(ok_r, AAF + "|readers", "readers:%s/%s" % ({k: sorted(v) for k, v in pair_comp.items()}, {k: sorted(v) for k, v in table_of.items()}), "the iterators agree on the orientation of the pair and on one table per direction", "the iterators of the framework do not agree with each other on which component of a stored pair is the attacker, or on which index table serves which direction", None):
        return
    ca, cd = int(next(iter(pair_comp["attacker"]))), int(next(iter(pair_comp["attacked"])))
    tf, tt = next(iter(table_of["from"])), next(iter(table_of["to"]))
    r.ok(AAF + "|readers", "attacker = component %d of the pair, attacked = component %d; from-table `%s`, to-table `%s`" % (ca, cd, tf, tt), None)
    n = 0

    def side_params(tree, fn):
        """which of the parameters (from = 2, to = 3) an id expression stands for: the label looked up, or the id parameter itself"""
        looked = set()
        for t in subterms(tree):
            if _is_call(t, r"get_argument$|get_label$", 2):
                looked |= {l[2] for l in leaves(t[2][1]) if l[0] == "param" and l[1] == fn.path and l[2] in (2, 3)}
        if looked:
            return looked
        return {l[2] for l in leaves(tree) if l[0] == "param" and l[1] == fn.path and l[2] in (2, 3)}

    def pair_of(e):
        """(attacker tree, attacked tree) of a `Some((x, y))` tree"""
        if e[0] == "agg" and e[1] == "Some" and len(e[2]) == 1 and e[2][0][0] == "agg" and e[2][0][1] == "tuple" and len(e[2][0][2]) == 2:
            c = e[2][0][2]
            return c[ca], c[cd]
        return None

    for nm in ("new_attack", "new_attack_by_ids"):
        b = prog.lib(AAF + "::<T>::" + nm)
        if b is None:
            continue
        stored = None
        for s in b.calls():
            if callee_decl(callee_of(s)) == "alloc::vec::Vec::push" and any(e[0] == "param" and e[3] and e[3][0] == pair_f[0] for e in prov(prog, b, s.node["args"][0])):
                for e in prov(prog, b, s.node["args"][1]):
                    stored = pair_of(e) or stored
        anchor = b.id
        if stored is None:
            r.ok(anchor, "NOT decided: the stored pair is not a `Some((x, y))` built in place", b.loc())
            continue
        n += 1
        xa, xd = stored
        pa = side_params(xa, b)
        pd = side_params(xd, b)
        r.check(pa == {2} and pd == {3}, anchor, "pair-orientation:%s/%s" % (sorted(pa), sorted(pd)), "the pair is stored as (from, to)", "%s(from, to) stores the pair with %s in the attacker component and %s in the attacked one: the attack comes out reversed" % (nm, "`to`" if pa == {3} else sorted(pa), "`from`" if pd == {2} else sorted(pd)), b.loc())
        for s in b.calls():
            if callee_decl(callee_of(s)) != "alloc::vec::Vec::push":
                continue
            for e in prov(prog, b, s.node["args"][0]):
                if _is_call(e, r"IndexMut::index_mut$|Index::index$", 2) and e[2][0][0] == "param" and e[2][0][3] and e[2][0][3][0] in list_f:
                    tbl = e[2][0][3][0]
                    want = xa if tbl == tf else xd
                    n += 1
                    r.check(e[2][1] == want, anchor + "|" + tbl, "table-key:%s" % tbl, "the new attack is entered in `%s` at the %s id" % (tbl, "attacker's" if tbl == tf else "attacked argument's"), "the new attack is entered in `%s` at %s, but that table is read by %s with the %s id" % (tbl, show(e[2][1])[:60], "iter_attacks_from" if tbl == tf else "iter_attacks_to", "attacker's" if tbl == tf else "attacked argument's"), s.loc())
    # duplicate test and removal compare with the same pair
    for nm in ("new_attack", "remove_attack"):
        b = prog.lib(AAF + "::<T>::" + nm)
        if b is None:
            continue
        for y in prog.with_closures(b):
            for s in y.calls():
                if not callee_decl(callee_of(s)).endswith("PartialEq::eq"):
                    continue
                for a in s.node["args"]:
                    for e in prov(prog, y, a):
                        pr = pair_of(e)
                        if pr is None:
                            continue
                        n += 1
                        pa = side_params(pr[0], b)
                        pd = side_params(pr[1], b)
                        r.check(pa == {2} and pd == {3}, b.id + "|compare", "compared-pair:%s/%s" % (sorted(pa), sorted(pd)), "%s looks for the pair (from, to)" % nm, "%s(from, to) compares the stored attacks with the pair (%s, %s): it finds the reverse attack" % (nm, "to" if pa == {3} else "?", "from" if pd == {2} else "?"), s.loc())
    # remove_argument covers both tables of the removed id
    b = prog.lib(AAF + "::<T>::remove_argument")
    if b is not None:
        seen_tables = set()
        for y in prog.with_closures(b):
            for s in y.calls():
                if callee_decl(callee_of(s)) == "core::option::Option::take":
                    for e in prov(prog, y, s.node["args"][0]):
                        for t in subterms(e):
                            if _is_call(t, r"Index::index$", 2) and t[2][0][0] == "param" and t[2][0][3] and t[2][0][3][0] in list_f:
                                seen_tables.add(t[2][0][3][0])
        if seen_tables:
            n += 1
            r.check(seen_tables == {tf, tt}, b.id + "|both-directions", "tombstoned-tables:%s" % sorted(seen_tables), "the attacks from and to the removed argument are tombstoned", "remove_argument tombstones only the attacks listed in %s: the attacks in the other direction survive their argument" % sorted(seen_tables), b.loc())
        else:
            r.ok(b.id + "|both-directions", "NOT decided: no `take()` of attack slots reached through the index tables", b.loc())
    # new_attack_by_ids: the rejected ids
    b = prog.lib(AAF + "::<T>::new_attack_by_ids")
    if b is not None:
        errs = [st for st in b.sites() if st.si is not None and st.node["k"] == "assign" and st.node["rv"]["k"] == "aggregate" and st.node["rv"]["agg"].get("variant") == "Err"]
        pushes = [s for s in b.calls() if callee_decl(callee_of(s)) == "alloc::vec::Vec::push"]
        for s in pushes[:1]:
            for c, t in _cond_trees(prog, inherited_conditions(prog, b, s.bb)):
                if c[0] == "op" and c[1] in ("Lt", "Le", "Gt", "Ge") and len(c[2]) == 2:
                    def atom(x):
                        if x[0] == "param" and x[1] == b.path and x[2] in (2, 3) and not x[3]:
                            return "id"
                        if _is_call(x, r"ArgumentSet::len$|n_arguments$|LabelSet::len$"):
                            return "n"
                        return None
                    a_, b_ = linear(c[2][0], atom), linear(c[2][1], atom)
                    if a_ is None or b_ is None:
                        continue
                    d = dict(a_)
                    for k, v in b_.items():
                        d[k] = d.get(k, 0) - v
                    d = {k: v for k, v in d.items() if v != 0}
                    k0 = d.pop(1, 0)
                    op = c[1] if t else {"Lt": "Ge", "Le": "Gt", "Gt": "Le", "Ge": "Lt"}[c[1]]
                    if d == {"id": -1, "n": 1}:
                        op = {"Lt": "Gt", "Le": "Ge", "Gt": "Lt", "Ge": "Le"}[op]
                        k0 = -k0
                    elif d != {"id": 1, "n": -1}:
                        continue
                    n += 1
                    r.check((op, k0) in (("Lt", 0), ("Le", 1)), b.id + "|bound", "id-bound:%s%+d" % (op, k0), "an attack is entered only for ids < n", "new_attack_by_ids enters an attack when `id - n %+d %s 0`: an id equal to the argument count gets past the test and panics on the index tables" % (k0, {"Lt": "<", "Le": "<=", "Gt": ">", "Ge": ">="}[op]), s.loc())
    r.floor(n, 6, "writer / comparison sites judged against the readers")
