"""C11 (renaming and mapping clauses): parametricity in the label type; component extraction copies
every attack of the component and re-indexes compactly."""
import re

from ..core import callee_of, callee_decl, callee_matches, callee_name, strip_generics, op_place, op_const, origins, data_deps, place_fields
from ..flow import conditions, consumers
from ..fmtq import format_sites

SCOPE = r"^<?(solvers|encodings|dynamics|utils::connected_components_computer|utils::grounded_extension_computer|utils::equivalency_computer)::"
ALLOWED_BOUNDS = r"^(T|U): (utils::label::LabelType|core::marker::Sized|core::marker::MetaSized|core::clone::Clone|core::cmp::Eq|core::cmp::PartialEq|core::fmt::Debug|core::fmt::Display|core::hash::Hash|'[a-z_]+)$"


_TEXT_SINKS = r"(io::Write::write_fmt|fmt::Formatter::write_fmt|core::fmt::Write::write_fmt|panicking::panic_fmt|alloc::fmt::format|anyhow::|log::|fmt::Arguments::)"


def _arguments_only_printed(prog, b, cons, depth=0):
    """the fmt::Arguments value handed to a local function is only written out there (to a writer, an error or the log), possibly
    through further local functions"""
    if depth > 4 or cons.info[0] is None:
        return False
    tgt = prog.body_for_callee(cons.info[0], b)
    if tgt is None or tgt.kind == "closure":
        return False
    ks = [i + 1 for i, a in enumerate(cons.site.node.get("args") or []) if op_place(a) is not None and i + 1 <= tgt.n_args and tgt.local_ty(i + 1).startswith("core::fmt::Arguments")]
    if not ks:
        return False
    for k in ks:
        uses = 0
        for fs in format_sites(tgt):
            if any(a is not None and any(o.kind == "param" and o.data == k for o in origins(tgt, a[1])) for a in fs.args):
                uses += 1
                cs = [c for c in consumers(tgt, fs.result_local) if c.kind == "call" and c.info[0]]
                if not cs or not all(re.search(_TEXT_SINKS, callee_decl(c.info[0])) or _arguments_only_printed(prog, tgt, c, depth + 1) for c in cs):
                    return False
        for c in consumers(tgt, k):
            if c.kind == "call" and c.info[0]:
                d = callee_decl(c.info[0])
                if re.search(r"fmt::rt::Argument", d):
                    continue
                uses += 1
                if not (re.search(_TEXT_SINKS, d) or _arguments_only_printed(prog, tgt, c, depth + 1)):
                    return False
        if uses == 0:
            return False
    return True


def rule_parametricity(ctx):
    prog = ctx.prog
    r = ctx.rule(
        "label-parametricity",
        "solvers, encoders, dynamic solvers and graph utilities are generic in the label type with no bound beyond LabelType (Clone+Debug+Display+"
        "Eq+Hash); no TypeId/Any/type_name/transmute; a map keyed by labels is never iterated; ordering and hashing of labels are not used by the "
        "algorithms; formatted labels reach only writers, log records, error messages and panics - so no decision can depend on what a label is",
    )
    n = 0
    items = []
    for (t, p), s in prog.sigs.items():
        if t == "lib" and re.search(SCOPE, p):
            items.append((p, s["generics"]))
    for p, a in prog.adts.items():
        if re.search(SCOPE, p):
            items.append((p, a["generics"]))
    for i in prog.impls:
        if i["target"] == "lib" and re.search(SCOPE, i["self_ty"]):
            items.append(("impl " + (i.get("trait_ref") or i["self_ty"]), i["generics"]))
    for p, g in items:
        tparams = [x["name"] for x in g["params"] if x["kind"].startswith("Type")]
        if not tparams:
            continue
        n += 1
        bad = [q for q in g["predicates"] if re.match(r"^(T|U): ", q) and not re.match(ALLOWED_BOUNDS, q)]
        if bad:
            r.violation(p, "extra-bound:%s" % bad, "%s constrains the label type beyond LabelType (%s): its behaviour may depend on what labels are" % (p, bad))
    r.ok("generic items", "%d generic items in solvers/encodings/dynamics/utils bound their label type by LabelType only" % n)
    r.floor(n, 150, "generic items in scope")
    # forbidden reflective / ordering operations
    bad_calls = []
    map_iter = []
    for b in prog.lib_bodies():
        for s in b.calls():
            c = callee_of(s)
            d = callee_decl(c)
            if re.search(r"^core::any::|type_name|^core::mem::transmute|^core::intrinsics::", d):
                bad_calls.append((b, s, d))
            if re.search(r"hash::map::HashMap::(iter|iter_mut|keys|values|values_mut|into_keys|into_values|drain|retain|extract_if)$|hash::map::.*IntoIterator", d):
                map_iter.append((b, s, d))
            if d == "core::iter::traits::collect::IntoIterator::into_iter" and any("HashMap<" in x for x in (c.get("substs") or [])):
                map_iter.append((b, s, d))
            # ordering of labels
            if re.search(r"cmp::(Ord|PartialOrd)::(cmp|partial_cmp|lt|le|gt|ge|max|min)$|slice::sort|sort_by|sort_unstable", d) and re.search(SCOPE, prog.enclosing_fn(b).path):
                if any(re.search(r"\bT\b|Label<", x) for x in (c.get("substs") or [])):
                    bad_calls.append((b, s, d + " on labels"))
    for b, s, d in bad_calls:
        r.violation(b.id, "reflective:" + d, "%s is used in %s: behaviour may depend on the label type or on an order of labels" % (d, b.path), s.loc())
    for b, s, d in map_iter:
        r.violation(b.id, "map-iteration:" + d, "a hash map is iterated in %s: the visiting order depends on label hashes" % b.path, s.loc())
    if not bad_calls and not map_iter:
        r.ok("reflective/ordering", "no TypeId/Any/type_name/transmute, no ordering of labels, no iteration of a hash map in %d bodies" % len(prog.lib_bodies()))
    # formatted labels
    nf = 0
    for b in prog.lib_bodies():
        for fs in format_sites(b):
            label_args = []
            for a in fs.args:
                if a is None:
                    continue
                p = op_place(a[1])
                ty = b.local_ty(p["l"]) if p is not None else ""
                for o in origins(b, a[1]):
                    pass
                if re.search(r"(^|[&< ])T($|[>, ])|Label<T>|&T\b", ty):
                    label_args.append(ty)
            if not label_args:
                continue
            nf += 1
            cs = [c for c in consumers(b, fs.result_local) if c.kind == "call"]
            sinks = {callee_decl(c.info[0]) for c in cs if c.info[0]}
            ok = bool(sinks) and all(re.search(_TEXT_SINKS, callee_decl(c.info[0])) or _arguments_only_printed(prog, b, c) for c in cs if c.info[0])
            # a formatted String may only become an error / log message
            if ok and "alloc::fmt::format" in sinks:
                for c in cs:
                    if callee_decl(c.info[0]) == "alloc::fmt::format":
                        sub = [x for x in consumers(b, c.site.node["dst"]["l"]) if x.kind == "call"]
                        subs = {callee_decl(x.info[0]) for x in sub if x.info[0]}
                        chain = set(subs)
                        for x in sub:
                            if callee_decl(x.info[0]) == "core::hint::must_use":
                                chain |= {callee_decl(y.info[0]) for y in consumers(b, x.site.node["dst"]["l"]) if y.kind == "call" and y.info[0]}
                        chain.discard("core::hint::must_use")
                        if not chain or not all(re.search(r"anyhow::|log::|String::push_str|panicking", y) for y in chain):
                            if b.kind == "closure" and b.ret_ty == "alloc::string::String":
                                continue  # a context closure handed to anyhow's with_context
                            ok = False
            r.check(ok, b.id + "|" + fs.template[:24], "label-text-used:%s" % sorted(sinks), "formatted label goes to %s" % sorted(x.rsplit("::", 1)[-1] for x in sinks), "the text of a label flows to %s: a decision could depend on how labels print" % sorted(sinks), fs.site.loc())
    r.note("%d format sites print labels" % nf)
    # to_string / parse on labels inside the algorithms
    for b in prog.lib_bodies():
        if not re.search(SCOPE, prog.enclosing_fn(b).path):
            continue
        for s in b.calls():
            d = callee_decl(callee_of(s))
            if d == "alloc::string::ToString::to_string" and any(re.search(r"^&?T$|Label<T>", x) for x in (callee_of(s).get("substs") or [])):
                r.violation(b.id, "label-to-string", "a label is turned into text inside %s" % b.path, s.loc())


def rule_component_extraction(ctx):
    prog = ctx.prog
    r = ctx.rule(
        "component-extraction",
        "component extraction ranges over *all* attacks of the source framework, keeps an attack exactly when its attacker is in the component, "
        "inserts it as (index of attacker, index of attacked); new ids are the enumeration index of the component vector that also yields the "
        "label list, so ids are compact and in the same order",
    )
    ex = None
    for b in prog.lib_bodies():
        if b.kind == "closure" or not b.path.startswith("utils::connected_components_computer"):
            continue
        if any(callee_matches(callee_of(s), r"ArgumentSet::new_with_labels$") for s in b.calls()):
            ex = b
    if not r.require_anchor(ex, "function building the component framework (ArgumentSet::new_with_labels in the component computer)"):
        return
    # attack loop
    it = [s for s in ex.calls() if callee_matches(callee_of(s), r"AAFramework::iter_attacks$")]
    ok_src = bool(it) and all(any(o.kind == "param" and o.data == 1 for o in origins(ex, s.node["args"][0])) for s in it)
    r.check(ok_src, ex.id + "|attacks", "attack-source", "iterates all attacks of the source framework (self.init_af.iter_attacks())", "the extraction does not range over all attacks of the source framework", ex.loc())
    ins = []
    for x in prog.with_closures(ex):
        for s in x.calls():
            if callee_matches(callee_of(s), r"AAFramework::new_attack_by_ids$"):
                ins.append((x, s))
    if r.check(len(ins) == 1, ex.id + "|insert", "insert-sites=%d" % len(ins), "one insertion site", loc=ex.loc()):
        x, s = ins[0]
        def which(op):
            _, calls, _ = data_deps(x, op)
            return {callee_decl(callee_of(c)).rsplit("::", 1)[-1] for c in calls if callee_matches(callee_of(c), r"aa_framework::Attack::(attacker|attacked)$")}
        a1, a2 = which(s.node["args"][1]), which(s.node["args"][2])
        r.check(a1 == {"attacker"} and a2 == {"attacked"}, ex.id + "|direction", "direction=%s/%s" % (sorted(a1), sorted(a2)), "inserted as (index of attacker, index of attacked)", "the copied attack is not (attacker, attacked)", s.loc())
        conds = conditions(x, s.bb)
        extra = []
        for c in conds:
            _, calls, _ = data_deps(x, c.place)
            srcs = {callee_decl(callee_of(cc)).rsplit("::", 1)[-1] for cc in calls if callee_matches(callee_of(cc), r"aa_framework::Attack::(attacker|attacked)$")}
            if c.is_discr and not c.negated and c.values == ["1"] and srcs == {"attacker"}:
                continue
            # the loop control of `for att in ..iter_attacks()`: the Some arm of Iterator::next
            if c.is_discr and not c.place["p"] and any(o.kind == "call" and callee_decl(o.data) == "core::iter::traits::iterator::Iterator::next" for o in origins(x, c.place, transparent=())):
                continue
            extra.append((c, sorted(srcs)))
        r.check(not extra, ex.id + "|filter", "extra-filter:%s" % [e[1] for e in extra], "the only filter is membership of the attacker", "attacks of the component are filtered by something else than membership of the attacker (some attacks are dropped)", s.loc())
        # both ids come from the same mapping table
        def table(op):
            out = set()
            _, calls, _ = data_deps(x, op)
            for c in calls:
                if callee_decl(callee_of(c)) == "core::ops::index::Index::index":
                    for o in origins(x, c.node["args"][0], transparent=("core::ops::deref::Deref::deref",)):
                        if o.kind == "upvar":
                            out.add(x.upvar_name(o.data))
                        elif o.kind in ("call", "agg", "param"):
                            out.add("local:%s" % repr(o.key()))
            return out
        r.check(table(s.node["args"][1]) == table(s.node["args"][2]) and len(table(s.node["args"][1])) == 1, ex.id + "|mapping", "mapping-tables", "both ids are read from the same id-mapping table", loc=s.loc())
    # mapping = enumerate index over the component vector; labels from the same vector
    enum_src = set()
    ENUM_T = ("core::iter::traits::iterator::Iterator::enumerate", "core::slice::iter", "core::ops::deref::Deref::deref", "core::iter::traits::collect::IntoIterator::into_iter")
    # loop form, in the function itself or in a helper that builds the table from (a slice of) the component vector:
    # `for (i, a) in component.iter().enumerate() { mapping[a.id()] = Some(i) }`
    len_form = []

    def loop_form(y):
        """parameters of y whose enumeration index is stored as the new id; None when no store is found"""
        found = None
        for st in y.sites():
            nd = st.node
            inner = None
            if st.si is not None and nd["k"] == "assign" and nd["dst"]["p"] == ["*"] and "Option<usize>" in y.local_ty(nd["dst"]["l"]):
                if nd["rv"]["k"] == "aggregate" and nd["rv"]["agg"].get("variant") == "Some":
                    inner = nd["rv"]["ops"][0]
                elif nd["rv"]["k"] == "use":
                    for o in origins(y, nd["rv"]["ops"][0], transparent=()):
                        if o.kind == "agg" and o.data.get("variant") == "Some":
                            inner = o.site.node["rv"]["ops"][0]
            if inner is None:
                continue
            found = found or set()
            # `mapping[a.id()] = Some(labels.len()); labels.push(a.label().clone())`: the new id is the position the label is about to take
            lens = [o for o in origins(y, inner, transparent=()) if o.kind == "call" and callee_decl(o.data) == "alloc::vec::Vec::len"]
            if lens and y is ex:
                from ..prov import prov as _pv, roots as _roots, subterms as _sub

                vroots = set()
                for o in lens:
                    vroots |= _roots(prog, y, o.site.node["args"][0])
                lab_roots = set()
                for s2 in y.calls():
                    if callee_matches(callee_of(s2), r"ArgumentSet::new_with_labels$"):
                        lab_roots |= _roots(prog, y, s2.node["args"][0])
                pushes = [s2 for s2 in y.calls() if callee_decl(callee_of(s2)) == "alloc::vec::Vec::push" and (_roots(prog, y, s2.node["args"][0]) & vroots) and y.reaches(st.bb, s2.bb)]
                same_elem = False
                idx_elems = set()
                for l in ([nd["dst"]["l"]]):
                    for d0 in y.defs.get(l, []):
                        if d0.si is None and callee_decl(callee_of(d0)) == "core::ops::index::IndexMut::index_mut":
                            for e in _pv(prog, y, d0.node["args"][1]):
                                idx_elems |= {t for t in _sub(e) if isinstance(t, tuple) and t[0] == "elem"}
                for s2 in pushes:
                    for e in _pv(prog, y, s2.node["args"][1]):
                        if idx_elems & {t for t in _sub(e) if isinstance(t, tuple) and t[0] == "elem"}:
                            same_elem = True
                good = bool(vroots & lab_roots) and len(pushes) == 1 and same_elem and all(len(y.in_loop(s2.bb)) == len(y.in_loop(st.bb)) for s2 in pushes)
                if good:
                    r.ok(ex.id + "|new-id", "new id = the position its label takes in the label list (length before the push)", st.loc())
                    len_form.append(st)
                    for e in idx_elems:
                        from ..prov import leaves as _lv

                        for lf in _lv(e):
                            if lf[0] == "param":
                                found.add(lf[2])
                    continue
            nexts = [o for o in origins(y, inner) if o.kind == "call" and callee_decl(o.data) == "core::iter::traits::iterator::Iterator::next" and o.fields and str(o.fields[-1]) == "0"]
            r.check(bool(nexts), ex.id + "|new-id", "new-id-source", "new id = enumeration index", "the new id of an argument is not its position in the component vector", st.loc())
            for o in nexts:
                its = origins(y, o.site.node["args"][0], transparent=ENUM_T)
                chain_has_enum = any(callee_decl(callee_of(cs)) == "core::iter::traits::iterator::Iterator::enumerate" for cs in data_deps(y, o.site.node["args"][0])[1])
                if chain_has_enum:
                    for oo in its:
                        if oo.kind == "param":
                            found.add(oo.data)
        return found

    got = loop_form(ex)
    if got:
        enum_src |= got
    for cs, t in prog.callees(ex, include_closures=False, virtual_dispatch=False):
        if t.kind == "closure" or t is ex or "Option<usize>" not in t.ret_ty:
            continue
        got = loop_form(t)
        for k in got or ():
            if k - 1 < len(cs.node["args"]):
                for o in origins(ex, cs.node["args"][k - 1], transparent=("core::ops::deref::Deref::deref", "alloc::vec::Vec::as_slice")):
                    if o.kind == "param":
                        enum_src.add(o.data)
    for x in prog.closures_of(ex):
        for st in x.sites():
            nd = st.node
            inner = None
            if st.si is not None and nd["k"] == "assign" and nd["dst"]["p"] == ["*"]:
                if nd["rv"]["k"] == "aggregate" and nd["rv"]["agg"].get("variant") == "Some":
                    inner = nd["rv"]["ops"][0]
                elif nd["rv"]["k"] == "use":
                    for o in origins(x, nd["rv"]["ops"][0], transparent=()):
                        if o.kind == "agg" and o.data.get("variant") == "Some":
                            inner = o.site.node["rv"]["ops"][0]
            if inner is not None and "Option<usize>" in x.local_ty(nd["dst"]["l"]):
                # Some(i) with i = enumerate index (tuple field 0 of the closure parameter)
                ok_i = any(o.kind == "param" and [str(f) for f in o.fields] == ["0"] for o in origins(x, inner))
                r.check(ok_i, ex.id + "|new-id", "new-id-source", "new id = enumeration index", "the new id of an argument is not its position in the component vector", st.loc())
                # iteration source in the parent
                for ps in ex.calls():
                    pc = callee_of(ps)
                    if pc and x.path in (pc.get("fn_args") or []):
                        for o in origins(ex, ps.node["args"][0], transparent=("core::iter::traits::iterator::Iterator::enumerate", "core::slice::iter", "core::ops::deref::Deref::deref")):
                            if o.kind == "param":
                                enum_src.add(o.data)
    lab_src = set()
    for s in ex.calls():
        if callee_matches(callee_of(s), r"ArgumentSet::new_with_labels$"):
            seen, calls, _ = data_deps(ex, s.node["args"][0])
            for l in seen:
                if 1 <= l <= ex.n_args:
                    lab_src.add(l)
    # the label list is the component vector gone through in order, element by element: no adaptor that reorders or drops
    _REORDER = r"Iterator::(rev|skip|take|filter|filter_map|step_by|skip_while|take_while|chain|zip|scan|flat_map)$|slice::.*(sort|sort_by|sort_by_key|sort_unstable|reverse)$|Vec.*::(dedup|retain|swap_remove|remove|truncate|reverse|sort)$"
    for s in ex.calls():
        if callee_matches(callee_of(s), r"ArgumentSet::new_with_labels$"):
            _, lcalls, _ = data_deps(ex, s.node["args"][0])
            bad = sorted({callee_decl(callee_of(c)).rsplit("::", 1)[-1] for c in lcalls if re.search(_REORDER, callee_decl(callee_of(c)) or "")})
            # calls made on the label vector itself after it was collected
            held, _, _ = data_deps(ex, s.node["args"][0], through_calls=False)
            for c in ex.calls():
                if re.search(_REORDER, callee_decl(callee_of(c)) or "") and c.node["args"] and any(l in held for l in data_deps(ex, c.node["args"][0], through_calls=False)[0]):
                    bad = sorted(set(bad) | {callee_decl(callee_of(c)).rsplit("::", 1)[-1]})
            r.check(not bad, ex.id + "|label-order", "labels-reordered:%s" % bad, "the label list is the component vector in order, element by element", "the label list handed to new_with_labels goes through %s: the position of a label is no longer the new id given to its argument (enumeration index of the component vector)" % bad, s.loc())
    if len_form and not lab_src:
        r.ok(ex.id + "|order", "ids are the positions of the labels in the list handed to new_with_labels", ex.loc())
    else:
        r.check(enum_src and enum_src <= lab_src and len(enum_src) == 1, ex.id + "|order", "order:%s/%s" % (sorted(enum_src), sorted(lab_src)), "ids and labels are derived from the same component vector in the same order", "new ids and labels are not derived from the same vector: ids would not match argument positions", ex.loc())
    # the merged component of a list of arguments is searched from every listed argument
    from .. import tags as _tags

    for b in prog.lib_bodies():
        if b.kind == "closure" or not b.path.startswith("utils::connected_components_computer"):
            continue
        lp = {i for i in range(1, b.n_args + 1) if re.match(r"^&\[&", b.local_ty(i))}
        if not lp:
            continue
        for y in prog.with_closures(b):
            if not any(re.search(r"find_connected_component_of$", callee_decl(callee_of(c)) or "") for c in y.calls()):
                continue
            if y is b:
                # a loop in the function itself
                for nx in b.calls():
                    if callee_decl(callee_of(nx)) == "core::iter::traits::iterator::Iterator::next":
                        k = _tags.list_kind(prog, b, nx.node["args"][0], lp)
                        if k in ("FULL", "PARTIAL"):
                            r.check(k == "FULL", b.id + "|merged-list", "merged-list-partial", "the search starts from every listed argument", "the merged component is searched from a part of the listed arguments only: the components of the others are missing from the sub-framework the query is answered on", nx.loc())
                continue
            for ps in b.calls():
                pc = callee_of(ps)
                if pc and y.path in (pc.get("fn_args") or []) and ps.node["args"]:
                    k = _tags.list_kind(prog, b, ps.node["args"][0], lp)
                    if k == "OTHER":
                        r.ok(b.id + "|merged-list", "NOT decided: the closure searching the components is not applied to the listed arguments as such", ps.loc())
                    else:
                        r.check(k == "FULL", b.id + "|merged-list", "merged-list-partial", "the search starts from every listed argument", "the merged component is searched from a part of the listed arguments only: the components of the others are missing from the sub-framework the query is answered on", ps.loc())
    # the component vector has no duplicates: membership flag set before push
    fcc = None
    for b in prog.lib_bodies():
        if b.kind != "closure" and b.path.startswith("utils::connected_components_computer") and b.ret_ty.startswith("alloc::vec::Vec<&") and any(callee_matches(callee_of(s), r"AAFramework::iter_attacks_(from|to)$") for s in b.calls()):
            fcc = b
    if r.require_anchor(fcc, "breadth-first search collecting a component"):
        both = {callee_decl(callee_of(s)).rsplit("::", 1)[-1] for s in fcc.calls() if callee_matches(callee_of(s), r"AAFramework::iter_attacks_(from|to)$")}
        r.check(both == {"iter_attacks_from", "iter_attacks_to"}, fcc.id + "|undirected", "directions=%s" % sorted(both), "the search follows attacks in both directions", "the component search follows attacks in one direction only: weakly connected arguments are split", fcc.loc())


# ------------------------------------------------------------------------------------------
# grounded propagation: counters count stored attacks with the multiplicity the propagation uses

_SHRINKING = r"alloc::vec::Vec::(dedup|dedup_by|dedup_by_key|retain|retain_mut|truncate|drain|pop|remove|swap_remove|clear)$"


def _unfiltered_source(prog, body, op, want, depth=0):
    """does the iterator / collection operand enumerate exactly the elements of an unfiltered `want`
    (regex on the callee) call?  returns (True, site) / (False, reason)"""
    from .. import tags

    if depth > 6:
        return False, "depth"
    os_ = origins(body, op, transparent=tags.ELEMENT_PRESERVING + ("core::iter::traits::iterator::Iterator::enumerate",))
    if not os_:
        return False, "no origin"
    res = None
    for o in os_:
        if o.kind == "call" and callee_matches(o.data, want):
            res = o.site
            continue
        if o.kind == "call" and callee_decl(o.data) == "core::iter::traits::iterator::Iterator::map":
            ok, why = _unfiltered_source(prog, body, o.site.node["args"][0], want, depth + 1)
            if not ok:
                return False, why
            res = why
            continue
        if o.kind == "call" and callee_decl(o.data) in ("alloc::vec::Vec::new", "alloc::vec::Vec::with_capacity"):
            return False, "a vector filled by hand"
        if o.kind == "call":
            return False, "through " + callee_decl(o.data)
        return False, o.kind
    # a collected vector must not be shrunk afterwards
    p = op_place(op)
    return True, res


def _vec_shrunk(body, op):
    for o in origins(body, op, transparent=("core::ops::deref::Deref::deref",)):
        if o.kind == "call" and o.site is not None:
            for s in body.mut_call_defs.get(o.site.node["dst"]["l"], []):
                if callee_matches(callee_of(s), _SHRINKING):
                    return callee_decl(callee_of(s))
    return None


def rule_attack_multiplicity(ctx):
    prog = ctx.prog
    r = ctx.rule(
        "attack-multiplicity",
        "the grounded propagation initialises each argument's attacker counter with the number of *stored* attacks on it (an unfiltered "
        "`iter_attacks_to(arg)` counted) and decrements it once per element of an unfiltered `iter_attacks_from(defeated)`: both sides see a "
        "repeated attack declaration with the same multiplicity, so repeating a declaration cannot change the grounded extension",
    )
    fns = []
    for b in prog.lib_bodies():
        if b.kind == "closure" or not b.path.startswith("utils::"):
            continue
        bodies = prog.with_closures(b)
        has_to = any(callee_matches(callee_of(s), r"AAFramework::iter_attacks_to$") for x in bodies for s in x.calls())
        has_from = any(callee_matches(callee_of(s), r"AAFramework::iter_attacks_from$") for x in bodies for s in x.calls())
        if has_to and has_from:
            fns.append(b)
    entry = [b for b in prog.lib_bodies() if b.kind != "closure" and b.path.startswith("utils::grounded_extension_computer::") and prog.callers_of(b) and any(not c.body.path.startswith("utils::grounded_extension_computer::") for c in prog.callers_of(b))]
    for e in entry:
        for x in prog.reachable_from([e], virtual_dispatch=False).values():
            if x.kind != "closure" and x.path.startswith("utils::grounded_extension_computer::") and x not in fns:
                fns.append(x)
    if not r.require_anchor(fns, "a function in utils:: that iterates both iter_attacks_to and iter_attacks_from (the grounded propagation)"):
        return
    n_init = n_dec = 0
    for fn in fns:
        bodies = prog.with_closures(fn)
        # counter vectors: Vec<usize> locals of fn captured by reference into closures, or used directly
        for b in bodies:
            for s in b.sites():
                n = s.node
                if s.si is None or n["k"] != "assign":
                    continue
                rv = n["rv"]
                # decrement: x = Sub(x, 1) stored (directly or through the checked-arithmetic tuple)
                if rv["k"] == "binop" and rv["op"] in ("Sub", "SubWithOverflow", "SubUnchecked"):
                    k = op_const(rv["ops"][1])
                    if k is None or k.get("int") != 1:
                        continue
                    src = op_place(rv["ops"][0])
                    if src is None:
                        continue
                    if "*" not in [str(e) for e in src["p"]][:1] and not src["p"]:
                        # a plain local counter (e.g. loop index arithmetic) - not an indexed element - unless it is a copy of one (`match v[i] { 1 => .., n => v[i] = n - 1 }`)
                        so = origins(b, rv["ops"][0], transparent=(), index_origins=True)
                        if not (so and all(o.kind == "index" or (o.kind == "call" and re.search(r"ops::index::Index(Mut)?::index(_mut)?$", callee_decl(o.data) or "")) for o in so)):
                            continue
                    n_dec += 1
                    anchor = "%s|decrement#%d" % (b.id, n_dec)
                    ok, why = _decrement_iteration(prog, b, s)
                    r.check(ok, anchor, "decrement-iteration", "the decrement runs once per element of an unfiltered iter_attacks_from(..)", "the counter is decremented %s: a repeated attack is no longer counted on this side as it is on the other" % why, s.loc())
        # initialisation: Iterator::count / Vec::len whose value is stored into an indexed element
        for b in bodies:
            for s in b.sites():
                n = s.node
                if s.si is None or n["k"] != "assign" or not n["dst"]["p"] or str(n["dst"]["p"][0]) != "*":
                    continue
                if b.local_ty(n["dst"]["l"]).replace("&mut ", "").strip() != "usize":
                    continue
                if n["rv"]["k"] != "use" or op_place(n["rv"]["ops"][0]) is None:
                    continue
                # what is stored
                srcs = origins(b, n["rv"]["ops"][0], transparent=())
                if not srcs or any(o.kind in ("binop", "const") for o in srcs):
                    continue
                n_init += 1
                anchor = "%s|init#%d" % (b.id, n_init)
                bad = None
                for o in srcs:
                    if o.kind == "call" and callee_decl(o.data) == "core::iter::traits::iterator::Iterator::count":
                        ok, why = _unfiltered_source(prog, b, o.site.node["args"][0], r"AAFramework::iter_attacks_to$")
                        if not ok:
                            bad = "a count of a filtered / other iteration (%s)" % why
                    elif o.kind == "call" and callee_decl(o.data) in ("alloc::vec::Vec::len",):
                        ok, why = _unfiltered_source(prog, b, o.site.node["args"][0], r"AAFramework::iter_attacks_to$")
                        sh = _vec_shrunk(b, o.site.node["args"][0])
                        if not ok:
                            bad = "the length of something else than the collected iter_attacks_to (%s)" % why
                        elif sh:
                            bad = "the length of a vector shrunk by %s" % sh
                    else:
                        bad = "not a count of iter_attacks_to (%s)" % o.kind
                r.check(bad is None, anchor, "counter-init", "the counter starts as the number of stored attacks (unfiltered iter_attacks_to counted)", "the counter starts as %s while the propagation decrements once per stored attack" % bad, s.loc())
    r.floor(n_init, 1, "counter initialisations")
    r.floor(n_dec, 1, "counter decrements")


def _decrement_iteration(prog, b, site, _depth=0):
    """the decrement site lies in a closure handed to for_each over an unfiltered iter_attacks_from,
    or inside a loop driven by Iterator::next of one"""
    if b.kind == "closure" and b.parent:
        par = prog.by_target[b.target].get(b.parent["direct"])
        if par is not None:
            for ps in par.calls():
                pc = callee_of(ps)
                if pc and b.path in (pc.get("fn_args") or []):
                    if callee_decl(pc) != "core::iter::traits::iterator::Iterator::for_each":
                        return False, "inside a closure handed to %s" % callee_decl(pc)
                    ok, why = _unfiltered_source(prog, par, ps.node["args"][0], r"AAFramework::iter_attacks_from$")
                    return (True, "") if ok else (False, "per element of a filtered / other iteration (%s)" % why)
    # loop form
    for header, blocks in b.loops():
        if site.bb in blocks:
            for bb in blocks:
                for s in b.calls():
                    if s.bb == bb and callee_decl(callee_of(s)) == "core::iter::traits::iterator::Iterator::next":
                        ok, why = _unfiltered_source(prog, b, s.node["args"][0], r"AAFramework::iter_attacks_from$")
                        if ok:
                            return True, ""
            return False, "in a loop that is not driven by an unfiltered iter_attacks_from"
    # a helper that lowers one counter per call: judged where it is called
    if b.kind != "closure" and _depth < 3:
        cs = prog.callers_of(b)
        if cs:
            res = [_decrement_iteration(prog, c.body, c, _depth + 1) for c in cs]
            bad = [w for ok, w in res if not ok]
            return (True, "") if not bad else (False, bad[0] + " (at a call of %s)" % b.path.rsplit("::", 1)[-1])
    return False, "outside any iteration over iter_attacks_from"


def rule_component_traversal(ctx):
    """C11 (and the per-component solving of C01-C03): the search that collects one connected component"""
    prog = ctx.prog
    from ..prov import prov, show, subterms, roots
    from .grounded import inherited_conditions, _cond_trees, _is_call
    from .equiv import _stores_through

    r = ctx.rule(
        "component-traversal",
        "the search collecting a connected component: the neighbour taken from an attack is its other end (the target of an attack from the "
        "visited argument, the source of an attack to it); a neighbour met for the first time (`not marked`) is, in that same step, marked, "
        "added to the component and put on the work list the search pops from - so the component is closed under attacks in both directions "
        "and holds every argument once",
    )
    fcc = None
    for b in prog.lib_bodies():
        if b.kind != "closure" and b.path.startswith("utils::connected_components_computer") and b.ret_ty.startswith("alloc::vec::Vec<&") and any(callee_matches(callee_of(s), r"AAFramework::iter_attacks_(from|to)$") for y in prog.with_closures(b) for s in y.calls()):
            fcc = b
    if fcc is None:
        r.ok("traversal", "NOT decided: no function of the component computer returning the collected arguments while following attacks", None)
        return
    bodies = prog.with_closures(fcc)
    comp_roots = roots(prog, fcc, {"l": 0, "p": []})
    work_roots = set()
    for y in bodies:
        for s in y.calls():
            if callee_decl(callee_of(s)) in ("alloc::vec::Vec::pop", "alloc::collections::vec_deque::VecDeque::pop_front", "alloc::collections::vec_deque::VecDeque::pop_back", "alloc::vec::Vec::swap_remove", "alloc::vec::Vec::remove"):
                work_roots |= roots(prog, y, s.node["args"][0])
    pushes, marks = [], []
    for y in bodies:
        for s in y.calls():
            d = callee_decl(callee_of(s))
            if d in ("alloc::vec::Vec::push", "alloc::collections::vec_deque::VecDeque::push_back", "alloc::collections::vec_deque::VecDeque::push_front"):
                pushes.append((y, s, roots(prog, y, s.node["args"][0]), frozenset(prov(prog, y, s.node["args"][1])), _cond_trees(prog, inherited_conditions(prog, y, s.bb))))
            if d == "core::ops::index::IndexMut::index_mut" and "bool" in str(callee_of(s).get("substs")) and any((op_const(o) or {}).get("bool") is True for o in _stores_through(y, s)):
                marks.append((y, s, frozenset(prov(prog, y, s.node["args"][1])), _cond_trees(prog, inherited_conditions(prog, y, s.bb))))
    n = 0
    for y, s, rts, vals, conds in pushes:
        if not (rts & comp_roots):
            continue
        ends = set()
        dirs = set()
        elems = set()
        unknown = False
        for v in vals:
            vv = v
            if _is_call(vv, r"aa_framework::Attack::(attacker|attacked)$", 1) and vv[2][0][0] == "elem":
                ends.add(vv[1].rsplit("::", 1)[-1])
                elems.add(vv[2][0])
                for t in subterms(vv[2][0][1]):
                    if _is_call(t, r"AAFramework::iter_attacks_(from|to)(_id)?$"):
                        dirs.add("from" if "_from" in t[1] else "to")
            else:
                unknown = True
        anchor = "%s|neighbour" % fcc.id
        n += 1
        if unknown or not dirs:
            r.ok(anchor, "NOT decided: the value added to the component is not an end of an iterated attack (%s)" % "; ".join(show(v)[:60] for v in list(vals)[:2]), s.loc())
            continue
        need = ({"attacked"} if "from" in dirs else set()) | ({"attacker"} if "to" in dirs else set())
        r.check(need <= ends, anchor, "other-end:%s/%s" % (sorted(dirs), sorted(ends)), "the neighbour is the other end of the attack", "the search follows attacks %s the visited argument but only ever takes the %s of an attack as the neighbour: in one direction it finds the visited argument itself and never its neighbour" % (" and ".join("from" if d == "from" else "to" for d in sorted(dirs)), "/".join(sorted(ends))), s.loc())
        # first-visit guard
        guard = [(c, t) for c, t in conds if _is_call(c, r"Index::index$", 2) and any(e in subterms(c[2][1]) for e in elems)]
        if not guard:
            r.ok(anchor + "|first-visit", "NOT decided: no `marked` test on the neighbour governs the addition", s.loc())
            continue
        r.check(all(t is False for c, t in guard), anchor + "|first-visit", "guard-polarity", "added when not marked yet", "the neighbour is added to the component when it is *already* marked", s.loc())
        marked = any(all(g in mc for g in guard) and any(e in subterms(i) for i in mi for e in elems) for y2, s2, mi, mc in marks)
        r.check(marked, anchor + "|marked", "neighbour-not-marked", "the neighbour is marked in the same step", "a neighbour added to the component is not marked as visited in that step: it is added again at every later attack that reaches it (the component holds it several times)", s.loc())
        if work_roots:
            queued = any((rts2 & work_roots) and not (rts2 & comp_roots) and vals2 == vals and all(g in c2 for g in guard) for y2, s2, rts2, vals2, c2 in pushes)
            same_vec = bool(rts & work_roots)
            r.check(queued or same_vec, anchor + "|queued", "neighbour-not-queued", "the neighbour is put on the work list in the same step", "a neighbour added to the component is not put on the work list: its own attacks are never followed, the component is not closed", s.loc())
        else:
            r.ok(anchor + "|queued", "NOT decided: no work list (a vector the search pops from) recognised", s.loc())
    if n == 0:
        r.ok("%s|neighbour" % fcc.id, "NOT decided: no addition to the returned vector found", fcc.loc())
    # merging the components of several listed arguments: each traversal result is added to what is extracted, none replaces it
    for b in sorted(prog.lib_bodies(), key=lambda x: x.id):
        if b.kind == "closure" or not b.path.startswith("utils::connected_components_computer"):
            continue
        exs = [s for s in b.calls() if prog.body_for_callee(callee_of(s), b) is not None and any(callee_matches(callee_of(x), r"ArgumentSet::new_with_labels$") for x in prog.body_for_callee(callee_of(s), b).calls())]
        trav_in_iteration = [(y, s) for y in prog.with_closures(b) for s in y.calls() if prog.body_for_callee(callee_of(s), y) is fcc and (y is not b or y.in_loop(s.bb))]
        if not exs or not trav_in_iteration:
            continue
        for ex in exs:
            arg = [a for a in ex.node["args"][1:] if op_place(a) is not None]
            if not arg:
                continue
            rts = roots(prog, b, arg[0])
            # does a traversal result *become* the vector (assignment), instead of being appended to it?
            replaced = False
            for y, s in trav_in_iteration:
                dst = s.node["dst"]["l"]
                for st in y.sites():
                    nd = st.node
                    if st.si is not None and nd["k"] == "assign" and nd["rv"]["k"] == "use" and nd["dst"]["p"] == ["*"]:
                        q = op_place(nd["rv"]["ops"][0])
                        if q is not None and q["l"] == dst and not q["p"] and (roots(prog, y, {"l": nd["dst"]["l"], "p": []}) & rts):
                            replaced = True
                    if st.si is not None and nd["k"] == "assign" and nd["rv"]["k"] == "use" and not nd["dst"]["p"] and y is b:
                        q = op_place(nd["rv"]["ops"][0])
                        if q is not None and q["l"] == dst and not q["p"] and ("site", y.id, s.bb, s.si) in rts:
                            replaced = True
            r.check(not replaced, "%s|merge" % b.id, "component-replaces-the-others", "the component of each listed argument is added to the merged set", "in %s the component found for a listed argument replaces what was collected for the earlier ones: only the last component reaches the extraction, and the other listed arguments are not in the framework that is solved" % b.path.rsplit("::", 1)[-1], ex.loc())
