"""C08: clause shapes of the attack-assumption dynamic encoder (F12 on provenance trees, F16).

The encoder writes a dense encoding over n argument slots: variables x (slot in the set), att(v,w) ("slot w attacks slot v",
switched by assumptions), disj(x) (complete semantics: some attacker of x is in) and one fresh auxiliary per pair.  Every
literal handed to add_clause is evaluated to a polynomial over the two loop variables (outer v, inner w), the slot count n and
n_vars(), and classified by comparing polynomials - so the rule does not depend on how the arithmetic is written."""
import re

from ..core import callee_of, callee_decl, callee_matches, op_place, op_const, origins
from ..flow import conditions
from ..prov import prov, show, subterms
from .dyn import dyn_impls


# ---- polynomials over symbols (dict: monomial (sorted tuple of symbols) -> coefficient)


def P(c=0):
    return {(): c} if c else {}


def sym(s):
    return {(s,): 1}


def padd(a, b, k=1):
    out = dict(a)
    for m, c in b.items():
        out[m] = out.get(m, 0) + k * c
        if out[m] == 0:
            del out[m]
    return out


def pmul(a, b):
    out = {}
    for m1, c1 in a.items():
        for m2, c2 in b.items():
            m = tuple(sorted(m1 + m2, key=repr))
            out[m] = out.get(m, 0) + c1 * c2
            if out[m] == 0:
                del out[m]
    return out


class Unknown(Exception):
    pass


def poly(e, usize_fields):
    """polynomial of an integer provenance tree"""
    if e[0] == "const":
        if isinstance(e[1], int) and not isinstance(e[1], bool):
            return P(e[1])
        raise Unknown("constant %r" % (e[1],))
    if e[0] == "param":
        if e[2] == 1 and len(e[3]) == 1 and e[3][0] in usize_fields:
            return sym(("field", e[3][0]))
        raise Unknown(show(e))
    if e[0] == "elem":
        src = e[1]
        rng = None
        if src[0] == "call" and re.search(r"RangeInclusive(::<.*>)?::new$", src[1]) and len(src[2]) == 2:
            rng = (src[2][0], src[2][1], True)
        elif src[0] == "agg" and str(src[1]) in ("Range", "struct", "adt") and len(src[2]) == 2:
            rng = (src[2][0], src[2][1], False)
        if rng is None:
            raise Unknown("element of " + show(src)[:60])
        return sym(("x", e[2], repr(rng)))
    if e[0] == "field" and e[2] == "0" and e[1][0] == "op" and e[1][1].endswith("WithOverflow"):
        return poly(("op", e[1][1][: -len("WithOverflow")], e[1][2]), usize_fields)
    if e[0] == "op":
        a, b = (poly(x, usize_fields) for x in e[2][:2]) if len(e[2]) == 2 else (None, None)
        if e[1] == "Add":
            return padd(a, b)
        if e[1] == "Sub":
            return padd(a, b, -1)
        if e[1] == "Mul":
            return pmul(a, b)
        raise Unknown("operator " + e[1])
    if e[0] == "call":
        if e[1].endswith("SatSolver::n_vars"):
            return sym(("nvars",))
        if e[1].endswith("Index::index") and len(e[2]) == 2 and e[2][0][0] == "param" and e[2][0][2] == 1:
            roles = [t[1].rsplit("::", 1)[-1] for t in subterms(e[2][1]) if isinstance(t, tuple) and t[0] == "call" and re.search(r"::(attacker|attacked)$", t[1])]
            if len(roles) == 1:
                return sym(("slot", roles[0]))
        raise Unknown("call " + e[1].rsplit("::", 1)[-1])
    raise Unknown(show(e)[:60])


def literal_form(prog, body, op, usize_fields):
    """[(sign, polynomial)] of a Literal operand"""
    out = []
    for e in prov(prog, body, op):
        sign = "+"
        while e[0] == "call" and e[1].endswith("Literal::negate") and e[2]:
            sign = "-" if sign == "+" else "+"
            e = e[2][0]
        if e[0] == "call" and re.search(r"convert::(From::from|Into::into)$", e[1]) and e[2]:
            try:
                out.append((sign, poly(e[2][0], usize_fields)))
            except Unknown as u:
                out.append((sign, ("?", str(u))))
        else:
            out.append((sign, ("?", show(e)[:50])))
    return out


def vec_elements(prog, body, op, depth=0):
    """[(body, operand, many)] the Literal operands a Vec<Literal> is made of: the array of a `vec![..]`, pushes in this body and in
    closures that capture the vector"""
    from ..tags import _closure_capture_operand

    out = []
    locals_ = set()
    for o in origins(body, op, transparent=()):
        if o.kind == "call":
            d = callee_decl(o.data)
            locals_.add(o.site.node["dst"]["l"])
            if d == "alloc::boxed::box_assume_init_into_vec_unsafe":
                for oo in origins(body, o.site.node["args"][0], transparent=()):
                    if oo.kind == "call" and oo.site is not None:
                        for st in body.ptr_store_defs.get(oo.site.node["dst"]["l"], []):
                            rv = st.node["rv"]
                            if rv["k"] == "aggregate" and rv["agg"]["kind"] == "array":
                                out += [(body, x, False) for x in rv["ops"]]
            elif d in ("alloc::vec::Vec::new", "alloc::vec::Vec::with_capacity"):
                pass
            else:
                out.append((body, None, False))
        elif o.kind == "upvar" and depth < 3:
            par, cap = _closure_capture_operand(prog, body, o.data)
            if cap is not None:
                out += vec_elements(prog, par, cap, depth + 1)
        elif o.kind in ("undef", "partial"):
            continue
        else:
            out.append((body, None, False))
    # aliases (moves of the vector) and pushes
    changed = True
    while changed:
        changed = False
        for s in body.sites():
            n = s.node
            if s.si is not None and n["k"] == "assign" and n["rv"]["k"] == "use" and not n["dst"]["p"]:
                q = op_place(n["rv"]["ops"][0])
                if q is not None and not q["p"] and ((q["l"] in locals_) != (n["dst"]["l"] in locals_)):
                    locals_ |= {q["l"], n["dst"]["l"]}
                    changed = True
    created = [d.bb for l in locals_ for d in body.defs.get(l, []) if d.si is None]
    loops_ = dict(body.loops())
    for s in body.calls():
        if callee_decl(callee_of(s)) == "alloc::vec::Vec::push" and any(o.kind in ("call",) and o.site.node["dst"]["l"] in locals_ for o in origins(body, s.node["args"][0], transparent=())):
            # "many" = pushed in a loop the vector outlives (a vector created inside the loop body is a new clause each time round)
            many = any(not any(cb in loops_[h] for cb in created) for h in body.in_loop(s.bb)) if created else bool(body.in_loop(s.bb))
            out.append((body, s.node["args"][1], many))
    for clo in prog.closures_of(body):
        for u in clo.upvars:
            par, cap = _closure_capture_operand(prog, clo, u["field"])
            if par is not body or cap is None:
                continue
            if not any(o.kind == "call" and o.site.node["dst"]["l"] in locals_ for o in origins(body, cap, transparent=())):
                continue
            for s in clo.calls():
                if callee_decl(callee_of(s)) == "alloc::vec::Vec::push" and any(o.kind == "upvar" and o.data == u["field"] for o in origins(clo, s.node["args"][0], transparent=())):
                    out.append((clo, s.node["args"][1], True))
    return out


REF_ST = {
    "[+x(v) +aux*]",
    "[+x(w) -aux]",
    "[+att(v,w) -aux]",
    "[+aux -att(v,w) -x(w)]",
    "[-att(v,w) -x(v) -x(w)]",
}
REF_CO = {
    "[-disj(v) -x(v)]",
    "[+x(v) +aux*]",
    "[-aux -disj(w)]",
    "[+att(v,w) -aux]",
    "[+aux +disj(w) -att(v,w)]",
    "[+disj(w) -att(v,w) -x(v)]",
    "[+aux* -disj(v)]",
    "[+x(w) -aux]",
    "[+aux -att(v,w) -x(w)]",
    "[+disj(v) -att(v,w) -x(w)]",
}


def _norm(ref):
    return {"[" + " ".join(sorted(x[1:-1].split(" "))) + "]" for x in ref}


REF_ST = _norm(REF_ST)
REF_CO = _norm(REF_CO)


def _is_outer(prog, a, b):
    """iteration `a` encloses iteration `b` (closure nesting, or dominance of the next() sites of loops in one body)"""
    if a == b:
        return False
    pa, _, ba = a.partition("@bb")
    pb, _, bb_ = b.partition("@bb")
    if ba and bb_ and pa == pb:
        body = prog.lib(pa)
        if body is None:
            return False
        from ..core import Site

        return body.dominates(Site(body, int(ba), None), Site(body, int(bb_), None))
    if not ba and not bb_:
        return pb.startswith(pa + "::")
    if ba and not bb_:
        return pb.startswith(pa + "::")
    return pb == pa or pb.startswith(pa + "::")


def rule_attack_assumption_templates(ctx):
    prog = ctx.prog
    r = ctx.rule(
        "attack-assumption-templates",
        "attack-assumption encoder: every literal handed to add_clause by the full encodings is a polynomial in the two slot variables (v outer, "
        "w inner), the slot count n and n_vars(); classified as x(.) = slot, att(v,w) = n*v + w, disj(.) = . + n + n*n, aux = n_vars()+1, the "
        "clause sets are exactly those of the stable resp. complete encoding with switchable attacks (aux <-> w AND att(v,w); v OR some aux; "
        "conflict-freeness under att; for CO the same over disj); the assumption of an attack attacker->attacked is the positive literal "
        "att(slot(attacked), slot(attacker)) inside the block of n*n assumption variables that are negative by default",
    )
    enc = None
    for b in prog.lib_bodies():
        if b.kind != "closure" and b.impl and "assumptions_on_attacks" in (b.impl.get("self_adt") or "") and b.path.endswith("::assumptions"):
            enc = b.impl.get("self_adt")
    if not r.require_anchor(enc, "the attack-assumption encoder (a type under dynamics::assumptions_on_attacks with an `assumptions` method)"):
        return
    adt = prog.adt(enc)
    usize_fields = {f["name"] for v in adt["variants"] for f in v["fields"] if f["ty"] == "usize"}
    methods = [b for b in prog.lib_bodies() if b.kind != "closure" and b.impl and b.impl.get("self_adt") == enc]
    # the full encodings: methods replacing the solver and adding clauses; which semantics: the arm of the dispatcher that calls them
    sem = prog.adt("aa::problem::Semantics")
    sidx = {str(v["idx"]): v["name"] for v in sem["variants"]}
    modes = {}
    for b in methods:
        for s in b.calls():
            t = prog.body_for_callee(callee_of(s), b) if callee_of(s) else None
            if t is None or t not in methods:
                continue
            for c in conditions(b, s.bb):
                if c.is_discr and not c.negated and len(c.values) == 1 and c.values[0] in sidx:
                    from .satlayer import place_ty

                    if place_ty(b, c.place).replace("&", "").strip() == "aa::problem::Semantics":
                        modes[t.id] = (sidx[c.values[0]], t)
    n_enc = 0
    for tid, (mode, fn) in sorted(modes.items()):
        sites = [(y, s) for y in prog.with_closures(fn) for s in y.calls() if callee_matches(callee_of(s), r"SatSolver::add_clause$")]
        if not sites:
            via = [t for t in prog.reachable_from([fn], virtual_dispatch=False).values() if t.kind != "closure" and t is not fn and t in methods and any(callee_matches(callee_of(x), r"SatSolver::add_clause$") for y in prog.with_closures(t) for x in y.calls())]
            if via:
                n_enc += 1
                r.ok("%s|%s" % (enc.rsplit("::", 1)[-1], mode), "NOT decided: the clauses of the %s encoding are added by shared helper methods (%s) with the literals handed in by closures / parameters" % (mode, ", ".join(sorted({t.path.rsplit("::", 1)[-1] for t in via})[:3])), fn.loc())
            continue
        ref = {"ST": REF_ST, "CO": REF_CO}.get(mode)
        if ref is None:
            r.ok(fn.id, "NOT decided: no reference clause set for semantics %s" % mode, fn.loc())
            continue
        n_enc += 1
        got = set()
        undecided = []
        per_site = []
        all_tags = set()
        for y, s in sites:
            forms = []
            for eb, eop, many in vec_elements(prog, y, s.node["args"][1]):
                if eop is None:
                    forms.append(("?", ("?", "element"), False))
                    continue
                for sg, pl in literal_form(prog, eb, eop, usize_fields):
                    forms.append((sg, pl, many))
                    if isinstance(pl, dict):
                        all_tags |= {x[1] for m in pl for x in m if x[0] == "x"}
            per_site.append((y, s, forms))
        inner = {t for t in all_tags if any(_is_outer(prog, u, t) for u in all_tags)}
        for y, s, forms in per_site:
            tags_ = {x[1] for sg, pl, many in forms if isinstance(pl, dict) for m in pl for x in m if x[0] == "x"}
            ws = sorted(t for t in tags_ if t in inner)
            vs = sorted(t for t in tags_ if t not in inner)
            if len(ws) > 1 or len(vs) > 1:
                undecided.append((s, "more than two iteration variables"))
                continue
            w = ws[0] if ws else None
            v = vs[0] if vs else None
            txt = []
            for sg, pl, many in forms:
                fam = _family(pl, v, w)
                if fam is None:
                    undecided.append((s, pl))
                    fam = "?"
                txt.append("%s%s%s" % (sg, fam, "*" if many else ""))
            got.add("[" + " ".join(sorted(txt)) + "]")
        anchor = "%s|%s" % (enc.rsplit("::", 1)[-1], mode)
        if undecided:
            r.ok(anchor, "NOT decided: %d literal(s) not evaluated to a polynomial (%s)" % (len(undecided), str(undecided[0][1])[:80]), undecided[0][0].loc())
            continue
        missing = sorted(ref - got)
        extra = sorted(got - ref)
        r.check(not missing and not extra, anchor, "missing=%s extra=%s" % (missing, extra), "%d clause sites give exactly the %d clause shapes of the %s encoding with switchable attacks" % (len(sites), len(ref), mode), "the %s encoding of the attack-assumption encoder does not issue the reference clause shapes: missing %s, unexpected %s" % (mode, missing, extra), fn.loc())
    r.floor(n_enc, 2, "full encodings of the attack-assumption encoder (CO, ST)")
    # the assumptions vector
    ab = [b for b in methods if b.path.endswith("::assumptions")][0]
    n_as = 0
    for y in prog.with_closures(ab):
        for s in y.calls():
            if callee_decl(callee_of(s)) != "core::ops::index::IndexMut::index_mut":
                continue
            n_as += 1
            anchor = "%s|attack-assumption" % ab.id
            try:
                idx = [poly(e, usize_fields) for e in prov(prog, y, s.node["args"][1])]
            except Unknown as u:
                r.ok(anchor, "NOT decided: index of the assumption not evaluated (%s)" % u, s.loc())
                continue
            from .equiv import _stores_through

            vals = []
            for op in _stores_through(y, s):
                vals += literal_form(prog, y, op, usize_fields)
            if len(idx) != 1 or len(vals) != 1 or not isinstance(vals[0][1], dict):
                r.ok(anchor, "NOT decided: assumption store not resolved", s.loc())
                continue
            nsym = [m for m in _field_syms(vals[0][1]) | _field_syms(idx[0])]
            n_ = sym(nsym[0]) if len(nsym) == 1 else None
            if n_ is None:
                r.ok(anchor, "NOT decided: slot count not identified", s.loc())
                continue
            want = padd(pmul(n_, sym(("slot", "attacked"))), sym(("slot", "attacker")))
            r.check(vals[0][0] == "+" and vals[0][1] == want, anchor, "literal:%s%s" % (vals[0][0], _pshow(vals[0][1])), "an attack sets +att(slot(attacked), slot(attacker)) = n*slot(attacked) + slot(attacker)", "the assumption set for an attack is %s%s, not +(n*slot(attacked) + slot(attacker)): the encoding reads it as `w attacks v` with v = %s" % (vals[0][0], _pshow(vals[0][1]), "the other end"), s.loc())
            # position in the vector: literal - n - 1
            r.check(padd(padd(vals[0][1], n_, -1), P(1), -1) == idx[0], anchor, "position:%s" % _pshow(idx[0]), "stored at position literal - n - 1 of the block starting at variable n+1", "the assumption is stored at position %s, which is not `its variable - n - 1`: another attack's default assumption is overwritten" % _pshow(idx[0]), s.loc())
    r.floor(n_as, 1, "stores into the assumption vector")


def _field_syms(pl):
    return {x for m in pl for x in m if x[0] == "field"}


def _pshow(pl):
    if not isinstance(pl, dict):
        return str(pl)
    out = []
    for m, c in sorted(pl.items(), key=repr):
        names = ["slot(%s)" % x[1] if x[0] == "slot" else ("n" if x[0] == "field" else ("nvars" if x[0] == "nvars" else "x")) for x in m]
        out.append(("%d" % c if not names else ("" if c == 1 else "%d*" % c) + "*".join(names)))
    return " + ".join(out) or "0"


def _family(pl, v, w):
    if not isinstance(pl, dict):
        return None
    fields = sorted(_field_syms(pl), key=repr)
    xs = {}
    for m in pl:
        for x in m:
            if x[0] == "x":
                xs[x[1]] = x
    X = {}
    if v is not None and v in xs:
        X["v"] = sym(xs[v])
    if w is not None and w in xs:
        X["w"] = sym(xs[w])
    if set(xs) - {v, w}:
        return None
    if pl == padd(sym(("nvars",)), P(1)):
        return "aux"
    for nm, px in X.items():
        if pl == px:
            return "x(%s)" % nm
    if len(fields) == 1:
        n_ = sym(fields[0])
        for nm, px in X.items():
            if pl == padd(padd(px, n_), pmul(n_, n_)):
                return "disj(%s)" % nm
        if "v" in X and "w" in X:
            if pl == padd(pmul(n_, X["v"]), X["w"]):
                return "att(v,w)"
            if pl == padd(pmul(n_, X["w"]), X["v"]):
                return "att(w,v)"
    return None
