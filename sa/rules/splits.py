"""The splitters of the maximal-extension searches: functions returning (member literals, complement literals) of the current
set (preferred / ideal) or of its range (semi-stable / stage).  What is marked and which literal stands for which slot, on
provenance trees."""
import re

from ..core import callee_of, callee_decl, op_const
from ..prov import prov, show, subterms
from .equiv import _stores_through
from .grounded import _is_call, inherited_conditions, _cond_trees


def linear(e, atom):
    """{symbol: coefficient, 1: constant} of an integer tree; atom(tree) -> symbol name or None"""
    if not isinstance(e, tuple):
        return None
    a = atom(e)
    if a is not None:
        return {a: 1}
    if e[0] == "const" and isinstance(e[1], int) and not isinstance(e[1], bool):
        return {1: e[1]}
    if e[0] == "field" and e[2] == "0" and isinstance(e[1], tuple) and e[1][0] == "op" and e[1][1].endswith("WithOverflow"):
        return linear(("op", e[1][1].replace("WithOverflow", ""), e[1][2]), atom)
    if e[0] == "op" and e[1] in ("Add", "Sub") and len(e[2]) == 2:
        x, y = linear(e[2][0], atom), linear(e[2][1], atom)
        if x is None or y is None:
            return None
        out = dict(x)
        for k, v in y.items():
            out[k] = out.get(k, 0) + (v if e[1] == "Add" else -v)
        return {k: v for k, v in out.items() if v != 0}
    if e[0] == "call" and len(e[2]) == 1 and re.search(r"^core::convert::(From::from|Into::into|TryFrom::try_from)$", e[1]):
        return linear(e[2][0], atom)
    return None


def _mark_kind(i):
    """'member' | 'target' | 'wrong:<why>' | None of the index of a marking store"""
    if not _is_call(i, r"Label::id$", 1):
        return None
    x = i[2][0]
    if x[0] == "elem" and x[1][0] == "param":
        return "member"
    if _is_call(x, r"::attacked$", 1) and x[2][0][0] == "elem" and _is_call(x[2][0][1], r"iter_attacks_from(_id)?$"):
        src = x[2][0][1][2][-1]
        src = src[2][0] if _is_call(src, r"Label::id$", 1) else src
        return "target" if src[0] == "elem" and src[1][0] == "param" else None
    if _is_call(x, r"::attacker$", 1) or any(_is_call(t, r"iter_attacks_to(_id)?$") for t in subterms(x)):
        return "wrong:the attackers of the members (the range is the set plus what it attacks)"
    if _is_call(x, r"::attacked$", 1):
        return None
    return None


def rule_split_contents(ctx):
    prog = ctx.prog
    r = ctx.rule(
        "split-contents",
        "the splitters of the maximal-extension searches: the set splitter marks exactly the members of the current set and slot i stands for "
        "the literal of the argument with id i; the range splitter marks the members and the targets of their attacks, slot i stands for range "
        "variable first_range_var + i, and when it reads a model it visits exactly the variables first_range_var .. first_range_var + n",
    )
    fns = [b for b in prog.lib_bodies() if b.kind != "closure" and b.ret_ty.startswith("(alloc::vec::Vec<sat::sat_solver::Literal>, alloc::vec::Vec<sat::sat_solver::Literal>") and (b.path.startswith("solvers::") or "<solvers::" in b.path.split(" as ")[0])]
    if not fns:
        r.ok("splitters", "NOT decided: no function returning the two halves of a split found in the solvers", None)
        return
    n = 0
    for b in fns:
        pushes, marks = [], []
        for y in prog.with_closures(b):
            for s in y.calls():
                d = callee_decl(callee_of(s))
                if d == "alloc::vec::Vec::push" and "Literal" in str(callee_of(s).get("substs")):
                    for e in prov(prog, y, s.node["args"][1]):
                        pushes.append((y, s, e))
                if d == "core::ops::index::IndexMut::index_mut" and "bool" in str(callee_of(s).get("substs")) and any((op_const(o) or {}).get("bool") is True for o in _stores_through(y, s)):
                    for e in prov(prog, y, s.node["args"][1]):
                        marks.append((y, s, e))
        kinds = set()
        und = False
        for y, s, e in pushes:
            anchor = "%s|literal" % b.id
            if _is_call(e, r"ConstraintsEncoder::arg_to_lit$", 2) and _is_call(e[2][1], r"get_argument_by_id$", 2):
                idx = e[2][1][2][1]
                kinds.add("E")
                n += 1
                is_i = lambda t: "i" if (t[0] == "field" and t[2] == "0" and t[1][0] == "elem" and _is_call(t[1][1], r"Iterator::enumerate$")) else None  # noqa: E731
                lins = [linear(a, is_i) for a in (idx[1] if idx[0] == "alt" else (idx,))]
                bad = [l for l in lins if l is not None and l != {"i": 1}]
                if bad:
                    r.violation(anchor, "slot-argument:%s" % sorted(bad[0].items(), key=str), "slot i of the membership vector is paired with the literal of argument %s, not of argument i" % " + ".join("%s*%s" % (v, k) for k, v in sorted(bad[0].items(), key=str)), s.loc())
                elif all(l == {"i": 1} for l in lins):
                    r.ok(anchor, "slot i stands for the literal of the argument with id i", s.loc())
                else:
                    r.ok(anchor, "NOT decided: %s" % show(idx)[:80], s.loc())
                    und = True
            elif _is_call(e, r"convert::From::from$", 1):
                v = e[2][0]

                def atom(t):
                    if _is_call(t, r"first_range_var$"):
                        return "R"
                    if t[0] == "field" and t[2] == "0" and t[1][0] == "elem" and _is_call(t[1][1], r"Iterator::enumerate$"):
                        return "i"
                    if _is_call(t, r"n_arguments$|ArgumentSet::len$"):
                        return "n"
                    return None

                if v[0] == "elem" and v[1][0] == "agg" and v[1][1] == "Range" and len(v[1][2]) == 2:
                    kinds.add("M")
                    n += 1
                    lo, hi = linear(v[1][2][0], atom), linear(v[1][2][1], atom)
                    if lo is None or hi is None:
                        r.ok(anchor + "|model", "NOT decided: bounds %s" % show(v[1])[:80], s.loc())
                        und = True
                    else:
                        r.check(lo == {"R": 1} and hi == {"R": 1, "n": 1}, anchor + "|model", "model-range:%s..%s" % (sorted(lo.items(), key=str), sorted(hi.items(), key=str)), "the model is read for first_range_var .. first_range_var + n", "the range variables read from the model are %s .. %s, not first_range_var .. first_range_var + n" % (lo, hi), s.loc())
                        conds = _cond_trees(prog, inherited_conditions(prog, y, s.bb))
                        tested = [c for c, t in conds if any(_is_call(x, r"Assignment::value_of$") for x in subterms(c))]
                        if tested:
                            r.check(all(v in subterms(c) for c in tested), anchor + "|model", "model-variable", "the value tested is that of the variable pushed", "the literal pushed is not the variable whose value is tested", s.loc())
                else:
                    lin = linear(v, atom)
                    n += 1
                    if lin is None:
                        r.ok(anchor, "NOT decided: %s" % show(v)[:80], s.loc())
                        und = True
                    else:
                        kinds.add("R")
                        r.check(lin == {"R": 1, "i": 1}, anchor, "range-literal:%s" % sorted(lin.items(), key=str), "slot i stands for range variable first_range_var + i", "slot i of the range vector stands for variable %s, not first_range_var + i" % " + ".join("%s*%s" % (c, k) for k, c in sorted(lin.items(), key=str)), s.loc())
            else:
                n += 1
                und = True
                r.ok(anchor, "NOT decided: %s" % show(e)[:80], s.loc())
        mk = [(_mark_kind(e), s, e) for y, s, e in marks]
        anchor = "%s|marks" % b.id
        for k, s, e in mk:
            if k and k.startswith("wrong:"):
                r.violation(anchor, "marks-" + k.split(":")[0] + ":attackers", "the splitter marks %s" % k.split(":", 1)[1], s.loc())
        known = {k for k, s, e in mk if k in ("member", "target")}
        unknown = [e for k, s, e in mk if k is None]
        if not marks or und:
            if marks or kinds & {"E", "R"}:
                r.ok(anchor, "NOT decided: %s" % ("no marking store recognised" if not marks else "literal forms not all recognised"), b.loc())
            continue
        n += 1
        if unknown:
            r.ok(anchor, "NOT decided: a marked index is not recognised (%s)" % show(unknown[0])[:80], b.loc())
        elif "R" in kinds:
            r.check(known == {"member", "target"}, anchor, "range-marks:%s" % sorted(known), "the range vector marks the members and the targets of their attacks", "the range vector marks only %s: the range of a set is the set together with everything it attacks" % (sorted(known) or "nothing"), b.loc())
        elif "E" in kinds:
            r.check(known == {"member"}, anchor, "set-marks:%s" % sorted(known), "the membership vector marks exactly the members", "the membership vector of the set splitter marks %s" % sorted(known), b.loc())
    if n == 0:
        r.ok("splitters", "NOT decided: the splitters (%s) build their halves without pushes of literals the rule follows" % ", ".join(b.path.rsplit("::", 1)[-1] for b in fns), fns[0].loc())
        return
    r.floor(n, 2, "literal forms and marking sets judged in the splitters")
