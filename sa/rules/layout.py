"""C10 (variable-layout clause): argument, auxiliary and range variables live in disjoint images,
decoding inverts encoding, reserve() covers the layout, selectors are allocated above it."""
import re

from ..core import callee_of, callee_decl, callee_matches, callee_name, strip_generics, op_place, op_const, origins, data_deps, place_fields, switch_sites
from ..flow import conditions
from ..affine import Aff, eval_operand, eval_function, always_positive, always_nonneg, images_disjoint

ENCODER = "encodings::specs::ConstraintsEncoder"


def _method(prog, imp, name):
    for m in imp["methods"]:
        if m["name"] == name:
            return prog.lib(m["path"])
    return None


def _module_of(path):
    m = re.match(r"^<?(encodings::[a-z_]+)::", path)
    return m.group(1) if m else None


def _literal_from_arg(prog, b, depth=0, env=None):
    """affine form (in 'id') of the integer turned into a Literal by arg_to_lit"""
    env = env or {}
    for s in b.calls():
        c = callee_of(s)
        if callee_matches(c, r"^core::convert::From::from$") and b.local_ty(s.node["dst"]["l"]).endswith("sat::sat_solver::Literal"):
            return eval_operand(prog, b, s.node["args"][0], env), s
    # through a local helper that builds the literal from the argument (`fn arg_to_solver_lit(arg) -> Literal`)
    if depth < 3:
        for s in b.calls():
            c = callee_of(s)
            t = prog.body_for_callee(c, b) if c and c.get("decl") != "<indirect>" else None
            if t is not None and t.kind != "closure" and t.ret_ty.endswith("sat::sat_solver::Literal"):
                # the helper's parameters are what this call hands over (`pos_lit(arg_id_to_solver_var(arg.id()))`)
                env2 = {}
                for i, a in enumerate(s.node["args"]):
                    if op_place(a) is not None or op_const(a) is not None:
                        va = eval_operand(prog, b, a, env)
                        if va is not None:
                            env2[i + 1] = va
                v, s2 = _literal_from_arg(prog, t, depth + 1, env2)
                if v is not None:
                    return v, s2
    return None, None


def _from_var_cases(prog, fn, vparam, form=None):
    """[(kind 'Some'|'None', Aff or None, [conditions])] for an Option<usize>-returning decoder applied to a
    variable of affine form `form`"""
    out = []
    env = {vparam: form if form is not None else Aff.sym("v")}
    for s in fn.sites():
        n = s.node
        if s.si is not None and n["k"] == "assign" and n["rv"]["k"] == "aggregate" and n["rv"]["agg"].get("path") == "core::option::Option":
            var = n["rv"]["agg"]["variant"]
            val = eval_operand(prog, fn, n["rv"]["ops"][0], env) if var == "Some" else None
            conds = []
            for c in conditions(fn, s.bb):
                if c.is_discr:
                    continue
                truth = True if c.is_true() else (False if c.is_false() else None)
                for o in origins(fn, c.place, transparent=()):
                    if o.kind == "binop" and o.data["op"] == "BitAnd" and fn.local_ty(c.place["l"]) != "bool":
                        # `match v & mask { k => .., _ => .. }`: a switch on the masked value itself
                        a = eval_operand(prog, fn, o.data["ops"][0], env)
                        m = op_const(o.data["ops"][1])
                        if a is not None and m is not None and "int" in m and len(c.values) == 1:
                            try:
                                kv = int(c.values[0])
                            except ValueError:
                                continue
                            conds.append(("Eq", ("and", a, m["int"]), Aff({}, kv), not c.negated))
                        continue
                    if o.kind == "binop":
                        a = _eval_cond_operand(prog, fn, o.data["ops"][0], env)
                        b2 = _eval_cond_operand(prog, fn, o.data["ops"][1], env)
                        conds.append((o.data["op"], a, b2, truth))
            out.append((var, val, conds, s))
    return out


def _eval_cond_operand(prog, fn, op, env):
    """affine value, or ('and', Aff, mask) for `x & mask`"""
    v = eval_operand(prog, fn, op, env)
    if v is not None:
        return v
    for o in origins(fn, op, transparent=()):
        if o.kind == "binop" and o.data["op"] == "BitAnd":
            a = eval_operand(prog, fn, o.data["ops"][0], env)
            m = op_const(o.data["ops"][1])
            if a is not None and m is not None and "int" in m:
                return ("and", a, m["int"])
    return None


def rule_variable_layout(ctx):
    prog = ctx.prog
    r = ctx.rule(
        "variable-layout",
        "per encoder, with T = argument variable, D = attacker-disjunction variable, R = range variable as affine maps of (id, n): T injective; "
        "images of T, D, R pairwise disjoint for all n >= 1, 0 <= id < n; decode(T(id)) = id and decode rejects (None or >= n) every D / R / "
        "later auxiliary variable; first_range_var(n) = R(n,0) and R(n,id) = R(n,0) + id; reserve(k) >= the largest variable of the mode",
    )
    impls = [i for i in prog.impls_of_trait(ENCODER) if (i.get("self_adt") or "").startswith("encodings::")]
    if not r.require_anchor(impls, "ConstraintsEncoder impls in src/encodings"):
        return
    r.floor(len(impls), 4, "ConstraintsEncoder impls in src/encodings")
    for imp in sorted(impls, key=lambda i: i["self_ty"]):
        name = imp["self_ty"].rsplit("::", 1)[-1]
        mod = _module_of(imp["self_adt"])
        a2l = _method(prog, imp, "arg_to_lit")
        if not r.require_anchor(a2l, name + "::arg_to_lit"):
            continue
        T, tsite = _literal_from_arg(prog, a2l)
        if not r.check(T is not None and set(T.t) == {"id"}, name + "|T", "non-affine", "T(id) = %s" % T, "the argument-variable map of %s is not an affine function of the id" % name, a2l.loc()):
            continue
        r.check(T.coeff("id") > 0, name + "|T", "not-injective", "T is injective (coefficient %d)" % T.coeff("id"), loc=a2l.loc())
        r.check(always_positive(T, None), name + "|T", "non-positive-var", "T(id) >= 1", "T(id) can be 0 or negative: not a SAT variable", a2l.loc())
        # D candidates: other (usize) -> usize functions of the module
        tfn = None
        for y in prog.reachable_from([a2l], virtual_dispatch=False).values():
            if y.kind != "closure" and y.ret_ty == "usize" and y.n_args == 1 and y.local_ty(1) == "usize" and y is not a2l:
                tfn = y
        Ds = []
        for b in prog.lib_bodies():
            if b.kind == "closure" or _module_of(b.path) != mod or b is tfn:
                continue
            sig = prog.sigs.get(("lib", b.path))
            if sig and sig["inputs"] == ["usize"] and sig["output"] == "usize":
                v = eval_function(prog, b, {1: Aff.sym("j")})
                if r.check(v is not None, name + "|D|" + b.path.rsplit("::", 1)[-1], "non-affine", "%s(j) = %s" % (b.path.rsplit("::", 1)[-1], v), loc=b.loc()):
                    Ds.append((b, v))
        # R
        frv = _method(prog, imp, "first_range_var")
        R = None
        R0 = None
        if frv is not None and frv.exits():
            R0 = eval_function(prog, frv, {2: Aff.sym("n")})
            rfn = None
            for s in frv.calls():
                t = prog.body_for_callee(callee_of(s), frv)
                if t is not None and t.ret_ty == "usize" and t.n_args == 2:
                    rfn = t
            layout_obj = None
            if R0 is None or rfn is None:
                for s in frv.calls():
                    t = prog.body_for_callee(callee_of(s), frv)
                    a_ = prog.adt((t.impl or {}).get("self_adt") or "") if t is not None and t.impl else None
                    if t is not None and t.kind != "closure" and t.ret_ty == "usize" and a_ is not None and str(a_.get("vis") or "pub") != "pub":
                        layout_obj = a_["path"].rsplit("::", 1)[-1]
            if layout_obj:
                r.ok(name + "|R", "NOT decided: the range-variable map is a method of the private object %s, whose fields the affine evaluation does not follow" % layout_obj, frv.loc())
            elif r.check(R0 is not None and rfn is not None, name + "|R", "non-affine", "first_range_var(n) = %s" % R0, "cannot evaluate first_range_var of %s" % name, frv.loc()):
                R = eval_function(prog, rfn, {1: Aff.sym("n"), 2: Aff.sym("j")})
                r.check(R is not None and R.subst({"j": Aff({}, 0)}) == R0 and R.coeff("j") == 1, name + "|R", "range-indexing", "R(n,j) = %s = first_range_var(n) + j" % R, "range variables are not first_range_var(n) + id (the range solvers index them that way): R = %s, first = %s" % (R, R0), rfn.loc())
        else:
            r.note("%s has no range mode (first_range_var unimplemented)" % name)
        # disjointness
        for b, D in Ds:
            how = images_disjoint(T, D)
            r.check(how is not None, name + "|T-vs-" + b.path.rsplit("::", 1)[-1], "overlap", "T and %s never collide (%s)" % (b.path.rsplit("::", 1)[-1], how), "an argument variable can equal a %s variable" % b.path.rsplit("::", 1)[-1], b.loc())
            if R is not None:
                how = images_disjoint(D.subst({"j": Aff.sym("id")}), R)
                r.check(how is not None, name + "|R-vs-" + b.path.rsplit("::", 1)[-1], "overlap", "R and %s never collide (%s)" % (b.path.rsplit("::", 1)[-1], how), "a range variable can equal a %s variable" % b.path.rsplit("::", 1)[-1], b.loc())
        if R is not None:
            how = images_disjoint(T, R)
            r.check(how is not None, name + "|T-vs-R", "overlap", "T and R never collide (%s)" % how, "an argument variable can equal a range variable", frv.loc())
        # decoder
        a2e = _method(prog, imp, "assignment_to_extension")
        dec = None
        if a2e is not None:
            for x in prog.with_closures(a2e):
                for s in x.calls():
                    t = prog.body_for_callee(callee_of(s), x)
                    if t is not None and t.ret_ty == "core::option::Option<usize>" and t.kind != "closure":
                        vparam = [i for i in range(1, t.n_args + 1) if t.local_ty(i) == "usize"]
                        if vparam:
                            dec = (t, vparam[0])
        if r.check(dec is not None, name + "|decode", "no-decoder", "decoder function found", "cannot find the variable -> id decoder of %s" % name, a2e.loc() if a2e else None):
            t, vp = dec
            cases = _from_var_cases(prog, t, vp, T)
            somes = [c for c in cases if c[0] == "Some"]
            r.check(len(somes) >= 1 and all(c[1] is not None for c in somes), name + "|decode", "non-affine", "decoder applied to T(id) returns %s" % [str(c[1]) for c in somes], loc=t.loc())
            # filter bound applied by the caller:  id < n  (or inside the decoder: var <= n)
            bound_in_caller = False
            for x in prog.with_closures(a2e):
                for s in x.sites():
                    nd = s.node
                    if s.si is not None and nd["k"] == "assign" and nd["rv"]["k"] == "binop" and nd["rv"]["op"] == "Lt":
                        _, calls, _ = data_deps(x, nd["rv"]["ops"][1])
                        if any(callee_matches(callee_of(c), r"AAFramework::n_arguments$") for c in calls):
                            bound_in_caller = True

            def accepted(var_form, depth=0):
                """ids the decoder may hand to get_argument_by_id for a variable of the given affine form"""
                res = []
                for kind, val, conds, site in _from_var_cases(prog, t, vp, var_form):
                    if kind != "Some":
                        continue
                    feasible = True
                    undecided = False
                    extra_bound = False
                    for opn, a, b2, truth in conds:
                        if isinstance(a, tuple) and a[0] == "and" and isinstance(b2, Aff) and b2.is_const():
                            vv = a[1]
                            if all(c % (a[2] + 1) == 0 for c in vv.t.values()):
                                bit = vv.c & a[2]
                                holds = (bit == b2.c) if opn == "Eq" else ((bit != b2.c) if opn == "Ne" else None)
                                if holds is not None and holds != truth:
                                    feasible = False
                            else:
                                undecided = True
                            continue
                        if isinstance(a, Aff) and isinstance(b2, Aff) and opn == "Le" and truth and "n" in b2.t:
                            extra_bound = True
                    if not feasible:
                        continue
                    if (undecided or val is None) and depth < 2:
                        # split on the parity of the running index
                        for s_ in ("id", "j"):
                            if var_form.coeff(s_) % 2:
                                sub = []
                                for par in (0, 1):
                                    sub += accepted(var_form.subst({s_: Aff({"m": 2}, par)}), depth + 1)
                                return sub
                    res.append((val, extra_bound))
                return res

            # decode(T(id)) = id
            acc = accepted(T)
            r.check(len(acc) == 1 and acc[0][0] == Aff.sym("id"), name + "|decode-inverse", "decode(T(id))=%s" % [str(a[0]) for a in acc], "decode(T(id)) = id", "decoding an argument variable does not give back its id: %s" % [str(a[0]) for a in acc], t.loc())
            r.check(bound_in_caller or all(a[1] for a in acc), name + "|decode-bound", "no-bound", "decoded ids are filtered with `< n_arguments`", "decoded ids are not bounded by the number of arguments", a2e.loc() if a2e else None)
            # non-argument variables are rejected or decode to >= n
            others = [(b.path.rsplit("::", 1)[-1], D.subst({"j": Aff.sym("id")})) for b, D in Ds]
            if R is not None:
                others.append(("R", R.subst({"j": Aff.sym("id")})))
            for oname, form in others:
                acc = accepted(form)
                ok = all(a[0] is not None and (always_nonneg(a[0] - Aff.sym("n"), None) or (a[1] and always_positive(form - Aff.sym("n"), None))) for a in acc)
                r.check(ok, name + "|decode-rejects-" + oname, "decodes-as-argument:%s" % [str(a[0]) for a in acc], "a %s variable is never decoded as an argument (%s)" % (oname, "rejected" if not acc else "decodes to >= n, filtered"), "a true %s variable can be decoded as an argument id: %s" % (oname, [str(a[0]) for a in acc]), t.loc())
        # reserve covers the layout
        for mname, with_range in (("encode_constraints", False), ("encode_constraints_and_range", True)):
            mb = _method(prog, imp, mname)
            if mb is None or not mb.exits():
                continue
            res_sites = []
            for x in prog.reachable_from([mb], virtual_dispatch=False).values():
                if x.kind == "closure" or not (_module_of(x.path) == mod or x is mb):
                    continue
                if (x.name or "") not in (mname,) and x is not mb:
                    continue
                for s in x.calls():
                    if callee_matches(callee_of(s), r"sat_solver::SatSolver::reserve$"):
                        res_sites.append((x, s))
            need = [T.subst({"id": Aff({"n": 1}, -1)})]
            for b, D in Ds:
                if _uses_fn(prog, mb, b, mod):
                    need.append(D.subst({"j": Aff({"n": 1}, -1)}))
            if with_range and R is not None:
                need.append(R.subst({"j": Aff({"n": 1}, -1)}))
            if not res_sites:
                r.note("%s::%s reserves nothing (variables are declared by use)" % (name, mname))
                continue
            for x, s in res_sites:
                k = eval_operand(prog, x, s.node["args"][1], {})
                ok = k is not None and all(always_nonneg(k - nd2, None) for nd2 in need)
                r.check(ok, "%s|%s|reserve" % (name, mname), "reserve=%s need=%s" % (k, [str(x2) for x2 in need]), "reserve(%s) covers the largest variable %s" % (k, [str(x2) for x2 in need]), "reserve(%s) is below the largest variable of the layout %s: the model cannot be queried for every variable" % (k, [str(x2) for x2 in need]), s.loc())
        # lazily numbered auxiliary variables start above the layout
        adt = prog.adt(imp.get("self_adt"))
        cell_usize = [f["name"] for v in adt["variants"] for f in v["fields"] if re.search(r"RefCell<usize>", f["ty"])]
        for fld in cell_usize:
            for mname, with_range in (("encode_constraints", False), ("encode_constraints_and_range", True)):
                mb = _method(prog, imp, mname)
                if mb is None:
                    continue
                for s in mb.sites():
                    nd = s.node
                    if s.si is not None and nd["k"] == "assign" and nd["dst"]["p"] == ["*"] and mb.local_ty(nd["dst"]["l"]).replace("&mut ", "") == "usize":
                        v = eval_operand(prog, mb, nd["rv"]["ops"][0], {})
                        top = R.subst({"j": Aff({"n": 1}, -1)}) if (with_range and R is not None) else T.subst({"id": Aff({"n": 1}, -1)})
                        ok = v is not None and always_positive(v - top, None)
                        r.check(ok, "%s|%s|aux-start" % (name, mname), "aux-start=%s top=%s" % (v, top), "lazily numbered variables start at %s, above %s" % (v, top), "lazily numbered auxiliary variables start at %s, not above the largest layout variable %s" % (v, top), s.loc())


def _uses_fn(prog, mb, fn, mod):
    reach = prog.reachable_from([mb], virtual_dispatch=False)
    if fn.id in reach:
        return True
    # passed as a function value
    for x in reach.values():
        for s in x.sites():
            nd = s.node
            ops = nd["rv"].get("ops", []) if (s.si is not None and nd["k"] == "assign") else (nd.get("args", []) if s.si is None and nd["k"] == "call" else [])
            for o in ops:
                k = op_const(o)
                if k and "fn" in k and strip_generics(callee_name(k["fn"])) == strip_generics(fn.path):
                    return True
    return False


def rule_selector_above_encoding(ctx):
    prog = ctx.prog
    from .. import tags

    r = ctx.rule(
        "selector-above-encoding",
        "every selector literal `1 + n_vars()` used by a static solver is computed after the encode call on the same solver object (so it is "
        "above every variable the encoder declared or reserved)",
    )
    from .dynalloc import nvars_alloc_sites

    ENC = r"ConstraintsEncoder::encode_constraints(_and_range)?$"

    _enc_cache = {}

    def encodes(fn, depth=0):
        """summary: the function encodes (on every normally returning path) before returning"""
        if fn.id in _enc_cache:
            return _enc_cache[fn.id]
        _enc_cache[fn.id] = False
        res = False
        if depth < 5:
            for x in fn.calls():
                c = callee_of(x)
                if callee_matches(c, ENC) and fn.postdominates(x, (0, -1)):
                    res = True
                t = prog.body_for_callee(c, fn) if c else None
                if t is not None and t.kind != "closure" and t.path.startswith("solvers::") and fn.postdominates(x, (0, -1)) and encodes(t, depth + 1):
                    res = True
        _enc_cache[fn.id] = res
        return res

    def encoded_before(site, depth=0):
        b = site.body
        encs = [x for x in b.calls() if callee_matches(callee_of(x), ENC)]
        for x in b.calls():
            t = prog.body_for_callee(callee_of(x), b) if callee_of(x) else None
            if t is not None and t.kind != "closure" and t.path.startswith("solvers::") and encodes(t):
                encs.append(x)
        if any(b.dominates(e, site) and not (e.bb == site.bb and e.si == site.si) for e in encs):
            return True
        fn = prog.enclosing_fn(b)
        if fn.path.startswith("dynamics::") or "<dynamics::" in fn.path.split(" as ")[0]:
            return True  # incremental encoders: the shared solver already holds the encoding (C08)
        if depth >= 4:
            return False
        if b is not fn:
            # a closure: the site of its creation
            for ps in fn.sites():
                nd = ps.node
                if ps.si is not None and nd["k"] == "assign" and nd["rv"]["k"] == "aggregate" and nd["rv"]["agg"].get("kind") == "closure" and nd["rv"]["agg"].get("path") == b.path:
                    if encoded_before(ps, depth + 1):
                        return True
                    # the closure is handed to a function that loads the solver and then calls it (`merge_component_models(|cc_af, solver| ..)`):
                    # the places where that function calls its parameter
                    inv = []
                    for x in fn.calls():
                        t = prog.body_for_callee(callee_of(x), fn) if callee_of(x) else None
                        if t is None or t.kind == "closure":
                            continue
                        for k, a in enumerate(x.node["args"]):
                            if any(o.kind == "agg" and o.site is not None and (o.site.bb, o.site.si) == (ps.bb, ps.si) for o in origins(fn, a, transparent=())):
                                for y in t.calls():
                                    if callee_matches(callee_of(y), r"ops::function::(FnMut::call_mut|Fn::call|FnOnce::call_once)$") and y.node["args"] and any(o.kind == "param" and o.data == k + 1 and not o.fields for o in origins(t, y.node["args"][0], transparent=())):
                                        inv.append(y)
                    return bool(inv) and all(encoded_before(y, depth + 1) for y in inv)
            return False
        callers = prog.callers_of(fn)
        return bool(callers) and all(encoded_before(cs, depth + 1) for cs in callers)

    n = 0
    for b in prog.lib_bodies():
        fn = prog.enclosing_fn(b)
        if not (fn.path.startswith("solvers::") or "<solvers::" in fn.path.split(" as ")[0]):
            continue
        for s in nvars_alloc_sites(b):
            n += 1
            r.check(encoded_before(s), "%s|selector" % b.id, "selector-before-encoding", "selector computed on a solver that has been encoded (here or by every caller)", "a selector is taken from n_vars() before the encoder declared its variables: it can collide with an argument / range variable", s.loc())
    r.floor(n, 4, "selector allocation sites in static solvers")


# ------------------------------------------------------------------------------------------
# clause templates of the encoders vs the reference encodings named by the property

from .. import cnf  # noqa: E402
from ..flow import switch_subject  # noqa: E402


def _norm_node(n):
    if n == ("each-arg",):
        return "s"
    if isinstance(n, tuple) and n and n[0] == "attacker":
        inner = _norm_node(n[1])
        return "a" + ("" if inner == "s" else inner) if inner in ("s", "a") else "?"
    return "?"


_T_EQUIV = {}


def _same_map_as_T(prog, Tpath):
    """other id->variable functions with the same affine form as T (the hybrid encoder reuses the exp functions)"""
    if Tpath in _T_EQUIV:
        return
    tb = None
    for b in prog.lib_bodies():
        if strip_generics(b.path) == Tpath:
            tb = b
    eq = set()
    if tb is not None:
        tv = eval_function(prog, tb, {1: Aff.sym("j")})
        for b in prog.lib_bodies():
            sig = prog.sigs.get(("lib", b.path))
            if b.kind != "closure" and b.path.startswith("encodings::") and sig and sig["inputs"] == ["usize"] and sig["output"] == "usize":
                if eval_function(prog, b, {1: Aff.sym("j")}) == tv and tv is not None:
                    eq.add(strip_generics(b.path))
    _T_EQUIV[Tpath] = eq


def _norm(t, Tpath, Rpath):
    lits = []
    for s, k, n, m in t.lits:
        if k[0] == "fn" and (k[1] == Tpath or k[1] in _T_EQUIV.get(Tpath, ())):
            role = "T"
        elif k[0] == "fn2" and k[1] == Rpath:
            role = "R"
        elif k[0] in ("fn", "closure", "table", "ivar", "fnopt", "dyn"):
            role = "D"
        elif k[0] in ("elem", "elem-clause", "cparam", "lparam"):
            role = "E"
        elif k[0] == "unk" and "deref" in str(k[1]):
            role = "D"  # a variable number read out of a RefCell (lazily numbered variable)
        else:
            role = "?"
        lits.append("%s%s%s%s" % (s, role, _norm_node(n) if role != "E" else "", "*" if m else ""))
    per = "arg"
    if isinstance(t.per, tuple):
        per = "att" if _norm_node(t.per[1]) == "s" else ("att2" if _norm_node(t.per[1]) == "a" else "att?")
    elif t.per == "loop":
        per = "loop"
    g = ""
    for gg in t.guards:
        if gg[0] == "same-node":
            g = "|self-attack"
            per = "att"
        elif gg[0] == "different-node":
            g = "|not-self-attack"
            per = "att"
    return "%s:[%s]%s" % (per, " ".join(sorted(lits)), g)


CF = {"att:[-Ta -Ts]"}
ADM = {"att:[+Da -Ts]"}
COM = ADM | {"arg:[+Ts -Da*]"}
DDEF = {"arg:[-Ds -Ts]", "att:[+Ds -Ta]", "arg:[+Ta* -Ds]"}
RNG3 = {"arg:[+Rs -Ts]", "arg:[+Rs -Ds]", "arg:[+Ds +Ts -Rs]"}
RNG2 = {"arg:[+Rs -Ts]", "arg:[+Ta* +Ts -Rs]"}
EXPCOM = {"arg:[+Ts]", "arg:[-Ts]", "loop:[+E*]", "loop:[+E* -Ts]", "loop:[+Ts -E*]"}
STABLE = {"arg:[+Ta* +Ts]", "att:[-Ts]|self-attack", "att:[-Ta -Ts]|not-self-attack"}
# hybrid: per argument either the exp clauses or the aux_var complete clauses with lazily numbered D of the attackers
HYB_AUX = {"att:[-D? -Ta]", "att:[+Taa* -D?]", "att2:[+D? -Taa]", "arg:[+Ts -Da*]", "att:[+Da -Ts]"}

REFERENCE = {
    ("aux_var", "ConflictFreeness", False): CF,
    ("aux_var", "ConflictFreeness", True): CF | DDEF | RNG3,
    ("aux_var", "Admissibility", False): ADM | DDEF,
    ("aux_var", "Admissibility", True): ADM | DDEF | RNG3,
    ("aux_var", "CompleteSemantics", False): COM | DDEF,
    ("aux_var", "CompleteSemantics", True): COM | DDEF | RNG3,
    ("exp", "ConflictFreeness", False): CF,
    ("exp", "ConflictFreeness", True): CF | RNG2,
    ("exp", "CompleteSemantics", False): EXPCOM,
    ("exp", "CompleteSemantics", True): EXPCOM | RNG2,
    ("stable", None, False): STABLE,
    ("hybrid", None, False): EXPCOM | HYB_AUX,
    ("hybrid", None, True): EXPCOM | HYB_AUX | RNG2 | {"arg:[+Rs -Ds]", "arg:[+Ds +Ts -Rs]"},
}


def _mode_feasible_blocks(body, mode_idx):
    """blocks of `body` that can execute when the encoder's mode enum has discriminant `mode_idx`: switches on the mode
    follow that arm only; bool locals assigned constants (e.g. by `matches!(self, Mode::X)`), their negations and copies are
    propagated to the switches that test them"""
    from ..flow import switch_subject as _ss

    def is_mode_switch(sw):
        subj = _ss(body, sw)
        return bool(subj and subj[1] and "EncodingType" in place_ty_of(body, subj[0]))

    sw_at = {sw.bb: sw for sw in switch_sites(body)}
    env_in = {0: {}}
    work = [0]
    seen = set()
    while work:
        bb = work.pop()
        env = dict(env_in.get(bb, {}))
        for st in body.blocks[bb]["stmts"]:
            if st["k"] != "assign" or st["dst"]["p"] or body.local_ty(st["dst"]["l"]) != "bool":
                continue
            rv = st["rv"]
            val = None
            if rv["k"] == "use":
                k = op_const(rv["ops"][0])
                if k is not None and "bool" in k:
                    val = k["bool"]
                else:
                    q = op_place(rv["ops"][0])
                    if q is not None and not q["p"]:
                        val = env.get(q["l"])
            elif rv["k"] == "unop" and rv["op"] == "Not":
                q = op_place(rv["ops"][0])
                if q is not None and not q["p"] and env.get(q["l"]) is not None:
                    val = not env[q["l"]]
            env[st["dst"]["l"]] = val
        succs = list(body.succ[bb])
        if bb in sw_at:
            sw = sw_at[bb]
            t = sw.node
            if is_mode_switch(sw):
                tg = [tb for v, tb in t["targets"] if v == mode_idx]
                succs = tg or [t["otherwise"]]
            else:
                p = op_place(t["discr"])
                if p is not None and not p["p"] and body.local_ty(p["l"]) == "bool" and env.get(p["l"]) is not None:
                    v = env[p["l"]]
                    zero = [tb for x, tb in t["targets"] if x == "0"]
                    one = [tb for x, tb in t["targets"] if x == "1"]
                    succs = (one or [t["otherwise"]]) if v else (zero or succs)
        for sc in succs:
            old = env_in.get(sc)
            if old is None:
                env_in[sc] = dict(env)
                work.append(sc)
            else:
                merged = {k: (old[k] if k in env and env[k] == old[k] else None) for k in old}
                if merged != old or sc not in seen:
                    env_in[sc] = merged
                    if sc not in seen or merged != old:
                        work.append(sc)
            seen.add(sc)
        seen.add(bb)
        if len(seen) > 5000:
            break
    return set(env_in)


def place_ty_of(body, place):
    from .satlayer import place_ty

    return place_ty(body, place)


def rule_clause_templates(ctx):
    prog = ctx.prog
    r = ctx.rule(
        "clause-templates",
        "the clause shapes generated by each encoder mode (extracted symbolically: sign, variable family T/D/R, node self/attacker, per-argument or "
        "per-attacker) are exactly those of the reference encodings the property names: a->not b / a->P_b / (AND P_b)->a / P_a<->OR(attackers) with "
        "a->not P_a / range definitions / the stable encoding; a dropped clause, a dropped direction of a definition, a flipped polarity or a wrong "
        "variable family or node changes the template set",
    )
    cx = cnf.Ctx(prog)
    impls = [i for i in prog.impls_of_trait(ENCODER) if (i.get("self_adt") or "").startswith("encodings::")]
    n = 0
    for imp in sorted(impls, key=lambda i: i["self_ty"]):
        name = imp["self_ty"].rsplit("::", 1)[-1]
        fam = "aux_var" if "AuxVar" in name else ("exp" if name.startswith("Exp") else ("hybrid" if "Hybrid" in name else ("stable" if "Stable" in name else "?")))
        a2l = _method(prog, imp, "arg_to_lit")
        frv = _method(prog, imp, "first_range_var")
        Tpath = Rpath = None
        for y in prog.reachable_from([a2l], virtual_dispatch=False).values():
            if y.kind != "closure" and y.ret_ty == "usize" and y.n_args == 1 and y.local_ty(1) == "usize" and y is not a2l:
                Tpath = strip_generics(y.path)
        if frv is not None and frv.exits():
            for s in frv.calls():
                t = prog.body_for_callee(callee_of(s), frv)
                if t is not None and t.ret_ty == "usize" and t.n_args == 2:
                    Rpath = strip_generics(t.path)
        _same_map_as_T(prog, Tpath)
        for mname, with_range in (("encode_constraints", False), ("encode_constraints_and_range", True)):
            mb = _method(prog, imp, mname)
            if mb is None or not mb.exits():
                continue
            # modes: the arms of the match on the encoder's own mode enum, wherever it sits among the encoding functions
            # reachable from the method; one arm is followed at a time (the blocks of the other arms are excluded)
            from .cli import arm_regions

            roots = []
            mode_bodies = {}
            adt_path = None
            for y in sorted(prog.reachable_from([mb], virtual_dispatch=False).values(), key=lambda z: z.id):
                if not (y.path.startswith("encodings::") or "<encodings::" in y.path.split(" as ")[0]):
                    continue
                for sw in switch_sites(y):
                    subj = switch_subject(y, sw)
                    if subj and subj[1] and "EncodingType" in place_ty_of(y, subj[0]):
                        mode_bodies[y.id] = y
                        adt_path = place_ty_of(y, subj[0]).replace("&", "").strip()
            if not mode_bodies:
                roots.append((None, {}))
            else:
                adt = prog.adt(adt_path)
                for v in (adt["variants"] if adt else []):
                    excl = {}
                    for yid, y in mode_bodies.items():
                        excl[yid] = set(y.reachable) - _mode_feasible_blocks(y, str(v["idx"]))
                    roots.append((v["name"], excl))
            for vname, rs in roots:
                key = (fam, vname, with_range)
                want = REFERENCE.get(key)
                anchor = "%s|%s|%s" % (name, vname or "-", "range" if with_range else "plain")
                # clauses that reach add_clause from a source the extractor does not model (an iterator handed to a generic
                # `add them all` helper, a custom Iterator impl, ..): the mode is not decided rather than compared
                opaque = []
                for y in prog.reachable_from([mb], virtual_dispatch=False).values():
                    if not (y.path.startswith("encodings::") or "<encodings::" in y.path.split(" as ")[0]):
                        continue
                    for z in prog.with_closures(y):
                        for s in z.calls():
                            if callee_matches(callee_of(s), r"sat_solver::SatSolver::add_clause$"):
                                els = cnf.clause_elements(cnf.Ctx(prog), z, s.node["args"][1])
                                if any(kd and kd[0] == "unk" and re.search(r"call .*Iterator::next$", str(kd[1] if len(kd) > 1 else "")) for sg, kd, nd, m in els):
                                    opaque.append(s)
                if opaque:
                    n += 1
                    r.ok(anchor, "NOT decided: %d add_clause site(s) receive their clause from a source the extractor does not model (e.g. %s)" % (len(opaque), opaque[0].loc()), opaque[0].loc())
                    continue
                if want is None:
                    r.violation(anchor, "no-reference", "no reference encoding for mode %s of %s: cannot analyse" % (key, name), mb.loc())
                    continue
                got = set()
                where = {}
                cx.excluded = rs
                cx.sum_cache = {}
                for t in cnf.templates(cx, mb):
                    k = _norm(t, Tpath, Rpath)
                    got.add(k)
                    where.setdefault(k, t)
                cx.excluded = {}
                n += 1
                missing = sorted(want - got)
                extra = sorted(got - want)
                if extra and all("?" in str(e) for e in extra):
                    # every unexpected template has an element the extractor could not classify (a literal built by a method of a layout
                    # object, a clause returned by a helper through a function pointer): the mode is not decided rather than compared
                    r.ok(anchor, "NOT decided: %d template(s) hold elements the extractor cannot classify (e.g. %s)" % (len(extra), extra[0]), where[extra[0]].site.loc())
                    continue
                if missing and not extra:
                    # templates not found, none unexpected: if clauses can reach the solver through a construct the extractor does not
                    # follow (a call through a function pointer that is handed the solver), the mode is not decided
                    unf = _unfollowed_solver_calls(prog, mb)
                    if unf:
                        r.ok(anchor, "NOT decided: %d expected templates not found, and the solver is handed to %d call(s) the extractor does not follow (e.g. %s)" % (len(missing), len(unf), unf[0].loc()), unf[0].loc())
                        continue
                r.check(not missing and not extra, anchor, "missing=%s extra=%s" % (missing, extra), "%d clause templates match the reference encoding" % len(got), "clause templates of %s differ from the reference encoding: missing %s, unexpected %s" % (anchor, missing, [(e, str(where[e].site.loc())) for e in extra]), (where[extra[0]].site.loc() if extra else mb.loc()))
    r.floor(n, 12, "encoder modes compared with their reference encoding")
    # every argument gets every clause of its mode: in the encoders whose reference has no case distinction on the framework (the
    # auxiliary-variable and the stable encoders) a clause-issuing call that runs only under a test of the data, with nothing issued on
    # the other branch, leaves a definition out for some arguments (its variable is then free)
    def _issues(body, s_):
        c_ = callee_of(s_)
        if callee_matches(c_, r"sat_solver::SatSolver::add_clause$"):
            return True
        t_ = prog.body_for_callee(c_, body) if c_ and c_.get("decl") != "<indirect>" else None
        return t_ is not None and t_.kind != "closure" and t_.path.startswith("encodings::") and any(callee_matches(callee_of(x), r"sat_solver::SatSolver::add_clause$") for y in prog.reachable_from([t_], virtual_dispatch=False).values() for z in prog.with_closures(y) for x in z.calls())

    nk = 0
    for b in sorted(prog.lib_bodies(), key=lambda x: x.id):
        fnb = prog.enclosing_fn(b)
        if not re.match(r"^encodings::(aux_var_constraints_encoder|stable_constraints_encoder|stable_encoding)", fnb.path.replace("<", "")):
            continue
        for s_ in b.calls():
            if not _issues(b, s_):
                continue
            nk += 1
            for c_ in conditions(b, s_.bb):
                if c_.is_discr:
                    continue
                # a test of the framework's data: its subject is computed from the framework (attack iterators, ids, counts) - a flag that
                # stands for the encoder's mode (`let with_p = !matches!(self, ConflictFreeness)`, a `with_range` parameter) is not
                _, dcalls_, _ = data_deps(b, c_.place)
                if not any(re.search(r"^aa::|AAFramework::|ArgumentSet::|utils::label::|Attack::|Iterator::(next|count|any|all|position|find|peek|size_hint)$|::len$|::is_empty$", callee_decl(callee_of(x)) or "") for x in dcalls_):
                    continue
                sw = c_.switch
                tg = [bb for _, bb in sw.node["targets"]] + ([sw.node["otherwise"]] if sw.node.get("otherwise") is not None else [])
                after = {s_.bb} | b.blocks_reachable_from(s_.bb)
                mine = [t for t in tg if t == s_.bb or b.reaches(t, s_.bb, avoid={sw.bb})]
                others = [t for t in tg if t not in mine]
                other_region = set()
                for t in others:
                    other_region |= ({t} | b.blocks_reachable_from(t, avoid={sw.bb})) - after
                both = any(_issues(b, x) for x in b.calls() if x.bb in other_region)
                anchor = "%s|every-argument" % b.id
                if both:
                    r.ok(anchor, "NOT decided: clauses are issued on both branches of a test of the data", s_.loc())
                else:
                    r.violation(anchor, "definition-skipped", "a clause-issuing step of this encoder runs only under a test of the framework's data and nothing is issued otherwise: for the arguments that fail the test the clauses (the definition of their auxiliary variable) are missing, so that variable is free in every model", s_.loc())
    r.floor(nk, 3, "clause-issuing steps of the auxiliary-variable / stable encoders")
    # the defender sets feeding the product encoding
    cds = [b for b in prog.lib_bodies() if b.kind != "closure" and b.path.startswith("encodings::") and b.ret_ty.startswith("(alloc::vec::Vec<alloc::vec::Vec<sat::sat_solver::Literal>>")]
    if r.require_anchor(len(cds) == 1, "function computing the defender sets (returns (Vec<Vec<Literal>>, Vec<Vec<Literal>>))"):
        b = cds[0]
        cxb = cnf.Ctx(prog)
        tpaths = set()
        pushes = []
        for s in b.calls():
            if callee_decl(callee_of(s)) == "alloc::vec::Vec::push":
                pushes.append(s)
        conflict = None
        defenders = None
        if not pushes:
            r.ok(b.id + "|defenders", "NOT decided: the defender sets are not built by pushes in %s" % b.path.rsplit("::", 1)[-1], b.loc())
            return
        for s in pushes:
            els = cnf.clause_elements(cxb, b, s.node["args"][1])
            desc = sorted("%s%s%s" % (sg, "V", _norm_def_node(nd)) + ("*" if m else "") for sg, kd, nd, m in els)
            if desc == ["-Va", "-Vs"]:
                conflict = s
            elif desc == ["+Vaa*"]:
                defenders = s
        r.check(conflict is not None, b.id + "|conflict", "conflict-clause", "conflict clause [-self, -attacker] per attacker", "the per-attacker conflict clause of the product encoding is not [-self, -attacker]", b.loc())
        r.check(defenders is not None, b.id + "|defenders", "defender-set", "defender set of an attacker = the attackers of that attacker (positive literals)", "the defender sets of the product encoding are not the positive literals of the attackers' attackers", b.loc())
        if defenders is not None:
            _defender_set_per_attacker(prog, r, b, defenders)


def _unfollowed_solver_calls(prog, mb):
    """call sites in the encoders' reach of a method whose callee is not resolved (function pointer, boxed closure) and that receive the
    SAT solver"""
    out = []
    for y in prog.reachable_from([mb], virtual_dispatch=False).values():
        if not (y.path.startswith("encodings::") or "<encodings::" in y.path.split(" as ")[0]):
            continue
        for z in prog.with_closures(y):
            for s in z.calls():
                c = callee_of(s)
                unresolved = c is None or c.get("decl") == "<indirect>" or (callee_matches(c, r"ops::function::Fn(Mut|Once)?::call(_mut|_once)?$") and prog.body_for_callee(c, z) is None)
                if not unresolved:
                    continue
                for a in s.node.get("args") or []:
                    q = op_place(a)
                    if q is not None and "SatSolver" in z.local_ty(q["l"]):
                        out.append(s)
                        break
                    if q is not None and z.local_ty(q["l"]).startswith("("):
                        # Fn::call packs the arguments in a tuple
                        if "SatSolver" in z.local_ty(q["l"]):
                            out.append(s)
                            break
    return out


def _defender_set_per_attacker(prog, r, b, push):
    """every attacker met by the iteration contributes a defender set: the push lies on every path through the body of the loop
    (or per-element closure) and the iterated sequence is not filtered"""
    from .. import prov as pv, tags

    anchor = b.id + "|defenders"
    body = push.body
    if body.kind == "closure":
        rets = [bb for bb in body.reachable if body.blocks[bb]["term"]["k"] == "return"]
        seen = {0} if push.bb != 0 else set()
        st = list(seen)
        while st:
            x = st.pop()
            for sc in body.succ[x]:
                if sc != push.bb and sc not in seen and not body.blocks[sc]["cleanup"]:
                    seen.add(sc)
                    st.append(sc)
        skip = [bb for bb in rets if bb in seen]
        r.check(not skip, anchor, "defender-set-skipped", "the per-attacker closure pushes a defender set on every path", "the per-attacker closure %s can return without pushing a defender set: the attacker is left undefended-against" % body.path, push.loc())
        return
    loops = [(h, blks) for h, blks in body.loops() if push.bb in blks]
    if not loops:
        r.ok(anchor, "the defender-set push is not inside a loop: one-set-per-attacker NOT decided", push.loc())
        return
    h, blks = min(loops, key=lambda x: len(x[1]))
    seen = {h}
    st = [h]
    back = False
    while st:
        x = st.pop()
        for sc in body.succ[x]:
            if sc == h:
                back = True
                continue
            if sc in blks and sc != push.bb and sc not in seen and not body.blocks[sc]["cleanup"]:
                seen.add(sc)
                st.append(sc)
    r.check(not back, anchor, "defender-set-skipped", "every iteration of the attacker loop pushes a defender set", "an iteration of the attacker loop of %s can go round without pushing a defender set: that attacker needs no defender in the encoding" % body.path, push.loc())
    # the iterated sequence: all attacks to the argument, unfiltered
    nexts = [s for s in body.calls() if s.bb in blks and callee_decl(callee_of(s)) == "core::iter::traits::iterator::Iterator::next"]
    outer = [s for s in nexts if all(s.bb in bl for hh, bl in loops)]
    for s in outer[:1]:
        _, calls, _ = data_deps(body, s.node["args"][0])
        filt = [c for c in calls if callee_decl(callee_of(c)) in tags.FILTERING]
        r.check(not filt, anchor, "attackers-filtered", "the attacker loop iterates the unfiltered attack list", "the attacker loop of %s iterates a filtered list (%s): some attackers get neither conflict clause nor defender set" % (body.path, ", ".join(callee_decl(callee_of(c)).rsplit("::", 1)[-1] for c in filt)), s.loc())


def _norm_def_node(n):
    if isinstance(n, tuple) and n and n[0] == "lab":
        return "s"
    if isinstance(n, tuple) and n and n[0] == "attacker":
        return "a" + (_norm_def_node(n[1]) if _norm_def_node(n[1]) != "s" else "")
    return "?"
