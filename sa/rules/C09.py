"""C09 - redundant or invalid updates never corrupt a dynamic solver"""
from . import dyn, store


def run(ctx):
    dyn.rule_err_capability(ctx)
    dyn.rule_noop_insertion(ctx)
    dyn.rule_cache_barriers(ctx)
    dyn.rule_log_and_replay(ctx)
    dyn.rule_dummy_delegation(ctx)
    store.rule_error_before_mutation(ctx)
    store.rule_idempotent_insertions(ctx)
    store.rule_index_pairing(ctx)
    store.rule_attack_orientation(ctx)
    ctx.assume("rustc's MIR and resolved callees; AAFramework::new_argument ignores existing labels (checked by C12's rules, shared here)")
    return (
        "Return-source analysis of the 6x3 Result-returning DynamicSolver methods through the call graph (Err-capability), control-dependence "
        "of encoder table growth on a freshness test after a possibly-no-op insertion (F4), delegation shape of the recompute-from-scratch "
        "wrapper (F5), and the framework store's error-before-mutation / idempotent-insertion obligations (shared with C12). Does not decide "
        "that all later answers equal those of the framework without the rejected operation (value clause)."
    )
