"""C17 - a failing SAT backend never turns into an answer"""
from . import satlayer, cli
from ..core import callee_of, callee_matches, callee_is


def run(ctx):
    satlayer.rule_unwrap(ctx)
    satlayer.rule_verdict_tables(ctx)
    satlayer.rule_reply_parser(ctx)
    satlayer.rule_reply_read_errors_abort(ctx)
    cli.rule_no_catch_unwind(ctx)
    cli.rule_single_exit(ctx)
    cli.rule_answer_after_solver(ctx)
    ctx.assume("rustc's MIR and Instance::try_resolve for the resolved callees")
    ctx.assume("a panic unwinds to main (no catch_unwind in the package: checked) and ends the process with a non-zero status")
    ctx.assume("the back end's own verdict (cadical / the external program's status line) is trusted")
    return (
        "F3 result-consumption over every SAT solve site outside src/sat, F5 verdict tables of the SatSolver impls and of "
        "unwrap_model, flag/guard analysis of the textual reply parser, who-may-call on catch_unwind/process::exit, and "
        "answer-after-solver dominance in the solve command. Decides that no path converts an undecided or malformed back-end "
        "reply into a status or certificate; does not decide anything about the values of decided replies."
    )
