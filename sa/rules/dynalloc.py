"""C08: SAT-variable allocation discipline, selector retirement, slot exhaustion."""
import re

from ..core import (
    switch_sites,
    Site,
    callee_of,
    callee_is,
    callee_name,
    callee_decl,
    callee_matches,
    strip_generics,
    op_place,
    op_const,
    origins,
    data_deps,
    derives_from_local,
    place_fields,
    self_fields_read,
)
from ..flow import conditions, consumers
from ..census import field_uses
from .dyn import dyn_impls

NVARS = r"sat_solver::SatSolver::n_vars$"
LIT_FROM = r"^<sat::sat_solver::Literal as core::convert::From<isize>>::from$|Literal.*From.*::from$"


def nvars_alloc_sites(body):
    """sites computing `n_vars() + 1` (either operand order)"""
    out = []
    for s in body.sites():
        n = s.node
        if s.si is None or n["k"] != "assign" or n["rv"]["k"] != "binop":
            continue
        rv = n["rv"]
        if rv["op"] not in ("Add", "AddWithOverflow"):
            continue
        ks = [op_const(o) for o in rv["ops"]]
        if not any(k is not None and k.get("int") == 1 for k in ks):
            continue
        other = [o for o, k in zip(rv["ops"], ks) if k is None]
        if not other:
            continue
        _, calls, _ = data_deps(body, other[0])
        if any(callee_matches(callee_of(c), NVARS) for c in calls):
            out.append(s)
    return out


def counter_allocators(prog):
    """functions returning `len(self.f) - 1` after pushing on self.f"""
    out = []
    for b in prog.lib_bodies():
        if b.kind == "closure" or b.ret_ty != "usize" or not b.impl:
            continue
        if not (b.path.startswith("dynamics::") or "<dynamics::" in b.path.split(" as ")[0]):
            continue  # an id handed out by the label store is no SAT variable
        fields_pushed = set()
        for s in b.calls():
            if callee_matches(callee_of(s), r"^alloc::vec::Vec::push$"):
                fields_pushed |= self_fields_read(b, s.node["args"][0], through_calls=False)
        if not fields_pushed:
            continue
        for o in origins(b, {"l": 0, "p": []}, transparent=()):
            if o.kind == "binop" and o.data["op"] in ("Sub", "SubWithOverflow"):
                k = op_const(o.data["ops"][1])
                _, calls, _ = data_deps(b, o.data["ops"][0])
                if k is not None and k.get("int") == 1 and any(callee_matches(callee_of(c), r"^alloc::vec::Vec::len$") for c in calls):
                    if self_fields_read(b, o.data["ops"][0]) & fields_pushed:
                        out.append(b)
            elif o.kind == "call" and callee_matches(o.data, r"^alloc::vec::Vec::len$") and (self_fields_read(b, o.site.node["args"][0], through_calls=False) & fields_pushed):
                # `let v = self.f.len(); self.f.push(..); v`: the length read before the push
                if any(callee_matches(callee_of(s), r"^alloc::vec::Vec::push$") and b.dominates(o.site, s) and (self_fields_read(b, s.node["args"][0], through_calls=False) & self_fields_read(b, o.site.node["args"][0], through_calls=False)) for s in b.calls()):
                    if b not in out:
                        out.append(b)
    return out


def rule_allocators(ctx):
    prog = ctx.prog
    r = ctx.rule(
        "alloc-mix",
        "on a SAT solver shared through an Rc handle, fresh variables are handed out by one discipline: a private counter allocator may "
        "coexist with `n_vars()+1` allocation reachable from the same owner only if the counter function itself reads n_vars()",
    )
    counters = counter_allocators(prog)
    if not r.require_anchor(counters, "counter allocator (push + len-1) in src/dynamics"):
        return
    holders = []
    for path, adt in sorted(prog.adts.items()):
        for v in adt["variants"]:
            for f in v["fields"]:
                if re.search(r"^alloc::rc::Rc<core::cell::RefCell<alloc::boxed::Box<\(?dyn sat::sat_solver::SatSolver", f["ty"]):
                    holders.append((path, f["name"]))
    r.floor(len(holders), 6, "structs holding a shared SAT solver handle")
    n_checked = 0
    for cf in counters:
        reads_nvars = any(callee_matches(callee_of(s), NVARS) for s in cf.calls())
        for hpath, hfield in holders:
            methods = [b for b in prog.lib_bodies() if b.kind != "closure" and b.impl and b.impl.get("self_adt") == hpath]
            reach = prog.reachable_from(methods, virtual_dispatch=False)
            if cf.id not in reach:
                continue
            # n_vars()+1 allocations reachable from the holder, outside the counter function
            others = []
            for x in reach.values():
                if x is cf:
                    continue
                for s in nvars_alloc_sites(x):
                    others.append((x, s))
            n_checked += 1
            if not others:
                r.ok("%s|%s" % (hpath, cf.path), "only the counter allocator is reachable from %s" % hpath, cf.loc())
                continue
            where = sorted({prog.enclosing_fn(x).path for x, _ in others})
            r.check(
                reads_nvars,
                "%s.%s" % (hpath, hfield),
                "{n_vars+1 via %s, counter via %s}" % (",".join(strip_generics(w).rsplit("::", 2)[-2] + "::" + w.rsplit("::", 1)[-1] for w in where), cf.path.rsplit("::", 1)[-1]),
                "counter allocator %s follows the solver's variable count" % cf.path,
                "%s allocates SAT variables both by `n_vars()+1` (%s) and by the private counter %s, which never learns about the former: a later argument can be given a variable already used as a selector" % (hpath, where, cf.path),
                others[0][1].loc(),
            )
    r.floor(n_checked, 3, "(holder, counter allocator) pairs")
    # a counter allocator that follows the solver's count hands out a variable *above* it: the table is padded until its length exceeds
    # n_vars() before the new entry is pushed (the new variable is the index of that entry)
    from .grounded import inherited_conditions, _cond_trees, _is_call
    from .splits import linear
    from ..prov import show

    def _atom(t):
        if _is_call(t, r"Vec::len$", 1):
            return "LEN"
        if _is_call(t, r"SatSolver::n_vars$"):
            return "N"
        return None

    for cf in counters:
        if not any(callee_matches(callee_of(s), NVARS) for s in cf.calls()):
            continue
        pushes = [s for s in cf.calls() if callee_matches(callee_of(s), r"^alloc::vec::Vec::push$") and cf.postdominates(s, (0, -1))]
        if not pushes:
            r.ok(cf.id + "|above", "NOT decided: no push of the new entry on every path", cf.loc())
            continue
        ps = pushes[-1]
        best = None
        seen_cmp = False
        for e, t in _cond_trees(prog, inherited_conditions(prog, cf, ps.bb)):
            if e[0] != "op" or e[1] not in ("Lt", "Le", "Gt", "Ge") or len(e[2]) != 2:
                continue
            a, b2 = linear(e[2][0], _atom), linear(e[2][1], _atom)
            if a is None or b2 is None:
                continue
            d = dict(a)
            for k, v in b2.items():
                d[k] = d.get(k, 0) - v
            d = {k: v for k, v in d.items() if v != 0}
            k0 = d.pop(1, 0)
            op = e[1] if t else {"Lt": "Ge", "Le": "Gt", "Gt": "Le", "Ge": "Lt"}[e[1]]
            if d == {"LEN": -1, "N": 1}:
                op = {"Lt": "Gt", "Le": "Ge", "Gt": "Lt", "Ge": "Le"}[op]
                k0 = -k0
            elif d != {"LEN": 1, "N": -1}:
                continue
            seen_cmp = True
            # LEN - N + k0 op 0
            if op == "Ge":
                lb = -k0
            elif op == "Gt":
                lb = -k0 + 1
            else:
                continue
            best = lb if best is None else max(best, lb)
        if best is None:
            r.ok(cf.id + "|above", "NOT decided: no comparison of the table length with n_vars() governs the push of the new entry%s" % (" (only upper bounds)" if seen_cmp else ""), ps.loc())
        else:
            r.check(best >= 1, cf.id + "|above", "counter-not-above-solver-count:len>=n%+d" % best, "the new variable (index of the pushed entry) is above n_vars(): the table is padded until len >= n_vars() + %d" % best, "the counter allocator pads its table only until its length is n_vars() %+d: the variable it hands out (the index of the next entry) can be one the solver already has - e.g. the selector a search created with `n_vars() + 1`" % best, ps.loc())


def id_label_roots(prog, body, idop, depth=0):
    """parameters of `body` holding the label whose id this operand is:
    id = Label::id(unwrap(ArgumentSet::get_argument(_, L)))  or a local helper returning such an id"""
    roots = set()
    for o in origins(body, idop, transparent=()):
        if o.kind != "call":
            continue
        c = o.data
        nm = strip_generics(callee_name(c) or "")
        if nm == "utils::label::Label::id":
            for oo in origins(body, o.site.node["args"][0]):
                if oo.kind == "call" and callee_matches(oo.data, r"^aa::arguments::ArgumentSet::get_argument$|^utils::label::LabelSet::get_label$"):
                    for o3 in origins(body, oo.site.node["args"][1]):
                        if o3.kind == "param":
                            roots.add(("param", o3.data))
                        elif o3.kind == "upvar":
                            roots.add(("upvar", o3.data))
                        else:
                            roots.add(("local", repr(o3.key())))
        else:
            tgt = prog.body_for_callee(c, body) if c.get("decl") != "<indirect>" else None
            if tgt is not None and tgt.ret_ty == "usize" and depth < 3:
                for kind, k in id_label_roots(prog, tgt, {"l": 0, "p": []}, depth + 1):
                    if kind == "param" and k - 1 < len(o.site.node["args"]):
                        for o3 in origins(body, o.site.node["args"][k - 1]):
                            if o3.kind == "param":
                                roots.add(("param", o3.data))
                            elif o3.kind == "upvar":
                                roots.add(("upvar", o3.data))
                            else:
                                roots.add(("local", repr(o3.key())))
    return roots


def _label_roots(body, op):
    out = set()
    for o3 in origins(body, op):
        if o3.kind == "param":
            out.add(("param", o3.data))
        elif o3.kind == "upvar":
            out.add(("upvar", o3.data))
        else:
            out.add(("local", repr(o3.key())))
    return out


_UPDATE_RE = r"::(new_argument|remove_argument|new_attack|remove_attack|update_encoding|update_attacks_to_constraints_if_needed)$"


def _reencode_family(prog, owner, reb):
    """{path: body} of the encoder's own functions through which the selector-issuing function is reached (the re-encoding entry and
    its wrappers), the four update methods excluded"""
    fam = {strip_generics(reb.path): reb}
    changed = True
    while changed:
        changed = False
        for f in list(fam.values()):
            for cs in prog.callers_of(f):
                fn = prog.enclosing_fn(cs.body)
                if fn.kind != "closure" and fn.impl and fn.impl.get("self_adt") == owner and not re.search(_UPDATE_RE, fn.path) and strip_generics(fn.path) not in fam:
                    fam[strip_generics(fn.path)] = fn
                    changed = True
    return fam


def _arg_label_roots(prog, b, x):
    """label roots of what a call designates: ids (`usize` arguments traced to `get_argument(label).id()`) and labels handed over as such"""
    got = set()
    tgt = prog.body_for_callee(callee_of(x), b) if callee_of(x) else None
    for i, a in enumerate(x.node["args"]):
        if op_place(a) is None:
            continue
        ty = tgt.local_ty(i + 1) if tgt is not None and i + 1 <= tgt.n_args else ""
        if ty == "usize":
            got |= id_label_roots(prog, b, a)
        elif re.match(r"^&T$|^&alloc::string::String$|^&usize$", ty):
            got |= {x2 for x2 in _label_roots(b, a) if x2[0] in ("param", "upvar")}
    return got


def rule_selector_retirement(ctx):
    prog = ctx.prog
    r = ctx.rule(
        "selector-retirement",
        "selector-based encoder: constraints are re-issued for the *attacked* argument of a changed attack; re-issuing retires the recorded "
        "selector (unit clause of its negation and removal from the active assumptions) exactly when one is recorded, then records the new one",
    )
    # the re-encoding function: pushes a fresh selector literal on the assumptions field
    enc = None
    for b in prog.lib_bodies():
        if b.kind == "closure" or not b.path.startswith("dynamics::") or not b.impl:
            continue
        adt = prog.adt(b.impl.get("self_adt") or "")
        if not adt:
            continue
        lit_vecs = [f["name"] for v in adt["variants"] for f in v["fields"] if f["ty"] == "alloc::vec::Vec<sat::sat_solver::Literal>"]
        if not lit_vecs:
            continue
        for u in field_uses(prog, adt["path"], lit_vecs[0], bodies=[b]):
            if u.op == "alloc::vec::Vec::push":
                enc = (b, adt, lit_vecs[0])
    if not r.require_anchor(enc, "re-encoding function pushing a selector on the active-assumption list"):
        return
    reb, adt, afield = enc
    owner = adt["path"]
    # (b) retirement
    retire = None
    for b in prog.lib_bodies():
        if b.impl and b.impl.get("self_adt") == owner and b.kind != "closure":
            us = [u for u in field_uses(prog, owner, afield, bodies=[b]) if u.mut and u.op in ("alloc::vec::Vec::swap_remove", "alloc::vec::Vec::remove", "alloc::vec::Vec::retain")]
            if us:
                retire = (b, us[0])
    if r.require_anchor(retire, "function removing a selector from the active-assumption list"):
        rb, ru = retire
        adds = [s for s in rb.calls() if callee_matches(callee_of(s), r"sat_solver::SatSolver::add_clause$")]
        ok_unit = False
        for s in adds:
            if rb.postdominates(s, (0, -1)):
                # unit clause of the negated selector literal built from the parameter
                _, calls, _ = data_deps(rb, s.node["args"][1])
                neg = any(callee_matches(callee_of(c), r"sat_solver::Literal::negate$") for c in calls)
                from_param = derives_from_local(rb, s.node["args"][1], 2)
                ok_unit = ok_unit or (neg and from_param)
        # ... or through a helper of the same type that adds the clause it is given (`retire_solver_var(var, fixing_lit)`)
        for s in rb.calls():
            t = prog.body_for_callee(callee_of(s), rb) if callee_of(s) else None
            if t is None or t.kind == "closure" or not t.impl or t.impl.get("self_adt") != owner or not rb.postdominates(s, (0, -1)):
                continue
            for s2 in t.calls():
                if not callee_matches(callee_of(s2), r"sat_solver::SatSolver::add_clause$") or not t.postdominates(s2, (0, -1)):
                    continue
                for k in range(2, t.n_args + 1):
                    if derives_from_local(t, s2.node["args"][1], k) and k - 1 < len(s.node["args"]):
                        a = s.node["args"][k - 1]
                        _, calls, _ = data_deps(rb, a)
                        neg = any(callee_matches(callee_of(c), r"sat_solver::Literal::negate$") for c in calls)
                        if neg and derives_from_local(rb, a, 2):
                            ok_unit = True
        if not ok_unit:
            # ... or through a helper that adds every clause of the vector it is given: `self.add_clauses(vec![vec![selector_lit.negate()]])`
            from .dyncnf import adds_clauses_of_param, clauses_of_vec_literal

            for s in rb.calls():
                t = prog.body_for_callee(callee_of(s), rb) if callee_of(s) else None
                if t is None or t.kind == "closure" or not t.impl or t.impl.get("self_adt") != owner or not rb.postdominates(s, (0, -1)):
                    continue
                kk = adds_clauses_of_param(prog, t)
                if kk is None or kk - 1 >= len(s.node["args"]):
                    continue
                cls = clauses_of_vec_literal(prog, rb, s.node["args"][kk - 1])
                for co in cls or []:
                    _, calls, _ = data_deps(rb, co)
                    if any(callee_matches(callee_of(c), r"sat_solver::Literal::negate$") for c in calls) and derives_from_local(rb, co, 2):
                        ok_unit = True
        r.check(ok_unit, rb.id, "no-unit-clause", "retiring adds the unit clause of the negated selector on every path", "retiring a selector does not add the unit clause of its negation", rb.loc())
        r.check(rb.postdominates(ru.site, (0, -1)), rb.id, "assumption-kept", "retiring removes the selector from the active assumptions on every path", "a retired selector can stay in the active assumptions", ru.site.loc())
        # called from the re-encoding function on the Some arm of the recorded selector (directly, or through a wrapper of the
        # same type that tests the recorded selector itself)
        def _is_call_to(x, target):
            c = callee_of(x)
            return bool(c) and (c.get("decl") == target.path or strip_generics(callee_name(c) or "") == strip_generics(target.path))

        def _on_some_arm(body, site):
            return any(c.is_discr and not c.negated and c.values == ["1"] for c in conditions(body, site.bb))

        chains = []
        for member in _reencode_family(prog, owner, reb).values():
            for x in member.calls():
                if _is_call_to(x, rb):
                    chains.append([(member, x)])
                    continue
                t = prog.body_for_callee(callee_of(x), member) if callee_of(x) else None
                if t is not None and t.kind != "closure" and t.impl and t.impl.get("self_adt") == owner:
                    for y in t.calls():
                        if _is_call_to(y, rb):
                            chains.append([(member, x), (t, y)])
        ok_arm = any(any(_on_some_arm(bd, st) for bd, st in ch) for ch in chains)
        r.check(bool(chains) and ok_arm, reb.id, "retire-unconditional-or-missing", "re-issuing retires the previous selector when one is recorded", "re-issuing constraints does not retire the previously recorded selector", reb.loc())
    # record of the new selector: table store Some(..) after the push
    tbl = [f["name"] for v in adt["variants"] for f in v["fields"] if f["ty"] == "alloc::vec::Vec<core::option::Option<usize>>"]
    stores = []
    for f in tbl:
        for u in field_uses(prog, owner, f, bodies=[reb]):
            if u.mut and u.op.startswith("index_mut>store-through") and u.op.endswith(":Some"):
                stores.append(u)
    from .dyncnf import bundled_tables

    if not tbl and bundled_tables(prog, adt):
        r.ok(reb.id, "NOT decided: the per-argument selector table is a field of the elements of a vector of %s" % bundled_tables(prog, adt)[0][1].rsplit("::", 1)[-1], reb.loc())
        stores = [None]
    r.check(bool(stores), reb.id, "selector-not-recorded", "the new selector is recorded in the per-argument table", "the new selector is not recorded in the per-argument table", reb.loc())
    # (a) which argument is re-encoded
    n = 0
    for b in prog.lib_bodies():
        fn = prog.enclosing_fn(b)
        if not fn.path.startswith("dynamics::"):
            continue
        for s in b.calls():
            c = callee_of(s)
            if not callee_matches(c, r"^aa::aa_framework::AAFramework::(new_attack|remove_attack)$"):
                continue
            if not (fn.impl and fn.impl.get("self_adt") == owner):
                continue
            n += 1
            roots_to = _label_roots(b, s.node["args"][2])
            fam = _reencode_family(prog, owner, reb)
            recalls = [x for x in b.calls() if strip_generics(callee_name(callee_of(x)) or "") in fam and b.reaches(s.bb, x.bb)]
            ok = bool(recalls)
            for x in recalls:
                got = _arg_label_roots(prog, b, x)
                if not got or not got <= roots_to:
                    ok = False
            r.check(ok, b.id, "wrong-argument-reencoded", "after %s the attacked argument is re-encoded" % strip_generics(callee_name(c)).rsplit("::", 1)[-1], "after %s the constraints of the attacked argument are not re-issued (id does not derive from the `to` operand)" % strip_generics(callee_name(c)).rsplit("::", 1)[-1], s.loc())
    r.floor(n, 2, "attack updates in the selector-based encoder")
    # buffered replay: the id registered for re-encoding derives from the attacked label
    n2 = 0
    for b in prog.lib_bodies():
        fnb = prog.enclosing_fn(b)
        if fnb.impl and fnb.impl.get("self_adt") == owner:
            continue  # the encoder itself: checked above
        for s in b.calls():
            c = callee_of(s)
            if c and strip_generics(callee_name(c)) in (strip_generics(owner + "::new_attack"), strip_generics(owner + "::remove_attack")):
                n2 += 1
                roots_to = _label_roots(b, s.node["args"][3])
                ok = False
                bad = False
                heads = set(b.in_loop(s.bb))
                for x in b.calls():
                    if x.bb != s.bb and b.reaches(s.bb, x.bb, avoid=heads) and not b.reaches(x.bb, s.bb, avoid=heads):
                        for op in _registration_operands(prog, b, x):
                            got = id_label_roots(prog, b, op) or ({z for z in _label_roots(b, op) if z[0] in ("param", "upvar")} if _is_label_operand(b, op) else set())
                            if got and got <= roots_to:
                                ok = True
                            elif got:
                                bad = True
                r.check(ok and not bad, b.id + "|" + strip_generics(callee_name(c)).rsplit("::", 1)[-1], "replay-wrong-argument", "replay registers the attacked argument for re-encoding", "the replay registers an argument other than the attacked one for re-encoding", s.loc())
    r.floor(n2, 2, "attack replays in the buffered selector-based encoder")


def rule_slot_exhaustion(ctx):
    prog = ctx.prog
    r = ctx.rule(
        "slot-exhaustion",
        "attack-assumption encoder: the must-re-encode flag is raised when the next argument slot reaches the number of slots; the encode "
        "functions clear the flag and rebuild every table before use; the assumptions of a query are recomputed from the framework in that query",
    )
    # owner: struct in dynamics with a bool field and an f64 field (reservation factor)
    owner = None
    for path, adt in sorted(prog.adts.items()):
        if not path.startswith("dynamics::"):
            continue
        tys = [f["ty"] for v in adt["variants"] for f in v["fields"]]
        if "f64" in tys and "bool" in tys and any("SatSolver" in t for t in tys):
            owner = adt
    if not r.require_anchor(owner, "attack-assumption encoder (struct with reservation factor, flag and shared solver)"):
        return
    opath = owner["path"]
    flag = [f["name"] for v in owner["variants"] for f in v["fields"] if f["ty"] == "bool"]
    if not r.require_anchor(len(flag) == 1, "single bool flag field"):
        return
    flag = flag[0]
    sets_true = []
    sets_false = []
    raised_by_value = []
    for u in field_uses(prog, opath, flag):
        if u.mut and u.op == "store":
            n = u.site.node
            k = op_const(n["rv"]["ops"][0]) if n["rv"]["k"] == "use" else None
            if k is not None and k.get("bool") is True:
                sets_true.append(u)
            elif k is not None and k.get("bool") is False:
                sets_false.append(u)
            else:
                # `flag = flag || (next >= n)`: the stored bool is the flag itself, `true`, or a comparison of two fields
                bq = u.site.body
                os_ = origins(bq, n["rv"]["ops"][0], transparent=()) if n["rv"]["k"] == "use" else []
                cmpf = False
                other = False
                for o in os_:
                    if o.kind == "binop" and o.data["op"] in ("Ge", "Gt", "Le", "Lt", "Eq"):
                        fa = self_fields_read(bq, o.data["ops"][0], through_calls=False)
                        fb = self_fields_read(bq, o.data["ops"][1], through_calls=False)
                        if fa and fb and fa != fb:
                            cmpf = True
                        else:
                            other = True
                    elif o.kind == "const" and o.data.get("bool") is True:
                        continue
                    elif o.kind == "param" and o.fields and str(o.fields[-1]) == flag:
                        continue
                    else:
                        other = True
                if cmpf and not other:
                    raised_by_value.append(u)
                elif os_:
                    r.ok(opath + "." + flag, "NOT decided: the re-encode flag is assigned a computed value the rule does not follow", u.site.loc())
                else:
                    r.violation(opath + "." + flag, "non-constant-store", "the re-encode flag is assigned a non-constant value", u.site.loc())
    for u in raised_by_value:
        r.ok(u.fn.id + "|raise", "flag raised by the value of a comparison of the next slot with the slot count (`flag = flag || cmp`)", u.site.loc())
    r.floor(len(sets_true) + len(raised_by_value), 1, "sites raising the re-encode flag")
    for u in sets_true:
        b = u.site.body
        ok = False
        for c in conditions(b, u.site.bb):
            for o in origins(b, c.place, transparent=()):
                if o.kind == "binop" and o.data["op"] in ("Ge", "Gt", "Le", "Lt", "Eq") and c.is_true() or (o.kind == "binop" and o.data["op"] in ("Lt", "Le") and c.is_false()):
                    a, bb_ = o.data["ops"]
                    fa = self_fields_read(b, a, through_calls=False)
                    fb = self_fields_read(b, bb_, through_calls=False)
                    if fa and fb and fa != fb:
                        ok = True
        r.check(ok, u.fn.id + "|raise", "unguarded-raise", "flag raised under a comparison of the next slot with the slot count", "the re-encode flag is not raised by a comparison of the next slot with the number of slots", u.site.loc())
    # encode functions: clear the flag and rebuild tables
    tables = [f["name"] for v in owner["variants"] for f in v["fields"] if f["ty"].startswith("alloc::vec::Vec<")]
    scalars = [f["name"] for v in owner["variants"] for f in v["fields"] if f["ty"] == "usize"]
    r.floor(len(sets_false), 1, "sites clearing the re-encode flag")
    # entry functions of a full re-encoding: owner methods that test the flag and (themselves or through helper methods of
    # the owner) clear it; the *region* of an entry = the entry and the owner methods reachable from it
    clear_bodies = {u.fn.id for u in sets_false}
    entries = []
    for fnb in prog.lib_bodies():
        if fnb.kind == "closure" or not fnb.impl or fnb.impl.get("self_adt") != opath:
            continue
        region = [x for x in prog.reachable_from([fnb], virtual_dispatch=False).values() if prog.enclosing_fn(x).impl and prog.enclosing_fn(x).impl.get("self_adt") == opath]
        if not any(prog.enclosing_fn(x).id in clear_bodies for x in region):
            continue
        tests_flag = [sw for sw in switch_sites(fnb) if flag in self_fields_read(fnb, sw.node["discr"], through_calls=False)]
        if not tests_flag:
            continue
        entries.append((fnb, region))
    # two encode functions of their own, or one shared entry that several owner methods call
    shared = sum(len([c for c in prog.callers_of(fnb) if prog.enclosing_fn(c.body).impl and prog.enclosing_fn(c.body).impl.get("self_adt") == opath]) for fnb, _ in entries)
    r.floor(max(len(entries), shared), 2, "encode functions clearing the flag")
    for fnb, region in entries:
        # whole-field assignments somewhere in the region
        missing = []
        for f in tables + scalars:
            st = [x for x in field_uses(prog, opath, f, bodies=region) if x.mut and x.op.startswith("store") and not x.op.startswith("store-elem")]
            if not st:
                missing.append(f)
        r.check(not missing, fnb.id, "tables-not-rebuilt:%s" % missing, "encode function reassigns every table (%s)" % (tables + scalars), "the full re-encoding does not rebuild %s" % missing, fnb.loc())
        # solver replaced by a fresh one:  *self.solver.borrow_mut() = factory()
        fresh = False
        for x in region:
            for s in x.sites():
                n = s.node
                if s.si is not None and n["k"] == "assign" and n["dst"]["p"] and n["dst"]["p"][0] == "*":
                    if any(o.kind == "call" and callee_matches(o.data, r"cell::RefCell::borrow_mut$") for o in origins(x, {"l": n["dst"]["l"], "p": []}, transparent=("core::ops::deref::DerefMut::deref_mut", "core::ops::deref::Deref::deref"))):
                        if any(o.kind == "call" and (callee_matches(o.data, r"ops::function::Fn::call$") or o.data.get("decl") == "<indirect>") for o in origins(x, n["rv"]["ops"][0], transparent=())):
                            fresh = True
        r.check(fresh, fnb.id, "solver-not-replaced", "the full re-encoding starts from a fresh SAT solver", "the full re-encoding keeps the old SAT solver (stale clauses survive)", fnb.loc())
        # the guard: the clearing (or the call leading to it) happens only when the flag is set
        guarded = False
        sites = [u.site for u in sets_false if u.fn is fnb]
        for s2, t in prog.callees(fnb, include_closures=False, virtual_dispatch=False):
            if any(prog.enclosing_fn(y).id in clear_bodies for y in prog.reachable_from([t], virtual_dispatch=False).values()):
                sites.append(s2)
        for st in sites:
            for c in conditions(fnb, st.bb):
                if flag in self_fields_read(fnb, c.place, through_calls=False):
                    guarded = True
        r.check(guarded, fnb.id, "unguarded-encode", "re-encoding happens only when the flag is set", loc=fnb.loc())
    # assumptions recomputed in each query
    n = 0
    types_seen = set()
    for imp in dyn_impls(prog):
        sadt = prog.adt(imp.get("self_adt") or "")
        if not sadt:
            continue
        # solvers whose encoder is the attack-assumption one
        if not any(opath.rsplit("::", 2)[0] in f["ty"] for v in sadt["variants"] for f in v["fields"]):
            continue
        # the methods of the solver, and the helpers of the dynamics module its queries hand the SAT call to (a shared `answer_query` of the encoder)
        own = [b for b in prog.lib_bodies() if b.kind != "closure" and b.impl and b.impl.get("self_adt") == sadt["path"]]
        extra = [x for x in prog.reachable_from(own, virtual_dispatch=False).values() if x.kind != "closure" and x not in own and x.impl and not x.impl.get("trait") and (x.impl.get("self_adt") or "").startswith("dynamics::") and any(callee_matches(callee_of(s), r"SatSolver::solve_under_assumptions$") for s in x.calls())]
        for b in own + extra:
            for s in b.calls():
                if callee_matches(callee_of(s), r"SatSolver::solve_under_assumptions$"):
                    n += 1
                    types_seen.add(sadt["path"])
                    _, calls, _ = data_deps(b, s.node["args"][1])
                    ok = any(strip_generics(callee_name(callee_of(c)) or "") == opath + "::assumptions" for c in calls)
                    if not ok:
                        # ... built by a private helper of the solver (`query_assumptions(arg)`) that asks the encoder
                        for c in calls:
                            t = prog.body_for_callee(callee_of(c), b) if callee_of(c) else None
                            if t is not None and t.kind != "closure" and t.impl and t.impl.get("self_adt") == sadt["path"] and "Vec<sat::sat_solver::Literal>" in t.ret_ty:
                                _, c2, _ = data_deps(t, {"l": 0, "p": []})
                                if any(strip_generics(callee_name(callee_of(x)) or "") == opath + "::assumptions" for x in c2):
                                    ok = True
                    r.check(ok, b.id, "stale-assumptions", "assumptions are recomputed from the framework inside the query", "the query does not recompute the attack assumptions from the current framework", s.loc())
    r.note("%d SAT calls of the attack-assumption solvers analysed" % n)
    r.floor(len(types_seen), 2, "attack-assumption solver types whose SAT calls were analysed")


# ------------------------------------------------------------------------------------------
# found by seeded change C08/A: removal of an argument changes the attacker sets of everything it attacked


def _selector_encoder(prog):
    """(adt, re-encoding function) of the selector-based encoder"""
    for b in prog.lib_bodies():
        if b.kind == "closure" or not b.path.startswith("dynamics::") or not b.impl:
            continue
        adt = prog.adt(b.impl.get("self_adt") or "")
        if not adt:
            continue
        lit_vecs = [f["name"] for v in adt["variants"] for f in v["fields"] if f["ty"] == "alloc::vec::Vec<sat::sat_solver::Literal>"]
        if not lit_vecs:
            continue
        for u in field_uses(prog, adt["path"], lit_vecs[0], bodies=[b]):
            if u.op == "alloc::vec::Vec::push":
                return adt, b
    return None, None


def _derives_from_attacked_of(body, op, prog):
    """does the operand depend on Attack::attacked of an iter_attacks_from*(..) iteration"""
    seen, calls, _ = data_deps(body, op)
    names = set()
    for c in calls:
        names.add(callee_decl(callee_of(c)))
        for fa in (callee_of(c) or {}).get("fn_args") or []:
            cb = prog.lib(fa)
            if cb is not None:
                for s in cb.calls():
                    names.add(callee_decl(callee_of(s)))
    has_iter = any(re.search(r"AAFramework::iter_attacks_from(_id)?$", n) for n in names)
    has_attacked = any(n.endswith("aa_framework::Attack::attacked") for n in names)
    has_attacker_only = any(n.endswith("aa_framework::Attack::attacker") for n in names) and not has_attacked
    return has_iter and has_attacked and not has_attacker_only


def _is_label_operand(b, op):
    q = op_place(op)
    if q is None:
        return False
    ty = b.local_ty(q["l"])
    for e in q["p"]:
        if isinstance(e, dict) and "ty" in e:
            ty = e["ty"]
    return bool(re.match(r"^&+T$|^&+alloc::string::String$", ty))


def _registration_operands(prog, b, x):
    """operands a call may register for later re-encoding: the elements of the argument tuple of a closure call, or the
    integer arguments of a call of a local function / method that is not an operation of the framework or of the encoder"""
    cx = callee_of(x)
    if cx is None:
        return []
    if callee_matches(cx, r"ops::function::(FnMut::call_mut|Fn::call|FnOnce::call_once)$") or "{closure#" in (cx.get("decl") or ""):
        out = []
        if len(x.node["args"]) >= 2:
            for o in origins(b, x.node["args"][1], transparent=()):
                if o.kind == "agg" and o.data["kind"] == "tuple":
                    out += list(o.site.node["rv"]["ops"])
        return out
    nm = strip_generics(callee_name(cx) or "")
    if not nm.startswith("dynamics::") or re.search(r"DynamicConstraintsEncoder::(new_argument|remove_argument|new_attack|remove_attack|update_attacks_to_constraints)$", nm.replace("BufferedDynamicConstraintsEncoder", "Buffered")):
        return []
    tgt = prog.body_for_callee(cx, b)
    if tgt is None:
        return []
    return [a for i, a in enumerate(x.node["args"]) if tgt.local_ty(i + 1) == "usize" or re.match(r"^&T$", tgt.local_ty(i + 1))]


def rule_reencode_on_removal(ctx):
    prog = ctx.prog
    r = ctx.rule(
        "reencode-on-removal",
        "selector-based encoder: removing an argument changes the attacker set of every argument it attacks - each of them is re-encoded: the "
        "encoder's remove_argument re-issues the constraints of `attacked(att)` for att in iter_attacks_from(removed), collected before the removal; "
        "the buffered replay registers the same arguments before it calls the encoder",
    )
    adt, reb = _selector_encoder(prog)
    if not r.require_anchor(adt is not None, "selector-based encoder"):
        return
    owner = adt["path"]
    rm = prog.lib(owner + "::remove_argument")
    if not r.require_anchor(rm, owner + "::remove_argument"):
        return
    # (i) inside the encoder
    af_rm = [s for s in rm.calls() if callee_matches(callee_of(s), r"^aa::aa_framework::AAFramework::remove_argument$")]
    ok = False
    fam = _reencode_family(prog, owner, reb)
    for x in prog.with_closures(rm):
        for s in x.calls():
            if strip_generics(callee_name(callee_of(s)) or "") in fam:
                t_ = fam[strip_generics(callee_name(callee_of(s)) or "")]
                idx_ = [i for i in range(len(s.node["args"])) if i + 1 <= t_.n_args and t_.local_ty(i + 1) == "usize"]
                if not idx_:
                    continue
                idop = s.node["args"][idx_[0]]
                # ids come from the collection iterated by the enclosing for_each
                src_ok = False
                if x is rm:
                    src_ok = _derives_from_attacked_of(rm, idop, prog)
                else:
                    for ps in rm.calls():
                        pc = callee_of(ps)
                        if pc and x.path in (pc.get("fn_args") or []):
                            src_ok = _derives_from_attacked_of(rm, ps.node["args"][0], prog)
                            # the collection is computed before the framework removal
                            _, calls, _ = data_deps(rm, ps.node["args"][0])
                            its = [c for c in calls if callee_matches(callee_of(c), r"AAFramework::iter_attacks_from(_id)?$")]
                            if af_rm and not all(rm.dominates(i, af_rm[0]) for i in its):
                                src_ok = False
                if src_ok:
                    ok = True
    r.check(ok and bool(af_rm), rm.id, "attacked-not-reencoded", "arguments attacked by the removed one are re-encoded (ids collected before the removal)", "after remove_argument the arguments it attacked keep constraints that still mention the removed attacker", rm.loc())
    # the list of arguments to re-encode leaves out the removed argument itself and nothing else
    from ..prov import prov as _pv, subterms as _sub, show as _show

    for x in prog.with_closures(rm):
        for s in x.calls():
            c = callee_of(s)
            if not (c and callee_matches(c, r"Iterator::(for_each|try_for_each)$")) or not any(strip_generics(callee_name(callee_of(y)) or "") in fam for fa in (c.get("fn_args") or []) for y in (prog.lib(fa).calls() if prog.lib(fa) else [])):
                continue
            for e in _pv(prog, x, s.node["args"][0]):
                if not any(isinstance(t, tuple) and t[0] == "call" and re.search(r"iter_attacks_from(_id)?$", t[1]) for t in _sub(e)):
                    continue
                for t in _sub(e):
                    if not (isinstance(t, tuple) and t[0] == "call" and re.search(r"Iterator::(filter|filter_map|skip|skip_while|take|take_while|step_by)$", t[1])):
                        continue
                    nm = t[1].rsplit("::", 1)[-1]
                    verdict = None
                    if nm == "filter" and t[3]:
                        clo = prog.lib(t[3][0])
                        rets = list(_pv(prog, clo, {"l": 0, "p": []})) if clo else []
                        if rets and all(q[0] == "op" and q[1] == "Ne" and len(q[2]) == 2 and any(isinstance(a, tuple) and a[0] == "elem" for a in q[2]) and any(isinstance(a, tuple) and a[0] == "call" and a[1].endswith("Label::id") and any(isinstance(z, tuple) and z[0] == "call" and re.search(r"get_argument$|get_label$", z[1]) for z in _sub(a)) for a in q[2]) for q in rets):
                            verdict = True
                        elif rets and all(q[0] == "op" for q in rets):
                            verdict = False
                    elif nm != "filter":
                        verdict = False
                    if verdict is True:
                        r.ok(rm.id + "|list", "the list leaves out the removed argument itself only", s.loc())
                    elif verdict is False:
                        r.violation(rm.id + "|list", "attacked-list-filtered:%s" % nm, "the arguments to re-encode after a removal are the targets of the removed argument's attacks, cut down by `%s` (%s): some of them keep constraints that mention the removed attacker" % (nm, _show(t)[-90:]), s.loc())
                    else:
                        r.ok(rm.id + "|list", "NOT decided: the filter on the list of arguments to re-encode is not of a recognised form", s.loc())
    # (ii) callers outside the encoder (the buffered replay)
    n = 0
    for b in prog.lib_bodies():
        fn = prog.enclosing_fn(b)
        if fn.impl and fn.impl.get("self_adt") == owner:
            continue
        for s in b.calls():
            if strip_generics(callee_name(callee_of(s)) or "") != strip_generics(rm.path):
                continue
            n += 1
            reg = False
            for x in b.calls():
                if x.bb == s.bb or not b.reaches(x.bb, s.bb):
                    continue
                for op in _registration_operands(prog, b, x):
                    # the id comes from the iterator driving the loop
                    if _derives_from_attacked_of(b, op, prog):
                        reg = True
                # `attacked ids .for_each(|id| registry.register(id))`: the registration sits in the closure of an adaptor call
                cx = callee_of(x)
                if cx is not None and callee_matches(cx, r"Iterator::(for_each|try_for_each)$") and x.node["args"]:
                    for fa in cx.get("fn_args") or []:
                        clo = prog.lib(fa)
                        if clo is None:
                            continue
                        registers = any(_registration_operands(prog, clo, y) for y in clo.calls())
                        if registers and _derives_from_attacked_of(b, x.node["args"][0], prog):
                            reg = True
            r.check(reg, b.id + "|remove_argument", "attacked-not-registered", "the replay registers every argument attacked by the removed one before removing it", "the replay of a removal does not register the arguments attacked by the removed argument for re-encoding (the encoder's own re-encoding is switched off during replay)", s.loc())
    r.floor(n, 1, "callers of the selector-based encoder's remove_argument")


def rule_monotone_allocation(ctx):
    prog = ctx.prog
    r = ctx.rule(
        "monotone-allocation",
        "a SAT variable / slot that has been handed out is never handed out again: allocation cursors and variable tables of the dynamic encoders only "
        "grow (push, `+= k`) between full re-encodings; entries are only retired (`= None` / Ignored), never reused",
    )
    n = 0
    for path, adt in sorted(prog.adts.items()):
        if not path.startswith("dynamics::") or not any(re.search(r"Rc<core::cell::RefCell<alloc::boxed::Box<\(?dyn sat::sat_solver::SatSolver", f["ty"]) for v in adt["variants"] for f in v["fields"]):
            continue
        flds = [(f["name"], f["ty"]) for v in adt["variants"] for f in v["fields"]]
        if not any(t.startswith("alloc::vec::Vec<core::option::Option<usize>>") for _, t in flds):
            continue  # solvers, not encoders
        # full re-encoding functions: those that replace the solver object
        def _replaces_solver(fn):
            for s in fn.sites():
                nd = s.node
                if s.si is not None and nd["k"] == "assign" and nd["dst"]["p"] and nd["dst"]["p"][0] == "*" and "dyn sat::sat_solver::SatSolver" in fn.local_ty(nd["dst"]["l"]):
                    return True
            return False

        _full = {}

        def is_full_encode(fn, depth=0):
            """fn belongs to a full re-encoding: it replaces the solver object, or reaches (within the type) a method that does,
            or is a helper called only from such functions"""
            if fn.id in _full:
                return _full[fn.id]
            _full[fn.id] = False
            res = _replaces_solver(fn)
            own = bool(fn.impl and fn.impl.get("self_adt") == path)
            if not res and own:
                for y in prog.reachable_from([fn], virtual_dispatch=False).values():
                    if y is not fn and y.kind != "closure" and y.impl and y.impl.get("self_adt") == path and _replaces_solver(y):
                        res = True
            sig = prog.sigs.get(("lib", fn.path))
            if not res and own and depth < 4 and sig is not None and sig["vis"] != "pub":
                # a private helper of the encoder that only the full re-encoding calls
                callers = {prog.enclosing_fn(cs.body).id: prog.enclosing_fn(cs.body) for cs in prog.callers_of(fn)}
                callers.pop(fn.id, None)
                if callers and all(c.impl and c.impl.get("self_adt") == path and is_full_encode(c, depth + 1) for c in callers.values()):
                    res = True
            _full[fn.id] = res
            return res
        for name, ty in flds:
            if ty == "usize":
                for u in field_uses(prog, path, name):
                    if not u.mut or u.op == "init":
                        continue
                    n += 1
                    if is_full_encode(u.fn):
                        r.ok("%s.%s|%s" % (path, name, u.fn.path), "reset by the full re-encoding", u.site.loc())
                        continue
                    inc = None
                    nd = u.site.node
                    if u.op == "store" and nd["rv"]["k"] == "use":
                        for o in origins(u.site.body, nd["rv"]["ops"][0], transparent=()):
                            if o.kind == "binop":
                                k = [op_const(x) for x in o.data["ops"]]
                                kk = [x["int"] for x in k if x is not None and "int" in x]
                                if o.data["op"] in ("Add", "AddWithOverflow") and kk and kk[0] > 0:
                                    inc = "+%d" % kk[0]
                                else:
                                    inc = o.data["op"]
                    r.check(inc is not None and inc.startswith("+"), "%s.%s|%s" % (path, name, u.fn.path), "cursor-op:%s" % (inc or u.op), "cursor %s only moves forward (%s)" % (name, inc), "allocation cursor %s is modified by `%s` in %s: a slot / variable that was retired can be handed out again" % (name, inc or u.op, u.fn.path), u.site.loc())
            elif ty.startswith("alloc::vec::Vec<") and ("SolverVarType" in ty or "Option<usize>" in ty):
                for u in field_uses(prog, path, name):
                    if not u.mut or u.op == "init":
                        continue
                    n += 1
                    if is_full_encode(u.fn):
                        continue
                    okop = u.op in ("alloc::vec::Vec::push", "store") or u.op.startswith("index_mut>store-through") or u.op in ("index_mut>core::option::Option::take",)
                    if u.op == "store":
                        okop = False
                    if re.search(r"get_mut$", u.op):
                        # a checked access to one slot: fine when the slot is only `take()`n / overwritten in place (no reordering of the table)
                        bq = u.site.body
                        dst = u.site.node.get("dst", {}).get("l") if u.site.si is None else None
                        uses_ = []
                        if dst is not None:
                            for s2 in bq.calls():
                                dd, _, _ = data_deps(bq, s2.node["args"][0], through_calls=False) if s2.node.get("args") and op_place(s2.node["args"][0]) is not None else (set(), None, None)
                                if dst in dd and (s2.bb, s2.si) != (u.site.bb, u.site.si):
                                    uses_.append(callee_decl(callee_of(s2)))
                        okop = bool(uses_) and all(x in ("core::option::Option::take", "core::option::Option::replace", "core::option::Option::insert", "core::mem::take", "core::mem::replace") for x in uses_)
                        if not okop and not uses_:
                            r.ok("%s.%s|%s" % (path, name, u.fn.path), "NOT decided: what is done with the slot handed out by %s is not followed" % u.op, u.site.loc())
                            continue
                    if u.op in ("alloc::vec::Vec::resize_with", "alloc::vec::Vec::resize"):
                        # growth only: under the test `len <= n` (padding the table up to the solver's variable count)
                        bb_ = u.site.body
                        for c in conditions(bb_, u.site.bb):
                            if c.is_discr or not c.is_true():
                                continue
                            for o in origins(bb_, c.place, transparent=()):
                                if o.kind == "binop" and o.data["op"] in ("Le", "Lt"):
                                    _, calls, _ = data_deps(bb_, o.data["ops"][0])
                                    if any(callee_matches(callee_of(x), r"^alloc::vec::Vec::len$") and name in self_fields_read(bb_, x.node["args"][0], through_calls=False) for x in calls):
                                        okop = True
                    r.check(okop, "%s.%s|%s" % (path, name, u.fn.path), "table-op:%s" % u.op, "table %s: %s" % (name, u.op), "variable table %s is modified by %s outside a full re-encoding" % (name, u.op), u.site.loc())
    r.floor(n, 10, "writes to allocation state of the dynamic encoders")


# ------------------------------------------------------------------------------------------
# vectors indexed by argument ids cover every id once arguments have been removed (found through an independent differential run: D11)


def rule_id_indexed_vectors(ctx):
    prog = ctx.prog
    from .accept import _const_reach
    from ..prov import prov, subterms, leaves, show

    r = ctx.rule(
        "id-indexed-vectors-cover-all-ids",
        "in everything a dynamic solver's query can reach, a vector that is indexed by argument ids (or enumerated to visit the arguments by "
        "id) is sized by the id bound `max_argument_id() + 1`, not by the number of live arguments: after a removal ids are no longer compact, "
        "and an argument whose id is beyond the live count would be left out of the enumeration (e.g. out of a blocking clause's complement)",
    )
    roots = []
    for tr in ("solvers::specs::CredulousAcceptanceComputer", "solvers::specs::SkepticalAcceptanceComputer"):
        for imp in prog.impls_of_trait(tr):
            if (imp.get("self_adt") or "").startswith("dynamics::"):
                for m in imp["methods"]:
                    b = prog.lib(m["path"])
                    if b is not None:
                        roots.append(b)
    if not r.require_anchor(roots, "acceptance methods of the dynamic solvers"):
        return
    # resolved calls only (plus the closures of what is reached): trait-object calls would drag in the static solvers, which work on
    # compact frameworks
    reach = dict(prog.reachable_from(roots, virtual_dispatch=False))
    for x in list(reach.values()):
        for c in prog.closures_of(x):
            reach[c.id] = c

    def size_trees(body, op, depth=0):
        """trees of a size operand, with plain-function parameters resolved through the callers (two levels)"""
        out = set()
        for e in prov(prog, body, op):
            params = [l for l in leaves(e) if l[0] == "param" and l[1] == body.path and not l[3] and body.kind != "closure"]
            if e[0] == "param" and params and depth < 3:
                k = e[2]
                cs = prog.callers_of(body)
                if not cs:
                    out.add(e)
                for c in cs:
                    if k - 1 < len(c.node["args"]):
                        out |= size_trees(c.body, c.node["args"][k - 1], depth + 1)
            else:
                out.add(e)
        return out

    n = 0
    for b in sorted(reach.values(), key=lambda x: x.id):
        if not (b.target == "lib"):
            continue
        for s in b.calls():
            if callee_decl(callee_of(s)) != "alloc::vec::from_elem" or len(s.node["args"]) != 2:
                continue
            v = s.node["dst"]["l"]
            # is the vector addressed by argument ids?
            by_id = False
            for y in prog.with_closures(prog.enclosing_fn(b)):
                for s2 in y.calls():
                    d2 = callee_decl(callee_of(s2))
                    if d2 in ("core::ops::index::Index::index", "core::ops::index::IndexMut::index_mut") and len(s2.node["args"]) == 2:
                        recv = prov(prog, y, s2.node["args"][0])
                        if not any(t[0] == "call" and t[1].endswith("from_elem") for e in recv for t in subterms(e) if isinstance(t, tuple)):
                            continue
                        same = any((o.kind == "call" and o.site is not None and o.site.body is b and (o.site.bb, o.site.si) == (s.bb, s.si)) for o in _vec_origins(prog, y, s2.node["args"][0]))
                        if not same:
                            continue
                        for e in prov(prog, y, s2.node["args"][1]):
                            if any(isinstance(t, tuple) and t[0] == "call" and re.search(r"Label::id$", t[1]) for t in subterms(e)):
                                by_id = True
                    if re.search(r"(has_argument_with_id|get_argument_by_id|has_label_with_id|get_label_by_id)$", d2) and len(s2.node["args"]) == 2:
                        for e in prov(prog, y, s2.node["args"][1]):
                            # the position in an enumeration of this very vector
                            for t in subterms(e):
                                if isinstance(t, tuple) and t[0] == "call" and t[1].endswith("Iterator::enumerate"):
                                    if any(o.kind == "call" and o.site is not None and o.site.body is b and (o.site.bb, o.site.si) == (s.bb, s.si) for a0 in [t] for o in _enumerated_vec_origins(prog, y, s2)):
                                        by_id = True
            if not by_id:
                continue
            n += 1
            trees = size_trees(b, s.node["args"][1])
            anchor = "%s|vec#%d" % (prog.enclosing_fn(b).id, len([x for x in prog.enclosing_fn(b).calls() if callee_decl(callee_of(x)) == "alloc::vec::from_elem" and x.bb < s.bb]))
            uses_bound = [any(isinstance(t, tuple) and t[0] == "call" and t[1].endswith("max_argument_id") for t in subterms(e)) for e in trees]
            live_only = [e for e, ub in zip(trees, uses_bound) if not ub and any(isinstance(t, tuple) and t[0] == "call" and re.search(r"(n_arguments|ArgumentSet::len|LabelSet::len)$", t[1]) for t in subterms(e))]
            if live_only:
                r.violation(anchor, "sized-by-live-count", "a vector addressed by argument ids is sized by the number of live arguments (%s) in code a dynamic solver's query reaches: once arguments were removed, arguments whose id is not below that count are left out" % show(sorted(live_only, key=repr)[0])[:100], s.loc())
            elif trees and all(uses_bound):
                r.ok(anchor, "sized by the id bound (max_argument_id)", s.loc())
            else:
                r.ok(anchor, "NOT decided: size %s" % " | ".join(show(e)[:50] for e in sorted(trees, key=repr)[:2]), s.loc())
    r.floor(n, 2, "id-addressed vectors in the reach of the dynamic solvers' queries")


def _vec_origins(prog, y, op):
    from ..tags import _closure_capture_operand

    out = []
    for o in origins(y, op):
        if o.kind == "upvar":
            par, cap = _closure_capture_operand(prog, y, o.data)
            if cap is not None:
                q = op_place(cap)
                ds = par.defs.get(q["l"], []) if q is not None else []
                if q is not None and not q["p"] and len(ds) == 1 and ds[0].si is not None and ds[0].node["k"] == "assign" and ds[0].node["rv"]["k"] == "ref":
                    out += _vec_origins(prog, par, {"c": ds[0].node["rv"]["place"]})
                else:
                    out += _vec_origins(prog, par, cap)
        else:
            out.append(o)
    return out


def _enumerated_vec_origins(prog, y, lookup_site):
    """origins of the collection whose enumeration position is handed to a by-id look-up in closure / loop y"""
    out = []
    if y.kind == "closure" and y.parent:
        par = prog.by_target[y.target].get(y.parent["direct"])
        if par is not None:
            for cs in par.calls():
                c = callee_of(cs)
                if c is not None and y.path in (c.get("fn_args") or []) and cs.node["args"]:
                    # receiver chain: enumerate(iter(vec))
                    for o in origins(par, cs.node["args"][0], transparent=("core::iter::traits::iterator::Iterator::enumerate", "core::slice::iter", "core::iter::traits::collect::IntoIterator::into_iter", "core::ops::deref::Deref::deref")):
                        if o.kind == "upvar":
                            out += _vec_origins(prog, par, cs.node["args"][0])
                        else:
                            out.append(o)
    else:
        for s in y.calls():
            if callee_decl(callee_of(s)) == "core::iter::traits::iterator::Iterator::enumerate" and s.node["args"]:
                out += list(origins(y, s.node["args"][0], transparent=("core::slice::iter", "core::iter::traits::collect::IntoIterator::into_iter", "core::ops::deref::Deref::deref")))
    return out
