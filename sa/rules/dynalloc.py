"""placeholder filled below"""
def rule_allocators(ctx): pass
def rule_selector_retirement(ctx): pass
def rule_slot_exhaustion(ctx): pass
