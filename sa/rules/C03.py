"""C03 - skeptical acceptance answers match the semantics (narrow clauses only)"""
from . import grounded, accept, cli, provenance, progress


def run(ctx):
    from . import lazyvars as _lazyvars
    _lazyvars.rule_lazy_variable_counter(ctx)
    _lazyvars.rule_range_offset(ctx)
    from . import layout as _layout
    _layout.rule_variable_layout(ctx)
    _layout.rule_clause_templates(ctx)  # the clauses each encoder mode issues are the reference encoding's
    from . import statics as _statics
    _statics.rule_encoder_state_reset(ctx)  # a stateful encoder starts every encoding from scratch
    accept.rule_stable_unsat(ctx, 'skeptical')
    from . import splits
    splits.rule_split_contents(ctx)
    from . import invariance
    invariance.rule_component_traversal(ctx)
    accept.rule_running_intersection(ctx)
    progress.rule_ideal_early_exit(ctx)  # the ideal solver's enumeration stops only when the intersection is the grounded extension
    cli.rule_answer_after_solver(ctx)  # the command line prints the status the solver returned, after it returned
    accept.rule_delegation_pairs(ctx)
    provenance.rule_encoded_framework_is_searched(ctx, 'skeptical')
    accept.rule_plain_status_follows_model(ctx, 'skeptical')
    cli.rule_dispatch(ctx, 'skeptical')
    accept.rule_membership_answers(ctx, 'skeptical')
    accept.rule_list_quantifiers(ctx, 'skeptical')
    accept.rule_status_certificate_pairing(ctx, 'skeptical')
    accept.rule_every_listed_argument(ctx, 'skeptical')
    accept.rule_no_shortcut_with_certificate(ctx)
    accept.rule_certificate_shapes(ctx, 'skeptical')
    provenance.rule_literal_provenance(ctx, 'skeptical')
    provenance.rule_fresh_solver_per_encoding(ctx, 'skeptical')
    provenance.rule_range_encoding(ctx)
    progress.rule_blocking(ctx)
    progress.rule_selector_freshness(ctx)
    progress.rule_local_selector_retired(ctx)
    progress.rule_selector_is_next_variable(ctx)
    progress.rule_state_machine(ctx)
    accept.rule_stage_layering(ctx, 'skeptical')
    grounded.rule_grounded_propagation(ctx)
    accept.rule_in_all_flags_polarity(ctx)
    cli.rule_encoder_selection(ctx)  # the CLI hands each solver the encoder of its base semantics, for every --encoding value
    ctx.assume("rustc's MIR and resolved callees; the tables stated in the property (DS-CO through the grounded solver)")
    return (
        "F2/F5 on the stable solver (no stable extension => YES for every skeptical query), F5 dispatch table (DS-CO and SE-CO through the grounded "
        "solver), membership shape of GR / ID answers, guard of the preferred counter-example shortcut. NOT decided: `YES exactly when every "
        "extension contains the argument`, correctness of the counter-example and range searches (value clauses)."
    )
