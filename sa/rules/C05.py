"""C05 - the command-line tools print exactly the right answer, or none (CLI contract clauses)"""
from . import cli, io_rules, readers


def run(ctx):
    cli.rule_problem_names(ctx)
    cli.rule_dispatch(ctx)
    cli.rule_encoder_selection(ctx)
    readers.rule_iccma_guards(ctx)  # which files count as readable instances (`p af 0` included)
    cli.rule_errors_not_dropped(ctx)
    cli.rule_single_exit(ctx)
    cli.rule_usage_errors(ctx)
    cli.rule_no_catch_unwind(ctx)
    cli.rule_stdout_writers(ctx)
    cli.rule_answer_after_solver(ctx)
    cli.rule_wrapper_flags(ctx)
    io_rules.rule_answer_grammar(ctx)
    io_rules.rule_status_before_witness(ctx)
    ctx.assume("clap 2 parses the declared options as documented; a panic or exit(1) is a non-zero exit status")
    ctx.assume("rustc's MIR, resolved callees and evaluated string constants; strum's derives as expanded by the compiler")
    return (
        "F5 tables (problem names, TryFrom/AsRef/EnumIter, per-problem solver dispatch, encoder selection, wrapper flags vs clap definitions) "
        "compared with the tables stated by the property; F3 on every Result in the binaries; who-may-call on exit/stdout/catch_unwind; "
        "exactly-once dominance of the answer write. Decides the CLI contract; that the printed status is the semantically right one is C01-C04."
    )
