"""C01.3 / C04.4 / C11.2: answers are given in the caller's arguments - mapped back by label, never
by a component-local id; ownership of frameworks."""
import re

from ..core import callee_of, callee_decl, callee_matches, callee_name, strip_generics, op_place, origins, data_deps, place_fields
from .. import tags

BYID = r"ArgumentSet::(get_argument_by_id|has_argument_with_id)$"


def _framework_root(prog, body, op, depth=0):
    """describe where the framework behind `af.argument_set()` comes from:
    'self.<field>' | 'param#k' | 'local' | 'upvar->...'"""
    out = set()
    for o in origins(body, op, transparent=("core::ops::deref::Deref::deref", "core::clone::Clone::clone")):
        if o.kind == "call" and callee_matches(o.data, r"AAFramework::argument_set$"):
            out |= _framework_root(prog, body, o.site.node["args"][0], depth + 1)
        elif o.kind == "param":
            fn = prog.enclosing_fn(body)
            if o.data == 1 and o.fields and body is fn and fn.impl:
                out.add("self." + str(o.fields[0]))
            else:
                out.add("param#%d" % o.data)
        elif o.kind == "upvar" and depth < 4:
            par, cop = tags._closure_capture_operand(prog, body, o.data)
            if cop is not None:
                sub = _framework_root(prog, par, cop, depth + 1)
                # a captured `self`: the field projected inside the closure
                if "param#1" in sub and o.fields:
                    sub = (sub - {"param#1"}) | {"self." + str(o.fields[0])}
                out |= sub
            else:
                out.add("upvar")
        elif o.kind == "call":
            out.add("local:" + callee_decl(o.data).rsplit("::", 1)[-1])
        else:
            out.add("local")
    return out


def rule_argument_provenance(ctx):
    prog = ctx.prog
    r = ctx.rule(
        "map-back-by-label",
        "in the static solvers and the component computer, a by-id look-up on the solver's own framework (`self.af`) never takes an id "
        "obtained from `Label::id` of another framework's argument: component results are mapped back by label",
    )
    n = 0
    n_self = 0
    for b in sorted(prog.lib_bodies(), key=lambda x: x.id):
        fn = prog.enclosing_fn(b)
        in_scope = fn.path.startswith("solvers::") or "<solvers::" in fn.path.split(" as ")[0] or fn.path.startswith("utils::connected_components_computer") or fn.path.startswith("dynamics::") or "<dynamics::" in fn.path.split(" as ")[0]
        if not in_scope:
            continue
        for s in b.calls():
            if not callee_matches(callee_of(s), BYID):
                continue
            n += 1
            roots = _framework_root(prog, b, s.node["args"][0])
            idop = s.node["args"][1]
            seen, calls, _ = data_deps(b, idop)
            id_calls = [c for c in calls if callee_decl(callee_of(c)) == "utils::label::Label::id"]
            anchor = "%s|by-id#%d" % (b.id, [x.bb for x in b.calls() if callee_matches(callee_of(x), BYID)].index(s.bb))
            own = {x for x in roots if x.startswith("self.")}
            if own:
                n_self += 1
            if own and id_calls:
                # the label whose id is taken must come from the same framework field
                same = True
                for ic in id_calls:
                    lroots = set()
                    for o in origins(b, ic.node["args"][0]):
                        if o.kind == "call" and callee_matches(o.data, r"ArgumentSet::get_argument(_by_id)?$"):
                            lroots |= _framework_root(prog, b, o.site.node["args"][0])
                        else:
                            lroots.add("other:" + o.kind)
                    if not lroots or not lroots <= own:
                        same = False
                in_dynamics = fn.path.startswith("dynamics::") or "<dynamics::" in fn.path
                if not same and in_dynamics and "Dummy" in fn.path:
                    r.ok(anchor, "listed exception: the from-scratch wrapper builds its computer from &self.af, so ids coincide", s.loc())
                else:
                    r.check(same, anchor, "foreign-id-on-own-framework", "id comes from an argument of the same framework", "`%s` is indexed with the id of an argument that belongs to another (component) framework: ids are component-local, results must be mapped back by label" % sorted(own)[0], s.loc())
            else:
                r.ok(anchor, "receiver %s, id %s" % (sorted(roots), "from Label::id" if id_calls else "not a label id"), s.loc())
    r.floor(n, 20, "by-id look-ups in solvers / dynamics / component computer")
    # results are mapped back by label: every look-up on self.af inside a static solver's result assembly is by label
    n_label = 0
    for b in prog.lib_bodies():
        fn = prog.enclosing_fn(b)
        if not (fn.path.startswith("solvers::") or "<solvers::" in fn.path.split(" as ")[0]):
            continue
        for s in b.calls():
            if callee_matches(callee_of(s), r"ArgumentSet::get_argument$"):
                roots = _framework_root(prog, b, s.node["args"][0])
                if any(x.startswith("self.") for x in roots):
                    n_label += 1
    r.floor(n_label, 10, "by-label look-ups on the solver's own framework (map-back sites)")


def rule_ownership(ctx):
    prog = ctx.prog
    r = ctx.rule(
        "framework-ownership",
        "a static solver owns no AAFramework / ArgumentSet / Label value (its only access is `&AAFramework<T>`), so the `&Argument<T>` it "
        "returns can only point into the caller's framework; each dynamic solver owns exactly one AAFramework",
    )
    n = 0
    for path, a in sorted(prog.adts.items()):
        if not (path.startswith("solvers::") or path.startswith("dynamics::")):
            continue
        tys = [(f["name"], f["ty"]) for v in a["variants"] for f in v["fields"]]
        owned = [(nm, t) for nm, t in tys if re.search(r"(?<![&*] )(?<!&)\baa::aa_framework::AAFramework<|\baa::arguments::ArgumentSet<|\butils::label::LabelSet<", t) and not t.lstrip().startswith("&") and "dyn " not in t]
        if path.startswith("solvers::"):
            if not any("AAFramework" in t for _, t in tys):
                continue
            # the solver objects: the types answering queries (and the types they are built from), not a private bundle of
            # values a helper hands back (a component framework next to the model found on it)
            is_solver = any(i.get("self_adt") == path for tr in ("solvers::specs::SingleExtensionComputer", "solvers::specs::CredulousAcceptanceComputer", "solvers::specs::SkepticalAcceptanceComputer") for i in prog.impls_of_trait(tr))
            held = any(path in f["ty"] for p2, a2 in prog.adts.items() if p2 != path for v in a2["variants"] for f in v["fields"])
            if not is_solver and not held and str(a.get("vis") or "").startswith("in:"):
                r.ok(path, "a private value bundle, not a solver object (implements no solver trait, is held by no other type)", None)
                continue
            n += 1
            r.check(not owned, path, "owns:%s" % owned, "%s owns no framework data" % path.rsplit("::", 1)[-1], "%s owns %s: returned arguments could be copies instead of the caller's" % (path, owned))
        else:
            impls = [i for i in prog.impls_of_trait("dynamics::dynamic_solver::DynamicSolver") if i.get("self_adt") == path]
            if not impls:
                continue
            n += 1
            fw = [t for _, t in owned if "AAFramework<" in t]
            r.check(len(fw) == 1, path, "frameworks-owned=%d" % len(fw), "%s owns exactly one AAFramework" % path.rsplit("::", 1)[-1], "%s owns %d frameworks" % (path, len(fw)))
    r.floor(n, 12, "static and dynamic solver types")


# ------------------------------------------------------------------------------------------
# literal provenance: arguments turned into SAT literals belong to the framework that was encoded

ENCODE = r"encodings::specs::ConstraintsEncoder::(encode_constraints|encode_constraints_and_range)$"
A2L = r"encodings::specs::ConstraintsEncoder::arg_to_lit$"
A2E = r"encodings::specs::ConstraintsEncoder::assignment_to_extension$"
_ARG_TRANSPARENT = (
    "core::clone::Clone::clone",
    "core::option::Option::unwrap",
    "core::option::Option::expect",
    "core::result::Result::unwrap",
    "core::result::Result::expect",
    "core::result::Result::ok",
    "core::option::Option::as_ref",
    "core::ops::deref::Deref::deref",
    "core::borrow::Borrow::borrow",
    "core::hint::must_use",
    "core::option::Option::copied",
    "core::option::Option::cloned",
)
_ITER_CONSUMERS = tags.MAPPING + tags.FILTERING + (
    "core::iter::traits::iterator::Iterator::for_each",
    "core::iter::traits::iterator::Iterator::any",
    "core::iter::traits::iterator::Iterator::all",
    "core::iter::traits::iterator::Iterator::find",
    "core::iter::traits::iterator::Iterator::position",
    "core::iter::traits::iterator::Iterator::fold",
    "core::iter::traits::iterator::Iterator::try_for_each",
)


def _fw_identity(prog, body, op, depth=0):
    """identities of the AAFramework an operand (owned, & or &&) denotes"""
    out = set()
    if depth > 6:
        return {"?depth"}
    for o in origins(body, op, transparent=("core::ops::deref::Deref::deref", "core::clone::Clone::clone", "core::borrow::Borrow::borrow")):
        if o.kind == "param":
            fn = prog.enclosing_fn(body)
            if o.data == 1 and o.fields and body is fn and fn.impl:
                out.add("self." + str(o.fields[0]))
            else:
                out.add("%s:param#%d" % (body.id, o.data))
        elif o.kind == "upvar":
            par, cop = tags._closure_capture_operand(prog, body, o.data)
            if cop is None:
                out.add("?upvar")
                continue
            sub = _fw_identity(prog, par, cop, depth + 1)
            if o.fields:
                # a captured `self`, the framework is a field of it
                sub = {("self." + str(o.fields[0])) if x.endswith(":param#1") else x for x in sub}
            out |= sub
        elif o.kind == "call":
            out.add("%s:call@bb%d:%s" % (body.id, o.site.bb, callee_decl(o.data).rsplit("::", 1)[-1]))
        elif o.kind in ("undef", "partial"):
            continue
        else:
            out.add("?" + o.kind)
    return out


def _elements_fw(prog, body, op, depth=0):
    """frameworks the `&Argument<T>` elements of an iterable / collection operand belong to"""
    out = set()
    if depth > 8:
        return {"?depth"}
    for o in origins(body, op, transparent=tags.ELEMENT_PRESERVING + tuple(x for x in tags.FILTERING if not x.endswith("filter_map")) + ("core::iter::traits::iterator::Iterator::enumerate", "core::iter::traits::iterator::Iterator::peekable")):
        if o.kind == "param":
            out.add("%s:param#%d" % (body.id, o.data))
        elif o.kind == "upvar":
            par, cop = tags._closure_capture_operand(prog, body, o.data)
            out |= _elements_fw(prog, par, cop, depth + 1) if cop is not None else {"?upvar"}
        elif o.kind == "call":
            c = o.data
            d = callee_decl(c)
            if d in tags.MAPPING:
                clos = [prog.by_target[body.target].get(x) or prog.lib(x) for x in (c.get("fn_args") or [])]
                clos = [x for x in clos if x is not None]
                if not clos:
                    out.add("?map")
                for clo in clos:
                    out |= _argument_fw(prog, clo, {"c": {"l": 0, "p": []}}, depth + 1)
            elif callee_matches(c, r"ArgumentSet::iter$|AAFramework::argument_set$"):
                out |= _fw_identity(prog, body, o.site.node["args"][0], depth + 1) if callee_matches(c, r"AAFramework::argument_set$") else _elements_fw(prog, body, o.site.node["args"][0], depth + 1)
            elif d in ("alloc::vec::Vec::new", "alloc::vec::Vec::with_capacity"):
                for s in body.mut_call_defs.get(o.site.node["dst"]["l"], []):
                    dd = callee_decl(callee_of(s))
                    if dd == "alloc::vec::Vec::push":
                        out |= _argument_fw(prog, body, s.node["args"][1], depth + 1)
                    elif dd in ("alloc::vec::Vec::append", "core::iter::traits::collect::Extend::extend", "alloc::vec::Vec::extend_from_slice"):
                        out |= _elements_fw(prog, body, s.node["args"][1], depth + 1)
            else:
                out.add("?call:" + d.rsplit("::", 1)[-1])
        elif o.kind in ("undef", "partial", "const"):
            continue
        else:
            out.add("?" + o.kind)
    return out


def _argument_fw(prog, body, op, depth=0):
    """frameworks a single `&Argument<T>` (or Option / Result of it) operand belongs to"""
    out = set()
    if depth > 8:
        return {"?depth"}
    for o in origins(body, op, transparent=_ARG_TRANSPARENT):
        if o.kind == "call":
            c = o.data
            if callee_matches(c, r"ArgumentSet::get_argument(_by_id)?$"):
                for oo in origins(body, o.site.node["args"][0], transparent=("core::ops::deref::Deref::deref",)):
                    if oo.kind == "call" and callee_matches(oo.data, r"AAFramework::argument_set$"):
                        out |= _fw_identity(prog, body, oo.site.node["args"][0], depth + 1)
                    else:
                        out.add("?argset")
            elif callee_decl(c) == "core::iter::traits::iterator::Iterator::next":
                out |= _elements_fw(prog, body, o.site.node["args"][0], depth + 1)
            else:
                out.add("?call:" + callee_decl(c).rsplit("::", 1)[-1])
        elif o.kind == "param":
            if body.kind == "closure" and o.data >= 2:
                # the element parameter of a closure handed to an iterator adaptor of the parent
                par = prog.by_target[body.target].get(body.parent["direct"]) if body.parent else None
                found = False
                if par is not None:
                    for ps in par.calls():
                        pc = callee_of(ps)
                        if pc and body.path in (pc.get("fn_args") or []) and callee_decl(pc) in _ITER_CONSUMERS:
                            out |= _elements_fw(prog, par, ps.node["args"][0], depth + 1)
                            found = True
                if not found:
                    out.add("?closure-param")
            else:
                out.add("%s:param#%d" % (body.id, o.data))
        elif o.kind == "upvar":
            par, cop = tags._closure_capture_operand(prog, body, o.data)
            out |= _argument_fw(prog, par, cop, depth + 1) if cop is not None else {"?upvar"}
        elif o.kind == "agg" and o.data.get("variant") == "Some":
            out |= _argument_fw(prog, body, o.site.node["rv"]["ops"][0], depth + 1)
        elif o.kind in ("undef", "partial", "const"):
            continue
        elif o.kind == "agg" and o.data.get("variant") == "None":
            continue
        else:
            out.add("?" + o.kind)
    return out


def rule_literal_provenance(ctx, kind=None):
    from .accept import query_scope

    prog = ctx.prog
    scope = query_scope(prog, kind)
    r = ctx.rule(
        "literal-provenance",
        "in a static solver, an argument handed to the encoder's id-based `arg_to_lit`, and the framework handed to `assignment_to_extension`, "
        "belong to the framework the encoder encoded in that function (`encode_constraints*`): a component's SAT variables are numbered by "
        "component-local ids, so the caller's arguments must first be looked up by label in the component",
    )
    n = n_res = n_help = 0
    fns = [b for b in prog.lib_bodies() if b.kind != "closure" and (b.path.startswith("solvers::") or "<solvers::" in b.path.split(" as ")[0])]
    fns = [b for b in fns if scope is None or b.id in scope]
    for fn in sorted(fns, key=lambda b: b.id):
        bodies = prog.with_closures(fn)
        enc = set()
        for es, eb, ename, fwop in encodings_in(prog, fn):
            enc |= _fw_identity(prog, eb, fwop)
        if encoding_helper_summary(prog, fn):
            continue  # the encoding helper itself: judged at its call sites
        for b in bodies:
            k = 0
            if scope is not None and b.id not in scope:
                continue
            for s in b.calls():
                c = callee_of(s)
                if callee_matches(c, A2L):
                    got = _argument_fw(prog, b, s.node["args"][1])
                    what = "arg_to_lit"
                elif callee_matches(c, A2E):
                    got = _fw_identity(prog, b, s.node["args"][2])
                    what = "assignment_to_extension"
                else:
                    continue
                n += 1
                anchor = "%s|%s#%d" % (b.id, what, k)
                k += 1
                unknown = {x for x in got if x.startswith("?")}
                if not enc:
                    # a helper: when the argument / framework is a parameter of the helper, judge each call of the helper
                    # in a function that does encode
                    params = set()
                    for x in got:
                        m = re.match(r"^(.*):param#(\d+)$", x)
                        if m and m.group(1) == fn.id:
                            params.add(int(m.group(2)))
                    judged = 0
                    if params and len(params) == len(got):
                        for cs in prog.callers_of(fn):
                            cfn = prog.enclosing_fn(cs.body)
                            cenc = set()
                            for es, cb, ename, fwop in encodings_in(prog, cfn):
                                cenc |= _fw_identity(prog, cb, fwop)
                            if not cenc or any(x.startswith("?") for x in cenc):
                                continue
                            for k in sorted(params):
                                if k - 1 >= len(cs.node["args"]):
                                    continue
                                a = cs.node["args"][k - 1]
                                pty = fn.local_ty(k)
                                if "AAFramework<" in pty:
                                    cgot = _fw_identity(prog, cs.body, a)
                                elif re.search(r"^&(mut )?\[|Vec<", pty):
                                    cgot = _elements_fw(prog, cs.body, a)
                                else:
                                    cgot = _argument_fw(prog, cs.body, a)
                                if any(x.startswith("?") for x in cgot):
                                    continue
                                judged += 1
                                r.check(
                                    cgot <= cenc,
                                    "%s|%s#%d<-%s" % (b.id, what, k2 if False else 0, strip_generics(cfn.id)),
                                    "foreign-framework",
                                    "helper called with %s = the framework encoded by the caller" % sorted(cgot),
                                    "%s (in helper %s) is applied to %s handed over by %s, which encoded %s" % (what, fn.path, sorted(cgot - cenc), cfn.path, sorted(cenc)),
                                    cs.loc(),
                                )
                    if judged:
                        n_res += 1
                    else:
                        n_help += 1
                    r.ok(anchor, "no encoding call in this function (helper): argument from %s; %d call(s) of the helper judged in their callers" % (sorted(got), judged), s.loc())
                    continue
                if unknown or any(x.startswith("?") for x in enc):
                    r.ok(anchor, "provenance not resolved (%s): not decided here" % sorted(unknown or enc), s.loc())
                    continue
                n_res += 1
                r.check(
                    got <= enc,
                    anchor,
                    "foreign-framework",
                    "argument/framework from %s = the encoded framework" % sorted(got),
                    "%s is applied to %s but the encoder encoded %s in this function: literals are numbered by the ids of the encoded framework" % (what, sorted(got - enc), sorted(enc)),
                    s.loc(),
                )
    r.floor(n, 9 if kind is None else 3, "arg_to_lit / assignment_to_extension sites in the static solvers")
    # helper extraction moves sites out of the functions that encode (the helper is judged at its call sites where the framework is handed
    # over as an argument; not when it reaches the helper through a field of a per-query object): examined, not resolved
    r.floor(n_res + n_help, 6 if kind is None else (1 if kind == "extension" else 2), "sites whose provenance is resolved or examined in a helper")
    if kind is None:
        r.floor(n_res, 1, "sites whose provenance is resolved")


# ------------------------------------------------------------------------------------------
# a SAT solver holds the clauses of one encoding

_SOLVER_TRANSPARENT = (
    "core::ops::deref::Deref::deref",
    "core::ops::deref::DerefMut::deref_mut",
    "core::convert::AsMut::as_mut",
    "core::convert::AsRef::as_ref",
    "core::cell::RefCell::borrow_mut",
    "core::cell::RefCell::borrow",
    "core::cell::RefCell::new",
    "alloc::rc::Rc::new",
    "alloc::rc::Rc::clone",
    "core::clone::Clone::clone",
    "core::borrow::BorrowMut::borrow_mut",
)


def _solver_creations(prog, body, op, depth=0):
    """creation sites of the SAT solver object behind an operand: [('site', body, Site)] / [('passed-in', ..)]"""
    out = []
    if depth > 5:
        return [("?depth", body, None)]
    for o in origins(body, op, transparent=_SOLVER_TRANSPARENT):
        if o.kind == "call":
            out.append(("site", body, o.site))
        elif o.kind == "param":
            out.append(("passed-in", body, None))
        elif o.kind == "upvar":
            par, cop = tags._closure_capture_operand(prog, body, o.data)
            out += _solver_creations(prog, par, cop, depth + 1) if cop is not None else [("?upvar", body, None)]
        elif o.kind in ("undef", "partial"):
            continue
        else:
            out.append(("?" + o.kind, body, None))
    return out


_sum_cache = {}


def encoding_helper_summary(prog, t):
    """for a local function that creates a SAT solver with the factory, encodes a framework it is given into it and returns it
    (`fn encoded_solver_for(&self, cc_af) -> Rc<RefCell<Box<dyn SatSolver>>>`): [(encode method name, framework parameter index)];
    [] when the function is not of that shape"""
    key = (id(prog), t.id)
    if key in _sum_cache:
        return _sum_cache[key]
    out = []
    if t.kind != "closure" and "dyn sat::sat_solver::SatSolver" in t.ret_ty:
        rseen, rcalls, _ = data_deps(t, {"l": 0, "p": []})
        for s in t.calls():
            if not callee_matches(callee_of(s), ENCODE):
                continue
            cr = _solver_creations(prog, t, s.node["args"][2])
            if not cr or any(x[0] != "site" for x in cr):
                continue
            # the created solver is what is returned
            if not any(any((c.bb, c.si) == (x[2].bb, x[2].si) for c in rcalls) for x in cr):
                continue
            for o in origins(t, s.node["args"][1], transparent=("core::ops::deref::Deref::deref",)):
                if o.kind == "param" and not o.fields:
                    out.append((callee_decl(callee_of(s)).rsplit("::", 1)[-1], o.data))
    _sum_cache[key] = out
    return out


def encodings_in(prog, fn):
    """[(site, body, encode method name, framework operand)] for the encodings a function performs: direct `encode_constraints*`
    calls and calls of encoding helpers (see encoding_helper_summary), in the function and its closures"""
    out = []
    for b in prog.with_closures(fn):
        for s in b.calls():
            c = callee_of(s)
            if callee_matches(c, ENCODE):
                out.append((s, b, callee_decl(c).rsplit("::", 1)[-1], s.node["args"][1]))
                continue
            t = prog.body_for_callee(c, b) if c and c.get("decl") != "<indirect>" else None
            if t is not None and t is not fn:
                for name, k in encoding_helper_summary(prog, t):
                    if k - 1 < len(s.node["args"]):
                        out.append((s, b, name, s.node["args"][k - 1]))
    return out


def rule_fresh_solver_per_encoding(ctx, kind=None):
    from .accept import query_scope

    prog = ctx.prog
    scope = query_scope(prog, kind)
    r = ctx.rule(
        "fresh-solver-per-encoding",
        "in the static solvers, the SAT solver handed to `encode_constraints*` is created (by the factory) inside every loop that contains the "
        "encoding call, and no two encoding calls share one created solver: each component / query is encoded with variables 1..n into an empty "
        "solver, so clauses of another component (numbered with the same variables) can never constrain it",
    )
    n = n_local = 0
    fns = [b for b in prog.lib_bodies() if b.kind != "closure" and (b.path.startswith("solvers::") or "<solvers::" in b.path.split(" as ")[0])]
    fns = [b for b in fns if scope is None or b.id in scope]
    for fn in sorted(fns, key=lambda b: b.id):
        by_creation = {}
        for b in prog.with_closures(fn):
            k = 0
            for s in b.calls():
                if not callee_matches(callee_of(s), ENCODE):
                    continue
                n += 1
                anchor = "%s|encode#%d" % (b.id, k)
                k += 1
                cr = _solver_creations(prog, b, s.node["args"][2])
                kinds = {x[0] for x in cr}
                if kinds == {"passed-in"}:
                    r.ok(anchor, "solver passed in by the caller (helper)", s.loc())
                    continue
                if kinds != {"site"}:
                    r.ok(anchor, "solver origin not resolved (%s): not decided here" % sorted(kinds), s.loc())
                    continue
                n_local += 1
                bad = None
                for _, cb, cs in cr:
                    by_creation.setdefault((cb.id, cs.bb), []).append(s)
                    if cb is not b:
                        bad = "created in %s and encoded inside a closure" % cb.id if any(True for _ in [0]) and b.kind == "closure" and _closure_called_in_loop(prog, b) else bad
                        continue
                    for head, blocks in b.loops():
                        if s.bb in blocks and cs.bb not in blocks:
                            bad = "created at %s outside the loop at bb%d that contains the encoding call" % (cs.loc(), head)
                r.check(bad is None, anchor, "solver-outlives-iteration", "the solver is created in the same loop iteration as the encoding", "the SAT solver is %s: the clauses of earlier iterations stay in it" % bad, s.loc())
        for (cid, cbb), sites in sorted(by_creation.items()):
            if len({(x.body.id, x.bb) for x in sites}) > 1:
                r.violation("%s|creation@bb%d" % (cid, cbb), "shared-solver", "%d encoding calls (%s) fill the solver created in %s bb%d" % (len(sites), [x.loc() for x in sites], cid, cbb), sites[0].loc())
    r.floor(n, 9 if kind is None else 3, "encode_constraints* call sites in the static solvers")
    r.floor(n_local, 7 if kind is None else 2, "encoding calls whose solver is created in the same function")


def _closure_called_in_loop(prog, clo):
    """is the closure handed to an iterator consumer (so its body runs once per element)?"""
    par = prog.by_target[clo.target].get(clo.parent["direct"]) if clo.parent else None
    if par is None:
        return True
    for ps in par.calls():
        pc = callee_of(ps)
        if pc and clo.path in (pc.get("fn_args") or []) and callee_decl(pc).startswith("core::iter::"):
            return True
    return False


# ------------------------------------------------------------------------------------------
# a range-based search runs on a solver that holds the range definitions


def rule_range_encoding(ctx):
    prog = ctx.prog
    r = ctx.rule(
        "range-search-on-range-encoding",
        "a maximal-extension computer whose improvement / discard functions read the range variables (`first_range_var`) is always created on a "
        "SAT solver that was filled by `encode_constraints_and_range`: on a solver filled by `encode_constraints` the range variables are "
        "unconstrained and the search returns sets that are not range-maximal",
    )
    # factories: local functions that install closures reading the range variables
    factories = []
    for b in prog.lib_bodies():
        if b.kind == "closure" or not (b.path.startswith("solvers::") or "<solvers::" in b.path.split(" as ")[0]):
            continue
        reach = prog.reachable_from([b], virtual_dispatch=False)
        uses_range = any(callee_matches(callee_of(s), r"ConstraintsEncoder::first_range_var$") for x in reach.values() for s in x.calls())
        installs = any(callee_matches(callee_of(s), r"MaximalExtensionComputer::set_(increase_current|discard_maximal|discard_current)_fn$") for s in b.calls())
        if uses_range and installs:
            factories.append(b)
    if not r.require_anchor(factories, "function installing range-reading closures on a MaximalExtensionComputer"):
        return
    n = 0
    for fb in factories:
        for cs in prog.callers_of(fb):
            b = cs.body
            fn = prog.enclosing_fn(b)
            # the solver handed to the factory
            sol_args = [a for i, a in enumerate(cs.node["args"]) if "SatSolver" in fb.local_ty(i + 1)]
            if not sol_args:
                continue
            n += 1
            anchor = "%s|range-computer#%d" % (b.id, n)
            crs = [x for x in _solver_creations(prog, b, sol_args[0]) if x[0] == "site"]
            want = {(x[2].body.id, x[2].bb) for x in crs}
            if not want:
                r.ok(anchor, "solver passed in by the caller: not decided here", cs.loc())
                continue
            # created and filled by an encoding helper (`self.encoded_solver_for(cc_af)`)
            helper_kinds = []
            for x in crs:
                t = prog.body_for_callee(callee_of(x[2]), x[1]) if callee_of(x[2]) and callee_of(x[2]).get("decl") != "<indirect>" else None
                if t is not None:
                    helper_kinds += [nm for nm, _ in encoding_helper_summary(prog, t)]
            if helper_kinds:
                r.check(all(nm == "encode_constraints_and_range" for nm in helper_kinds), anchor, "plain-encoding", "the solver comes from a helper that fills it with encode_constraints_and_range", "the range-based computer runs on a solver filled by `encode_constraints` (no range definitions): its range maximisation is meaningless", cs.loc())
                continue
            encs = []
            for x in prog.with_closures(fn):
                for s in x.calls():
                    if callee_matches(callee_of(s), ENCODE):
                        got = {(y[2].body.id, y[2].bb) for y in _solver_creations(prog, x, s.node["args"][2]) if y[0] == "site"}
                        if got & want:
                            encs.append(s)
            if not encs:
                r.violation(anchor, "not-encoded", "the range-based computer is created on a solver that no encoding call of %s filled" % fn.path, cs.loc())
                continue
            bad = [s for s in encs if not callee_matches(callee_of(s), r"encode_constraints_and_range$")]
            r.check(not bad, anchor, "plain-encoding", "the solver was filled by encode_constraints_and_range", "the range-based computer runs on a solver filled by `encode_constraints` (no range definitions): its range maximisation is meaningless", (bad[0].loc() if bad else cs.loc()))
    r.floor(n, 2, "creations of a range-based maximal-extension computer")


def rule_encoded_framework_is_searched(ctx, kind=None):
    """C04 / C01: the solver a search runs on was given the encoding of the framework the search is about"""
    from .accept import query_scope
    from ..prov import roots, prov, show

    prog = ctx.prog
    scope = query_scope(prog, kind)
    r = ctx.rule(
        "encoded-framework-is-the-searched-one",
        "in the static solvers, a maximal-extension computer (or a decoding of a model) that works on a SAT solver filled in the same function "
        "is built for the framework that was encoded into that solver: `encode_constraints(cc, solver)` followed by `new_for_..(other_cc, solver)` "
        "searches the extensions of one component with the variables of another",
    )
    n = 0
    fns = [b for b in prog.lib_bodies() if b.kind != "closure" and (b.path.startswith("solvers::") or "<solvers::" in b.path.split(" as ")[0])]
    fns = [b for b in fns if scope is None or b.id in scope]
    for fn in sorted(fns, key=lambda b: b.id):
        for b in prog.with_closures(fn):
            encs = []
            for s in b.calls():
                if callee_matches(callee_of(s), ENCODE):
                    cr = _solver_creations(prog, b, s.node["args"][2])
                    if cr and all(x[0] == "site" for x in cr):
                        encs.append((s, {(x[1].id, x[2].bb, x[2].si) for x in cr}, roots(prog, b, s.node["args"][1])))
            if not encs:
                continue
            for s in b.calls():
                c = callee_of(s)
                t = prog.body_for_callee(c, b) if c else None
                if t is None or t.kind == "closure" or callee_matches(c, ENCODE):
                    continue
                if not re.search(r"maximal_extension_computer::|MaximalExtensionComputer", t.path + t.ret_ty):
                    continue
                afs = [a for i, a in enumerate(s.node["args"]) if op_place(a) is not None and "AAFramework<" in t.local_ty(i + 1)]
                sols = [a for i, a in enumerate(s.node["args"]) if op_place(a) is not None and "SatSolver" in t.local_ty(i + 1)]
                if len(afs) != 1 or len(sols) != 1:
                    continue
                cr2 = _solver_creations(prog, b, sols[0])
                if not cr2 or any(x[0] != "site" for x in cr2):
                    continue
                key2 = {(x[1].id, x[2].bb, x[2].si) for x in cr2}
                for es, key1, r1 in encs:
                    if not (key1 & key2):
                        continue
                    n += 1
                    r2 = roots(prog, b, afs[0])
                    anchor = "%s|search@%d" % (b.id, s.bb)
                    if not r1 or not r2 or any(x[0] == "?" for x in r1 | r2):
                        r.ok(anchor, "NOT decided: the frameworks handed to the encoder and to the search are not traced to where they were made", s.loc())
                    else:
                        r.check(bool(r1 & r2), anchor, "encoded-another-framework", "the search is built for the framework that was encoded into its solver", "the solver of this search was filled with the encoding of another framework (%s) than the one the search is built for (%s): variables of one component are read as arguments of another" % ("; ".join(show(e)[:50] for e in prov(prog, b, es.node["args"][1])), "; ".join(show(e)[:50] for e in prov(prog, b, afs[0]))), s.loc())
    if n == 0:
        r.ok("searches", "NOT decided: no function both encodes a framework into a solver and builds a search on that solver", None)
