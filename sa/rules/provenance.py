"""C01.3 / C04.4 / C11.2: answers are given in the caller's arguments - mapped back by label, never
by a component-local id; ownership of frameworks."""
import re

from ..core import callee_of, callee_decl, callee_matches, callee_name, strip_generics, op_place, origins, data_deps, place_fields
from .. import tags

BYID = r"ArgumentSet::(get_argument_by_id|has_argument_with_id)$"


def _framework_root(prog, body, op, depth=0):
    """describe where the framework behind `af.argument_set()` comes from:
    'self.<field>' | 'param#k' | 'local' | 'upvar->...'"""
    out = set()
    for o in origins(body, op, transparent=("core::ops::deref::Deref::deref", "core::clone::Clone::clone")):
        if o.kind == "call" and callee_matches(o.data, r"AAFramework::argument_set$"):
            out |= _framework_root(prog, body, o.site.node["args"][0], depth + 1)
        elif o.kind == "param":
            fn = prog.enclosing_fn(body)
            if o.data == 1 and o.fields and body is fn and fn.impl:
                out.add("self." + str(o.fields[0]))
            else:
                out.add("param#%d" % o.data)
        elif o.kind == "upvar" and depth < 4:
            par, cop = tags._closure_capture_operand(prog, body, o.data)
            if cop is not None:
                sub = _framework_root(prog, par, cop, depth + 1)
                # a captured `self`: the field projected inside the closure
                if "param#1" in sub and o.fields:
                    sub = (sub - {"param#1"}) | {"self." + str(o.fields[0])}
                out |= sub
            else:
                out.add("upvar")
        elif o.kind == "call":
            out.add("local:" + callee_decl(o.data).rsplit("::", 1)[-1])
        else:
            out.add("local")
    return out


def rule_argument_provenance(ctx):
    prog = ctx.prog
    r = ctx.rule(
        "map-back-by-label",
        "in the static solvers and the component computer, a by-id look-up on the solver's own framework (`self.af`) never takes an id "
        "obtained from `Label::id` of another framework's argument: component results are mapped back by label",
    )
    n = 0
    n_self = 0
    for b in sorted(prog.lib_bodies(), key=lambda x: x.id):
        fn = prog.enclosing_fn(b)
        in_scope = fn.path.startswith("solvers::") or "<solvers::" in fn.path.split(" as ")[0] or fn.path.startswith("utils::connected_components_computer") or fn.path.startswith("dynamics::") or "<dynamics::" in fn.path.split(" as ")[0]
        if not in_scope:
            continue
        for s in b.calls():
            if not callee_matches(callee_of(s), BYID):
                continue
            n += 1
            roots = _framework_root(prog, b, s.node["args"][0])
            idop = s.node["args"][1]
            seen, calls, _ = data_deps(b, idop)
            id_calls = [c for c in calls if callee_decl(callee_of(c)) == "utils::label::Label::id"]
            anchor = "%s|by-id#%d" % (b.id, [x.bb for x in b.calls() if callee_matches(callee_of(x), BYID)].index(s.bb))
            own = {x for x in roots if x.startswith("self.")}
            if own:
                n_self += 1
            if own and id_calls:
                # the label whose id is taken must come from the same framework field
                same = True
                for ic in id_calls:
                    lroots = set()
                    for o in origins(b, ic.node["args"][0]):
                        if o.kind == "call" and callee_matches(o.data, r"ArgumentSet::get_argument(_by_id)?$"):
                            lroots |= _framework_root(prog, b, o.site.node["args"][0])
                        else:
                            lroots.add("other:" + o.kind)
                    if not lroots or not lroots <= own:
                        same = False
                in_dynamics = fn.path.startswith("dynamics::") or "<dynamics::" in fn.path
                if not same and in_dynamics and "Dummy" in fn.path:
                    r.ok(anchor, "listed exception: the from-scratch wrapper builds its computer from &self.af, so ids coincide", s.loc())
                else:
                    r.check(same, anchor, "foreign-id-on-own-framework", "id comes from an argument of the same framework", "`%s` is indexed with the id of an argument that belongs to another (component) framework: ids are component-local, results must be mapped back by label" % sorted(own)[0], s.loc())
            else:
                r.ok(anchor, "receiver %s, id %s" % (sorted(roots), "from Label::id" if id_calls else "not a label id"), s.loc())
    r.floor(n, 20, "by-id look-ups in solvers / dynamics / component computer")
    # results are mapped back by label: every look-up on self.af inside a static solver's result assembly is by label
    n_label = 0
    for b in prog.lib_bodies():
        fn = prog.enclosing_fn(b)
        if not (fn.path.startswith("solvers::") or "<solvers::" in fn.path.split(" as ")[0]):
            continue
        for s in b.calls():
            if callee_matches(callee_of(s), r"ArgumentSet::get_argument$"):
                roots = _framework_root(prog, b, s.node["args"][0])
                if any(x.startswith("self.") for x in roots):
                    n_label += 1
    r.floor(n_label, 10, "by-label look-ups on the solver's own framework (map-back sites)")


def rule_ownership(ctx):
    prog = ctx.prog
    r = ctx.rule(
        "framework-ownership",
        "a static solver owns no AAFramework / ArgumentSet / Label value (its only access is `&AAFramework<T>`), so the `&Argument<T>` it "
        "returns can only point into the caller's framework; each dynamic solver owns exactly one AAFramework",
    )
    n = 0
    for path, a in sorted(prog.adts.items()):
        if not (path.startswith("solvers::") or path.startswith("dynamics::")):
            continue
        tys = [(f["name"], f["ty"]) for v in a["variants"] for f in v["fields"]]
        owned = [(nm, t) for nm, t in tys if re.search(r"(?<![&*] )(?<!&)\baa::aa_framework::AAFramework<|\baa::arguments::ArgumentSet<|\butils::label::LabelSet<", t) and not t.lstrip().startswith("&") and "dyn " not in t]
        if path.startswith("solvers::"):
            if not any("AAFramework" in t for _, t in tys):
                continue
            n += 1
            r.check(not owned, path, "owns:%s" % owned, "%s owns no framework data" % path.rsplit("::", 1)[-1], "%s owns %s: returned arguments could be copies instead of the caller's" % (path, owned))
        else:
            impls = [i for i in prog.impls_of_trait("dynamics::dynamic_solver::DynamicSolver") if i.get("self_adt") == path]
            if not impls:
                continue
            n += 1
            fw = [t for _, t in owned if "AAFramework<" in t]
            r.check(len(fw) == 1, path, "frameworks-owned=%d" % len(fw), "%s owns exactly one AAFramework" % path.rsplit("::", 1)[-1], "%s owns %d frameworks" % (path, len(fw)))
    r.floor(n, 12, "static and dynamic solver types")
