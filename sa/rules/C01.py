"""C01 - single-extension answers are genuine extensions (narrow clauses only)"""
from . import cli, grounded, accept, provenance


def run(ctx):
    from . import lazyvars as _lazyvars
    _lazyvars.rule_lazy_variable_counter(ctx)
    _lazyvars.rule_range_offset(ctx)
    from . import layout as _layout
    _layout.rule_variable_layout(ctx)
    _layout.rule_clause_templates(ctx)  # the clauses each encoder mode issues are the reference encoding's
    from . import statics as _statics
    _statics.rule_encoder_state_reset(ctx)  # a stateful encoder starts every encoding from scratch
    accept.rule_no_extension_only_stable(ctx)
    from . import splits
    splits.rule_split_contents(ctx)
    from . import invariance
    invariance.rule_component_traversal(ctx)
    from . import progress
    progress.rule_maximal_result_from_search(ctx)
    progress.rule_state_machine(ctx)
    accept.rule_running_intersection(ctx)
    progress.rule_ideal_early_exit(ctx)
    from . import dyn as _dyn
    _dyn.rule_decoders_keep_true_variables(ctx)
    accept.rule_stable_unsat(ctx, 'extension')
    provenance.rule_argument_provenance(ctx)
    provenance.rule_ownership(ctx)
    provenance.rule_encoded_framework_is_searched(ctx, 'extension')
    from . import cli
    cli.rule_dispatch(ctx, 'extension')
    provenance.rule_fresh_solver_per_encoding(ctx, 'extension')
    provenance.rule_range_encoding(ctx)
    provenance.rule_literal_provenance(ctx, 'extension')
    accept.rule_tuple_components_consistent(ctx)
    accept.rule_every_component_contributes(ctx, 'extension')
    accept.rule_stage_layering(ctx, 'extension')
    grounded.rule_grounded_propagation(ctx)
    accept.rule_in_all_flags_polarity(ctx)
    cli.rule_encoder_selection(ctx)  # the CLI hands each solver the encoder of its base semantics, for every --encoding value
    ctx.assume("rustc's MIR / borrow checker (returned &Argument cannot point into a local component framework: witness W3, thorough tier)")
    return (
        "F5 return shapes of the six SingleExtensionComputer impls (`None` only for ST), F2/F5 on the stable solver's component loop (UNSAT in any "
        "component => None, all components visited), F6 provenance of ids at by-id look-ups + type-level ownership (answers are the caller's "
        "arguments, mapped back by label), SE dispatch table. NOT decided: that the returned set is conflict-free / admissible / complete / maximal / "
        "range-maximal / ideal, duplicates, uniqueness (value clauses)."
    )


def thorough(ctx):
    from .. import witness

    return witness.run(ctx, ["W3"])
