"""C08 - dynamic solvers always answer for the current framework"""
from . import dynatt, dyn, dynalloc, dyncnf


def run(ctx):
    dyn.rule_cache_barriers(ctx)
    dyn.rule_cache_kinds(ctx)
    dyn.rule_log_and_replay(ctx)
    dynalloc.rule_allocators(ctx)
    dynalloc.rule_selector_retirement(ctx)
    dynalloc.rule_slot_exhaustion(ctx)
    dynalloc.rule_reencode_on_removal(ctx)
    dynalloc.rule_monotone_allocation(ctx)
    dyn.rule_dummy_delegation(ctx)
    dyncnf.rule_dynamic_clause_templates(ctx)
    dyncnf.rule_dynamic_variable_registration(ctx)
    dyncnf.rule_removal_cleans_the_tables(ctx)
    dyn.rule_decoders_keep_true_variables(ctx)
    dynatt.rule_attack_assumption_templates(ctx)
    dynalloc.rule_id_indexed_vectors(ctx)
    dyn.rule_cached_witness_consistent(ctx)
    dyn.rule_cache_answer_polarity(ctx)
    dyn.rule_encoder_assumptions_reach_sat_calls(ctx)
    dyn.rule_dynamic_query_polarity(ctx)
    dyn.rule_witnessless_cache_hits(ctx)
    ctx.assume("rustc's MIR and resolved callees; Vec/Cell/Rc/RefCell std semantics")
    return (
        "F5 on the event-log scans (update variants are barriers), F2 on logging/replay/cursor, allocator-discipline analysis of the SAT variables "
        "handed out on each shared solver handle (R-ALLOC), F2/F4 on selector retirement and slot exhaustion. Decides invalidation, logging and "
        "allocation shape clauses, and (F12) that the guarded clauses issued when an argument is re-encoded have the shapes of the static complete / stable encodings; equality of answers with a from-scratch computation is a value clause and is not decided."
    )
