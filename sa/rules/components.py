"""The cursor of the connected-components computer: which ids it skips and when it reports that no component is left.
The two small decision procedures are tabulated by walking the control-flow graph once per valuation of their atomic tests."""
import itertools
import re

from ..core import callee_of, callee_decl, callee_matches, op_const, switch_sites
from ..prov import prov, show, subterms
from .grounded import _is_call
from .splits import linear

MOD = "utils::connected_components_computer"


def _atom(e, fn):
    """(name, positive?) of a recognised test, folding negations; None otherwise. Names: bound (cursor < len), end (cursor == len),
    marked, present, empty; 'offset:<k>' for a cursor/len comparison that is off by a constant"""
    pos = True
    while e[0] == "op" and e[1] == "Not":
        pos = not pos
        e = e[2][0]

    def is_cursor(t):
        return t[0] == "param" and t[1] == fn.path and t[2] == 1 and len(t[3]) == 1 and "usize" in fn_field_ty(fn, t[3][0])

    def is_len(t):
        return _is_call(t, r"::len$", 1) and t[2][0][0] == "param" and t[2][0][1] == fn.path

    if e[0] == "op" and e[1] in ("Lt", "Le", "Gt", "Ge", "Eq", "Ne") and len(e[2]) == 2:
        a = linear(e[2][0], lambda t: "c" if is_cursor(t) else ("n" if is_len(t) else None))
        b = linear(e[2][1], lambda t: "c" if is_cursor(t) else ("n" if is_len(t) else None))
        if a is None or b is None:
            return None
        d = dict(a)
        for k, v in b.items():
            d[k] = d.get(k, 0) - v
        d = {k: v for k, v in d.items() if v != 0}
        k0 = d.pop(1, 0)
        if d == {"c": 1, "n": -1}:  # c - n + k0  <op> 0
            op = e[1]
        elif d == {"c": -1, "n": 1}:
            op = {"Lt": "Gt", "Le": "Ge", "Gt": "Lt", "Ge": "Le", "Eq": "Eq", "Ne": "Ne"}[e[1]]
            k0 = -k0
        else:
            return None
        # c - n + k0 op 0 with c <= n always: Lt with k0 = 0 is "bound"; Ge / Eq with k0 = 0 is "end"
        if k0 == 0 and op == "Lt":
            return ("bound", pos)
        if k0 == 0 and op in ("Ge", "Eq"):
            return ("bound", not pos)
        if k0 == 0 and op == "Ne":
            return ("bound", pos)
        if k0 == 1 and op == "Le":  # c + 1 <= n
            return ("bound", pos)
        if k0 == 1 and op == "Gt":  # c + 1 > n  <=> c >= n
            return ("bound", not pos)
        return ("offset:%s%+d" % (op, k0), pos)
    if _is_call(e, r"Index::index$", 2) and is_cursor(e[2][1]):
        return ("marked", pos)
    if _is_call(e, r"has_argument_with_id$|has_label_with_id$", 2) and is_cursor(e[2][1]):
        return ("present", pos)
    if _is_call(e, r"(ArgumentSet|LabelSet)::is_empty$", 1):
        return ("empty", pos)
    if e[0] == "op" and e[1] == "Eq" and len(e[2]) == 2 and any(_is_call(x, r"(ArgumentSet|LabelSet)::len$|n_arguments$") for x in e[2]) and ("const", 0) in e[2]:
        return ("empty", pos)
    return None


def fn_field_ty(fn, name):
    ad = fn.impl and fn.impl.get("self_adt")
    adt = fn.prog.adt(ad) if ad and hasattr(fn, "prog") else None
    if adt:
        for v in adt["variants"]:
            for f in v["fields"]:
                if f["name"] == name:
                    return f["ty"]
    return "usize" if "next" in name or "cursor" in name or name.endswith("_id") else ""


def _walk(prog, fn, start, inside, val, classify, limit=200):
    """follow the CFG from `start` under the valuation `val` of the atoms; returns classify(block) the first time it is not None,
    'exit' when the walk leaves `inside`, ('unknown', tree) at a test that is no atom"""
    bb = start
    for _ in range(limit):
        if inside is not None and bb not in inside:
            return "exit"
        c = classify(bb)
        if c is not None:
            return c
        t = fn.blocks[bb]["term"]
        if t["k"] == "switch":
            trees = list(prov(prog, fn, t["discr"]))
            at = _atom(trees[0], fn) if len(trees) == 1 else None
            if at is None or at[0] not in val:
                return ("unknown", show(trees[0])[:80] if trees else "?", at[0] if at else None)
            truth = val[at[0]] == at[1]
            tgt = None
            for v, tb in t["targets"]:
                if v == ("1" if truth else "0"):
                    tgt = tb
            if tgt is None:
                tgt = t["otherwise"]
            bb = tgt
            continue
        if t["k"] == "return":
            return "return"
        succ = [s for s in fn.succ[bb] if not fn.blocks[s]["cleanup"]]
        if t["k"] in ("call", "assert", "drop") and t.get("target") is not None:
            bb = t["target"]
            continue
        if len(succ) == 1:
            bb = succ[0]
            continue
        return ("unknown", "terminator %s" % t["k"], None)
    return ("unknown", "walk too long", None)


def rule_component_cursor(ctx):
    prog = ctx.prog
    r = ctx.rule(
        "component-cursor",
        "the cursor over argument ids from which the next component starts: it advances exactly while it is inside the id range and stands on an "
        "id that is already in a component or names no argument; `no component left` is reported exactly when the framework is empty or the cursor "
        "is at the end of the id range (tables obtained by walking the two functions once per valuation of their tests)",
    )
    fns = [b for b in prog.lib_bodies() if b.kind != "closure" and b.path.startswith(MOD)]
    if not fns:
        r.ok("cursor", "NOT decided: no component computer module", None)
        return
    n = 0
    # (1) the advancing loop: a loop whose body stores cursor + 1 into a usize field of self
    for fn in fns:
        fn.prog = prog
        for head, blocks in fn.loops():
            incs = []
            for s in fn.sites():
                nd = s.node
                if s.bb in blocks and s.si is not None and nd["k"] == "assign" and nd["dst"]["l"] == 1 and nd["dst"]["p"] and isinstance(nd["dst"]["p"][-1], dict) and "name" in nd["dst"]["p"][-1] and nd["rv"]["k"] == "use":
                    for e in prov(prog, fn, nd["rv"]["ops"][0]):
                        l = linear(e, lambda t: "c" if (t[0] == "param" and t[1] == fn.path and t[2] == 1 and t[3] == (nd["dst"]["p"][-1]["name"],)) else None)
                        if l == {"c": 1, 1: 1}:
                            incs.append(s)
            if not incs:
                continue
            sw_in = [sw for sw in switch_sites(fn) if sw.bb in blocks]
            atoms = set()
            undec = None
            for sw in sw_in:
                trees = list(prov(prog, fn, sw.node["discr"]))
                at = _atom(trees[0], fn) if len(trees) == 1 else None
                if at is None:
                    undec = show(trees[0])[:80] if trees else "?"
                else:
                    atoms.add(at[0])
            anchor = "%s|advance" % fn.id
            n += 1
            off = [a for a in atoms if a.startswith("offset:")]
            if off:
                r.violation(anchor, "bound-test-" + off[0], "the cursor is compared with the end of the id range with an offset (%s): the last id is skipped or the cursor runs past the range" % off[0], fn.loc())
                continue
            if undec is not None:
                r.ok(anchor, "NOT decided: the loop tests %s, which is not one of (inside the range, in a component, names an argument)" % undec, fn.loc())
                continue
            inc_bbs = {s.bb for s in incs}
            wrong = []
            names = sorted(atoms)
            for vals in itertools.product([True, False], repeat=len(names)):
                val = dict(zip(names, vals))
                res = _walk(prog, fn, head, blocks, val, lambda bb: "advance" if bb in inc_bbs else None)
                if isinstance(res, tuple):
                    wrong = None
                    break
                adv = res == "advance"
                want = val.get("bound", True) and (val.get("marked", False) or not val.get("present", True))
                if adv != want:
                    wrong.append((val, adv))
            if wrong is None:
                r.ok(anchor, "NOT decided: the loop cannot be tabulated", fn.loc())
            else:
                missing = {"bound", "marked", "present"} - atoms
                r.check(not wrong and not missing, anchor, "advance-table:%s" % (sorted(missing) if missing else [(sorted(k for k, v in w[0].items() if v), w[1]) for w in wrong][:3]), "advances exactly when inside the range and on an id that is in a component or names no argument", "the cursor %s" % ("never tests whether the id is %s" % "/".join(sorted(missing)) if missing else "; ".join("%s when %s" % ("advances" if adv else "stops", ", ".join("%s=%s" % kv for kv in sorted(val.items()))) for val, adv in wrong[:2])) + ": an argument is never the start of a component, or one already collected is started again", fn.loc())
    # (2) the end test: the function returning Option<AAFramework>
    for fn in fns:
        if not re.match(r"^core::option::Option<aa::aa_framework::AAFramework<", fn.ret_ty) or fn.loops():
            continue
        fn.prog = prog
        none_bbs, some_bbs = set(), set()
        for s in fn.sites():
            nd = s.node
            if s.si is not None and nd["k"] == "assign" and nd["dst"] == {"l": 0, "p": []} and nd["rv"]["k"] == "aggregate":
                (none_bbs if nd["rv"]["agg"].get("variant") == "None" else some_bbs).add(s.bb)
        if not none_bbs or not some_bbs:
            continue
        atoms = set()
        undec = None
        for sw in switch_sites(fn):
            trees = list(prov(prog, fn, sw.node["discr"]))
            at = _atom(trees[0], fn) if len(trees) == 1 else None
            if at is None:
                undec = show(trees[0])[:80] if trees else "?"
            else:
                atoms.add(at[0])
        anchor = "%s|end" % fn.id
        n += 1
        off = [a for a in atoms if a.startswith("offset:")]
        if off:
            r.violation(anchor, "end-test-" + off[0], "`no component left` is decided by comparing the cursor with the end of the id range with an offset (%s): the argument with the last id never gets a component" % off[0], fn.loc())
            continue
        if undec is not None or "bound" not in atoms:
            r.ok(anchor, "NOT decided: %s" % ("the function tests %s" % undec if undec else "no comparison of the cursor with the id range"), fn.loc())
            continue
        names = sorted(atoms)
        wrong = []
        for vals in itertools.product([True, False], repeat=len(names)):
            val = dict(zip(names, vals))
            res = _walk(prog, fn, 0, None, val, lambda bb: "none" if bb in none_bbs else ("some" if bb in some_bbs else None))
            if isinstance(res, tuple) or res in ("return", "exit"):
                wrong = None
                break
            want_none = val.get("empty", False) or not val["bound"]
            if (res == "none") != want_none:
                wrong.append((val, res))
        if wrong is None:
            r.ok(anchor, "NOT decided: the function cannot be tabulated", fn.loc())
        else:
            r.check(not wrong, anchor, "end-table:%s" % [(sorted(k for k, v in w[0].items() if v), w[1]) for w in wrong][:3], "`no component left` exactly when the framework is empty or the cursor is at the end", "the function reports %s" % "; ".join("%s when %s" % ("no component" if res == "none" else "a component", ", ".join("%s=%s" % kv for kv in sorted(val.items()))) for val, res in wrong[:2]), fn.loc())
    if n == 0:
        r.ok("cursor", "NOT decided: no cursor loop / end test recognised in the component computer", None)
