"""C13 - instance readers are total and faithful"""
from . import io_rules, readers


def run(ctx):
    io_rules.rule_aspartix_grammar(ctx)
    readers.rule_panic_census(ctx)
    readers.rule_iccma_guards(ctx)
    readers.rule_declaration_order(ctx)
    readers.rule_line_errors_reported(ctx)
    ctx.assume("regex-automata / regex-syntax interpret the patterns as the regex crate in Cargo.lock")
    ctx.assume("std's BufRead::lines, str::parse, split_whitespace do not panic; allocation for a declared size that fits in memory succeeds")
    return (
        "F9 sandwich of the Aspartix declaration languages between fixed reference languages (all strings), F8 panic census over everything "
        "reachable from both readers (each source discharged by a dominating guard idiom or a confirmed table entry), F4 guard dominance and F7 "
        "index arithmetic of the ICCMA reader. Decides totality and the grammar/guard clauses; byte-exact faithfulness as a value fact is not decided."
    )
