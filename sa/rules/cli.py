"""Rules on the command-line layer (bins) shared by C05 and C17."""
from ..core import Site, callee_of, callee_is, callee_name, callee_matches, strip_generics, op_const, op_place, origins, data_deps, derives_from_local, callee_decl
from ..flow import conditions, consumers, switch_subject
from ..core import switch_sites

SOLVER_TRAITS = (
    "solvers::specs::SingleExtensionComputer",
    "solvers::specs::CredulousAcceptanceComputer",
    "solvers::specs::SkepticalAcceptanceComputer",
)


def rule_no_catch_unwind(ctx):
    prog = ctx.prog
    r = ctx.rule(
        "no-catch-unwind",
        "no catch_unwind / panic hook / resume_unwind in the package; threads are spawned only by the function that waits for the "
        "external solver and their result is never joined into an answer",
    )
    bad = []
    spawns = []
    for b in prog.bodies.values():
        for s in b.calls():
            c = callee_of(s)
            if callee_matches(c, r"^std::panic::(catch_unwind|set_hook|take_hook|resume_unwind)$"):
                bad.append((b, s, strip_generics(callee_name(c))))
            if callee_matches(c, r"^std::thread::(functions::spawn|scoped::scope|builder::Builder::spawn)") or callee_matches(c, r"^std::thread::Builder"):
                spawns.append((b, s))
    for b, s, nm in bad:
        r.violation(b.id, nm, "%s is called: a panic raised by a failing SAT call can be intercepted" % nm, s.loc())
    if not bad:
        r.ok("package", "no catch_unwind/set_hook/resume_unwind in %d bodies" % len(prog.bodies))
    for b, s in spawns:
        fn = prog.enclosing_fn(b)
        waits = any(callee_is(callee_of(x), "std::process::Child::wait", "std::process::Child::wait_with_output") for x in fn.calls())
        # the spawned closure is the feeder of a child process: it owns the child's stdin (by type), and computes no verdict
        feeder = False
        for fa in (callee_of(s) or {}).get("fn_args") or []:
            clo = prog.by_target[b.target].get(fa)
            if clo is not None and any(u["ty"] == "std::process::ChildStdin" for u in clo.upvars):
                reach = prog.reachable_from([clo])
                if not any(callee_matches(callee_of(x), r"sat_solver::SatSolver::solve|SolvingResult::unwrap_model") for rb in reach.values() for x in rb.calls()):
                    feeder = True
        r.check((waits or feeder) and fn.target == "lib", fn.id, "thread-spawn", "thread spawned only to feed the external solver", "a thread is spawned in %s: a panic in it does not abort the query" % fn.path, s.loc())
    # positive self-test of the matcher (zero-expected rule): the pattern must match the std path it is meant for
    import re

    assert re.search(r"^std::panic::(catch_unwind|set_hook|take_hook|resume_unwind)$", "std::panic::catch_unwind")


def rule_single_exit(ctx):
    prog = ctx.prog
    r = ctx.rule(
        "single-exit",
        "process::exit is called at exactly one place per binary, with a non-zero constant, on the Err arm of the command result",
    )
    for t in prog.bin_targets():
        exits = []
        for b in prog.bodies_in(t):
            for s in b.calls():
                if callee_is(callee_of(s), "std::process::exit", "std::process::abort"):
                    exits.append((b, s))
        r.check(len(exits) == 1, t, "exit-sites=%d" % len(exits), "one process::exit site", "%d process::exit sites in %s" % (len(exits), t))
        for b, s in exits:
            k = op_const(s.node["args"][0]) if s.node["args"] else None
            code = k.get("int") if k else None
            r.check(code is not None and code != 0, t + "|" + b.path, "code=%s" % code, "exit status is the non-zero constant %s" % code, "process::exit status is %s" % code, s.loc())
            conds = conditions(b, s.bb)
            on_err = False
            for c in conds:
                from .satlayer import place_ty

                ty = place_ty(b, c.place)
                if c.is_discr and "core::result::Result<" in ty and "anyhow::Error" in ty and not c.negated and c.values == ["1"]:
                    on_err = True
            if not on_err and b.kind != "closure" and b.ret_ty.strip() == "!" and any("anyhow::Error" in b.local_ty(i) for i in range(1, b.n_args + 1)):
                # a diverging helper that receives the error (`fn exit_on_error(e) -> !`): every call of it is on an Err arm
                css = prog.callers_of(b)
                ok_all = bool(css)
                for cs in css:
                    okc = False
                    for c in conditions(cs.body, cs.bb):
                        ty = place_ty(cs.body, c.place)
                        if c.is_discr and "core::result::Result<" in ty and "anyhow::Error" in ty and not c.negated and c.values == ["1"]:
                            okc = True
                    ok_all = ok_all and okc
                on_err = ok_all
            r.check(on_err, t + "|" + b.path, "not-on-err", "exit is on the Err arm of an anyhow Result", "process::exit is not guarded by the Err arm of the command result", s.loc())
            # ... and *every* error reaches it: from the Err arm no path returns normally without passing the exit call
            # (the exit itself, or the call of the diverging helper that contains it)
            for body2, exit_site in ([(b, s)] if not (b.ret_ty.strip() == "!" and b.kind != "closure" and prog.callers_of(b)) else [(cs.body, cs) for cs in prog.callers_of(b)]):
                for sw in switch_sites(body2):
                    subj = switch_subject(body2, sw)
                    if not subj or not subj[1]:
                        continue
                    ty = place_ty(body2, subj[0])
                    if not ("core::result::Result<" in ty and "anyhow::Error" in ty):
                        continue
                    err_t = [bb for v, bb in sw.node["targets"] if v == "1"] or [sw.node["otherwise"]]
                    if not (err_t[0] == exit_site.bb or body2.reaches(err_t[0], exit_site.bb, avoid={sw.bb})):
                        continue
                    rets = [x for x in body2.reachable if body2.blocks[x]["term"]["k"] == "return"]
                    leak = [x for x in rets if err_t[0] == x or body2.reaches(err_t[0], x, avoid={exit_site.bb, sw.bb})]
                    r.check(not leak, t + "|" + body2.path, "error-without-exit", "every path of the Err arm reaches the non-zero exit", "some errors of the command return normally (exit status 0) instead of reaching process::exit", exit_site.loc())
    # the library never exits
    lib_exits = [(b, s) for b in prog.lib_bodies() for s in b.calls() if callee_is(callee_of(s), "std::process::exit", "std::process::abort")]
    r.check(not lib_exits, "lib", "exit-in-lib", "no process::exit in the library", loc=(lib_exits[0][1].loc() if lib_exits else None))


def rule_usage_errors(ctx):
    """C05: a command line clap rejects is an error (non-zero exit), only a help / version request returns Ok"""
    prog = ctx.prog
    from .satlayer import place_ty

    r = ctx.rule(
        "usage-errors-are-errors",
        "in the function that parses the command line with clap's `get_matches_from_safe`, the Err arm returns Ok(..) only when the error kind "
        "is HelpDisplayed / VersionDisplayed: every other rejected command line (missing or unknown argument, bad value ..) reaches the caller as Err "
        "and so the non-zero exit",
    )
    n = 0
    for t in prog.bin_targets():
        for b in prog.bodies_in(t):
            ps = [s for s in b.calls() if callee_matches(callee_of(s), r"^clap::app::App::get_matches_from_safe(_borrow)?$")]
            if not ps:
                continue
            n += 1
            res = ps[0].node["dst"]["l"]
            ek = None
            for path, e in prog.ext_enums.items():
                if path.endswith("clap::errors::ErrorKind"):
                    ek = {str(v["discr"]): v["name"] for v in e["variants"]}
            oks = []
            # locals holding (a move of) the clap error: `let e = match res { Ok(m) => return .., Err(e) => e }`
            err_locals = {res}
            for l2 in list(b.defs):
                dd, _, _ = data_deps(b, {"l": l2, "p": []}, through_calls=False)
                if res in dd and "clap::errors::Error" in b.local_ty(l2):
                    err_locals.add(l2)
            for s in b.sites():
                nd = s.node
                if s.si is not None and nd["k"] == "assign" and nd["dst"]["l"] == 0 and nd["rv"]["k"] == "aggregate" and nd["rv"]["agg"].get("variant") == "Ok":
                    conds = conditions(b, s.bb)
                    on_err = any(c.is_discr and c.place["l"] == res and not c.place["p"] and not c.negated and c.values == ["1"] for c in conds)
                    if on_err:
                        oks.append((s, conds))
            anchor = "%s|%s" % (t, b.path)
            if not oks:
                r.ok(anchor, "no Ok(..) is returned on the Err arm of the clap result", b.loc())
                continue
            for s, conds in oks:
                kinds = None  # set of variant names the error kind can have on this path (None = untested)
                undecided = False
                for c in conds:
                    if c.is_discr and c.place["l"] in err_locals and c.place["p"] and "ErrorKind" in place_ty(b, c.place):
                        if ek is None:
                            undecided = True
                            continue
                        vs = {ek.get(v, v) for v in c.values}
                        if c.negated:
                            vs = set(ek.values()) - vs
                        kinds = vs if kinds is None else kinds & vs
                    elif not c.is_discr and c.is_true():
                        # `e.kind == ErrorKind::X` (a guard): PartialEq::eq of the error kind with a constant variant
                        for o in origins(b, c.place, transparent=()):
                            if o.kind == "call" and callee_matches(o.data, r"^core::cmp::PartialEq::eq$") and any("ErrorKind" in x for x in (o.data.get("substs") or [])):
                                names = set()
                                reads_kind = False
                                for a in o.site.node["args"]:
                                    for oo in origins(b, a, transparent=()):
                                        if oo.kind == "const" and oo.data.get("variant"):
                                            names.add(oo.data["variant"])
                                        elif oo.kind == "call" and oo.site.node["dst"]["l"] == res and oo.fields and str(oo.fields[-1]) == "kind":
                                            reads_kind = True
                                if reads_kind and names:
                                    kinds = names if kinds is None else kinds & names
                                elif reads_kind:
                                    undecided = True
                if kinds is None and undecided:
                    r.ok(anchor, "Ok(..) under a test of the clap error kind that could not be evaluated: NOT decided", s.loc())
                    continue
                if kinds is None:
                    r.violation(anchor, "ok-on-any-clap-error", "Ok(..) is returned on the Err arm of the clap result without a test of the error kind: a rejected command line exits 0", s.loc())
                    continue
                names = sorted(kinds)
                r.check(set(names) <= {"HelpDisplayed", "VersionDisplayed"}, anchor, "ok-on:%s" % names, "Ok(..) on a clap error only for %s" % names, "a command line rejected by clap with %s returns Ok: usage errors exit with status 0" % [x for x in names if x not in ("HelpDisplayed", "VersionDisplayed")], s.loc())
    r.floor(n, 2, "functions parsing the command line with get_matches_from_safe")


def dispatch_functions(prog, target):
    """functions of the bin that call a solver-trait method through a trait object"""
    out = []
    for b in prog.bodies_in(target):
        for s in b.calls():
            c = callee_of(s)
            if c and c.get("trait") in SOLVER_TRAITS and c.get("virtual"):
                if b not in out:
                    out.append(b)
    return out


def writer_callback_calls(b):
    """calls of a closure-typed parameter (the writing callback)"""
    out = []
    for s in b.calls():
        c = callee_of(s)
        if c and callee_matches(c, r"ops::function::(FnMut|Fn|FnOnce)::call(_mut|_once)?$"):
            a0 = s.node["args"][0]
            for o in origins(b, a0, transparent=()):
                if o.kind == "param":
                    out.append(s)
                    break
    return out


RESPONSE_WRITER = "io::specs::ResponseWriter"


def _writes_answer(prog, fn, depth=0):
    """the function (or one it calls directly, three levels deep) calls a ResponseWriter method"""
    for y in prog.with_closures(fn):
        for x in y.calls():
            c = callee_of(x)
            if c and c.get("trait") == RESPONSE_WRITER:
                return True
            if depth < 3 and c is not None:
                t = prog.body_for_callee(c, y)
                if t is not None and t.target == fn.target and t.id != fn.id and not t.trait_method and _writes_answer(prog, t, depth + 1):
                    return True
    return False


def answer_events(prog, b):
    """[(site, kind)] the sites of `b` that write (part of) an answer: a call of the writing callback passed as a parameter, a call of a
    local function that calls ResponseWriter methods, or a ResponseWriter method itself (kind = the method name)"""
    out = [(s, "callback") for s in writer_callback_calls(b)]
    for s in b.calls():
        c = callee_of(s)
        if c is None:
            continue
        if c.get("trait") == RESPONSE_WRITER:
            out.append((s, c["decl"].rsplit("::", 1)[-1]))
            continue
        t = prog.body_for_callee(c, b)
        if t is not None and t.target == b.target and t.id != b.id and not t.trait_method and _writes_answer(prog, t):
            out.append((s, "helper:" + t.path))
    return out


def _once_on_every_path(r, b, anchor, events):
    """no path passes two answer events (a status followed by its witness is one answer) and no normal return passes none"""
    def pair_ok(k1, k2):
        return k1 == "write_acceptance_status" and k2 == "write_single_extension"

    multi = None
    for w1, k1 in events:
        for w2, k2 in events:
            if w1 is w2:
                if any(w1.bb in blks for _h, blks in b.loops()):
                    multi = w1
                continue
            after = w1.bb != w2.bb and b.reaches(w1.bb, w2.bb)  # a block has one terminator: two calls are never in one block
            if after and not pair_ok(k1, k2):
                multi = w2
    r.check(multi is None, anchor, "write-twice", "no path writes an answer twice", "a path writes an answer more than once", (multi or events[0][0]).loc())
    wblocks = {w.bb for w, _ in events}
    ret_wo = False
    seen = set()
    st = [0]
    while st:
        x = st.pop()
        if x in seen or x in wblocks:
            continue
        seen.add(x)
        if b.blocks[x]["term"]["k"] == "return":
            ret_wo = True
        st.extend(b.succ[x])
    return ret_wo


def _solver_boxes_elsewhere(prog, t, min_fns=None):
    """names of the functions of the bin (other than the per-query dispatch functions) that construct solver objects"""
    out = set()
    dfs = {b.id for b in dispatch_functions(prog, t)}
    for b in prog.bodies_in(t):
        if b.kind == "closure" or b.id in dfs:
            continue
        for s in b.calls():
            c = callee_of(s)
            if c and re.search(r"^solvers::.*::new(_with\w*)?$", strip_generics(callee_name(c) or "")):
                out.add(b.path.rsplit("::", 1)[-1])
    return out if len(out) >= (min_fns if min_fns else 3) else set()


def rule_answer_after_solver(ctx):
    prog = ctx.prog
    r = ctx.rule(
        "answer-once-after-solver",
        "in each dispatch function of the solve command every normally returning path writes the answer exactly once (through the writing "
        "callback it was given, a local answer-writing function, or the ResponseWriter itself), and only after the solver's method returned",
    )
    n = 0
    for t in prog.bin_targets():
        dfs = dispatch_functions(prog, t)
        if len(dfs) != 3 and _solver_boxes_elsewhere(prog, t):
            n += 1
            r.ok(t, "NOT decided: the solve command is not organised as one dispatch function per query kind (the solvers are built by %s): the order of solving and writing is not followed" % ", ".join(sorted(_solver_boxes_elsewhere(prog, t))[:3]), None)
            continue
        r.check(len(dfs) == 3, t, "dispatch-functions=%d" % len(dfs), "3 dispatch functions (SE, DC, DS)", "%d dispatch functions found" % len(dfs))
        for b in dfs:
            n += 1
            events = answer_events(prog, b)
            ws = [w for w, _ in events]
            solver_calls = [s for s in b.calls() if (callee_of(s) or {}).get("trait") in SOLVER_TRAITS]
            anchor = "%s|%s" % (t, b.path)
            if not r.require_anchor(ws, "answer-writing call in " + b.path):
                continue
            for w in ws:
                dom = [s for s in solver_calls if b.dominates(s, w)]
                if not dom and solver_calls:
                    # one write after a branch whose arms each call a solver method: every path to the write runs one of them
                    blk = {s.bb for s in solver_calls}
                    if w.bb not in blk and 0 not in blk and w.bb != 0 and not b.reaches(0, w.bb, avoid=blk):
                        dom = [s for s in solver_calls if b.reaches(s.bb, w.bb)]
                r.check(bool(dom), anchor, "write-before-solve", "answer written after %s returned" % (strip_generics(callee_name(callee_of(dom[0]))) if dom else "?"), "the answer is written before any solver method returned", w.loc())
            ret_wo = _once_on_every_path(r, b, anchor, events)
            r.check(not ret_wo, anchor, "return-without-write", "every normal return passes through a write", "a path returns normally without writing an answer", b.loc())
            # the local answer-writing functions write on every path as well (an error return of a write is not a normal return of the answer)
            for w, k in events:
                if k.startswith("helper:"):
                    h = prog.body_for_callee(callee_of(w), b)
                    hev = answer_events(prog, h)
                    if hev:
                        _once_on_every_path(r, h, "%s|%s" % (t, h.path), hev)
    return n


# ------------------------------------------------------------------------------------------
# C05.1 problem names

PROBLEMS_21 = sorted("%s-%s" % (q, s) for q in ("SE", "DC", "DS") for s in ("GR", "CO", "PR", "ST", "SST", "STG", "ID"))


def enum_variant_aggs(body, enum_path):
    """(site, variant) of every construction of `enum_path` in body"""
    out = []
    for s in body.sites():
        n = s.node
        if s.si is not None and n["k"] == "assign" and n["rv"]["k"] == "aggregate":
            a = n["rv"]["agg"]
            if a["kind"] == "adt" and a["path"] == enum_path:
                out.append((s, a["variant"]))
    return out


def string_match_table(body, enum_path):
    """{literal: variant} for `match s { "lit" => Variant, .. }` lowered to chains of str eq; also
    returns the eq call sites used"""
    from .satlayer import str_test_of

    table = {}
    eqs = []
    problems = []
    for s, variant in enum_variant_aggs(body, enum_path):
        pos = []
        for c in conditions(body, s.bb):
            t = str_test_of(body, c)
            if t and t[0] == "eq" and t[2]:
                pos.append((t[1], c))
        if len(pos) != 1:
            problems.append((s, variant, [p[0] for p in pos]))
            continue
        lit, c = pos[0]
        if lit in table and table[lit] != variant:
            problems.append((s, variant, [lit]))
        table[lit] = variant
        eqs.append(c)
    return table, eqs, problems


def discr_const_table(prog, body, enum_path):
    """{variant: constant} for `match self { V => "lit" }` (AsRef<str>)"""
    adt = prog.adt(enum_path)
    idx = {str(v["idx"]): v["name"] for v in adt["variants"]}
    table = {}
    from ..flow import switch_subject
    from ..core import switch_sites

    for sw in switch_sites(body):
        subj = switch_subject(body, sw)
        if not subj or not subj[1] or subj[0]["l"] != 1:
            continue
        for val, bb in sw.node["targets"]:
            v = idx.get(val)
            region = {bb} | body.blocks_reachable_from(bb, avoid={sw.bb})
            lits = set()
            for x in region:
                for st in body.blocks[x]["stmts"]:
                    if st["k"] == "assign" and st["rv"]["k"] == "use":
                        k = op_const(st["rv"]["ops"][0])
                        if k is not None and "str" in k:
                            lits.add(k["str"])
            # only constants assigned in this arm exclusively
            others = set()
            for val2, bb2 in sw.node["targets"]:
                if bb2 != bb:
                    for x in ({bb2} | body.blocks_reachable_from(bb2, avoid={sw.bb})):
                        for st in body.blocks[x]["stmts"]:
                            if st["k"] == "assign" and st["rv"]["k"] == "use":
                                k = op_const(st["rv"]["ops"][0])
                                if k is not None and "str" in k:
                                    others.add((x, k["str"]))
            mine = set()
            for x in region:
                for st in body.blocks[x]["stmts"]:
                    if st["k"] == "assign" and st["rv"]["k"] == "use":
                        k = op_const(st["rv"]["ops"][0])
                        if k is not None and "str" in k and (x, k["str"]) not in others:
                            mine.add(k["str"])
            table[v] = sorted(mine)
    return table


def rule_problem_names(ctx):
    prog = ctx.prog
    r = ctx.rule(
        "problem-names",
        "the names printed by `--problems` (Query x Semantics via AsRef<str>, template `{}-{}`) are exactly the 21 ICCMA names, and the "
        "parser (first hyphen, to_ascii_lowercase, TryFrom<&str>) accepts exactly lowercase(name) -> the same variant",
    )
    names = {}
    for enum_path, expected in (("aa::problem::Semantics", ["GR", "CO", "PR", "ST", "SST", "STG", "ID"]), ("aa::problem::Query", ["SE", "DC", "DS"])):
        adt = prog.adt(enum_path)
        if not r.require_anchor(adt, "enum " + enum_path):
            return
        variants = [v["name"] for v in adt["variants"]]
        r.check(sorted(variants) == sorted(expected), enum_path, "variants=%s" % variants, "variants are %s" % variants, loc=None)
        asref = prog.lib("<%s as core::convert::AsRef<str>>::as_ref" % enum_path)
        tryfrom = prog.lib("<%s as core::convert::TryFrom<&str>>::try_from" % enum_path)
        if not (r.require_anchor(asref, "AsRef<str> for " + enum_path) and r.require_anchor(tryfrom, "TryFrom<&str> for " + enum_path)):
            return
        at = discr_const_table(prog, asref, enum_path)
        ok_as = all(at.get(v) == [v] for v in variants)
        r.check(ok_as, enum_path + "|AsRef", "table=%s" % sorted(at.items()), "AsRef<str> prints each variant by its own name", "AsRef<str> table is %s" % sorted(at.items()), asref.loc())
        names[enum_path] = {v: (at.get(v) or ["?"])[0] for v in variants}
        # the table: in try_from itself, or in a local helper it hands the (lower-cased) string to
        tbody, tcall = tryfrom, None
        tt, eqs, problems = string_match_table(tryfrom, enum_path)
        if not tt:
            for cs, t in prog.callees(tryfrom, include_closures=False, virtual_dispatch=False):
                if t.kind != "closure" and t.path.startswith("aa::problem"):
                    t2, e2, p2 = string_match_table(t, enum_path)
                    if t2:
                        tbody, tcall, tt, eqs, problems = t, cs, t2, e2, p2
        want = {names[enum_path][v].lower(): v for v in variants}
        if not tt:
            # the names are looked up in a table that is data (a constant array of pairs searched by a helper): not read by this rule
            helpers = [t for cs, t in prog.callees(tryfrom, include_closures=False, virtual_dispatch=False) if t.kind != "closure" and t.path.startswith("aa::problem") and any(re.search(r"^&\[\(&str, ", t.local_ty(k)) for k in range(1, t.n_args + 1))]
            if helpers:
                r.ok(enum_path + "|TryFrom", "NOT decided: TryFrom<&str> searches a constant table of (name, variant) pairs through %s; the table is data the rule does not read" % helpers[0].path.rsplit("::", 1)[-1], tryfrom.loc())
                itb = prog.lib(enum_path + "Iter::get")
                if r.require_anchor(itb, "EnumIter::get for " + enum_path):
                    got = sorted(v for _, v in enum_variant_aggs(itb, enum_path))
                    r.check(got == sorted(variants), enum_path + "|EnumIter", "iter=%s" % got, "the enumeration yields every variant once", "the enumeration yields %s" % got, itb.loc())
                continue
        r.check(tt == want and not problems, enum_path + "|TryFrom", "table=%s" % sorted(tt.items()), "TryFrom<&str> maps exactly %s" % sorted(tt.items()), "TryFrom<&str> table %s differs from lowercase(AsRef) table %s" % (sorted(tt.items()), sorted(want.items())), tryfrom.loc())
        # scrutinee = to_ascii_lowercase(param)
        ok_lc = bool(eqs)
        for c in eqs:
            for o in origins(tbody, c.place, transparent=()):
                if o.kind == "call":
                    if tcall is None:
                        _, calls, _ = data_deps(tbody, o.site.node["args"][0])
                        if not any(callee_matches(callee_of(x), r"str::to_ascii_lowercase$|str::to_lowercase$") and derives_from_local(tbody, x.node["args"][0], 1) for x in calls):
                            ok_lc = False
                    else:
                        # the helper matches one of its parameters; the caller passes to_ascii_lowercase(input)
                        ps = [k for k in range(1, tbody.n_args + 1) if derives_from_local(tbody, o.site.node["args"][0], k)]
                        okp = False
                        for k in ps:
                            if k - 1 < len(tcall.node["args"]):
                                _, calls, _ = data_deps(tryfrom, tcall.node["args"][k - 1])
                                if any(callee_matches(callee_of(x), r"str::to_ascii_lowercase$") and derives_from_local(tryfrom, x.node["args"][0], 1) for x in calls):
                                    okp = True
                        if not okp:
                            ok_lc = False
        r.check(ok_lc, enum_path + "|TryFrom", "not-case-insensitive", "the matched string is to_ascii_lowercase(input)", "the string matched by TryFrom is not the lower-cased input: names are not accepted case-insensitively", tryfrom.loc())
        # wildcard arm -> Err
        errs = [s for s in tryfrom.sites() if s.si is not None and s.node["k"] == "assign" and s.node["rv"]["k"] == "aggregate" and s.node["rv"]["agg"].get("variant") == "Err"]
        errs += [s for s in tryfrom.calls() if callee_matches(callee_of(s), r"^core::option::Option::(ok_or|ok_or_else)$")]
        r.check(len(errs) >= 1, enum_path + "|TryFrom", "no-err-arm", "unknown names give Err", loc=tryfrom.loc())
        # EnumIter coverage
        itb = prog.lib(enum_path + "Iter::get")
        if r.require_anchor(itb, "EnumIter::get for " + enum_path):
            got = sorted(v for _, v in enum_variant_aggs(itb, enum_path))
            r.check(got == sorted(variants), enum_path + "|EnumIter", "iter=%s" % got, "the enumeration yields every variant once", "the enumeration yields %s" % got, itb.loc())
    # listing template and parser
    lst = prog.lib("aa::problem::Query::iter_problem_strings")
    rd = prog.lib("aa::problem::Query::read_problem_string")
    if not (r.require_anchor(lst, "Query::iter_problem_strings") and r.require_anchor(rd, "Query::read_problem_string")):
        return
    from ..fmtq import format_sites

    lbodies = [x for x in prog.reachable_from([lst], virtual_dispatch=False).values() if x.path.startswith("aa::problem")]
    fss = [fs for x in lbodies for fs in format_sites(x)]
    ok_t = len(fss) == 1 and fss[0].template == "{}-{}"
    order_ok = False
    if not fss and any(callee_matches(callee_of(x), r"string::String::(push_str|push)$") for y in lbodies for x in y.calls()):
        r.ok(lst.id, "NOT decided: the names of the listing are assembled in a String (push / push_str), not by one format template", lst.loc())
        ok_t = order_ok = None
    if ok_t and len(fss[0].args) == 2 and all(fss[0].args):
        b = fss[0].body
        def asref_of(op):
            _, calls, _ = data_deps(b, op)
            return {strip_generics(callee_name(callee_of(c))) for c in calls if callee_matches(callee_of(c), r"AsRef<str>>::as_ref$|convert::AsRef::as_ref$")}
        a0, a1 = asref_of(fss[0].args[0][1]), asref_of(fss[0].args[1][1])
        order_ok = any("Query" in x for x in a0) and any("Semantics" in x for x in a1) and not any("Semantics" in x for x in a0)
    if ok_t is not None:
      r.check(ok_t and order_ok, lst.id, "template=%s" % [f.template for f in fss], "names are printed as `<query>-<semantics>`", "the listing template/argument order is not `<query>-<semantics>`", lst.loc())
    # parser: split at the first '-' ; left -> Query::try_from, right -> Semantics::try_from
    finds = [s for s in rd.calls() if callee_matches(callee_of(s), r"^core::str::find$")]
    splits = [s for s in rd.calls() if callee_matches(callee_of(s), r"^core::str::split_once$")]
    ok_find = len(finds) == 1 and (op_const(finds[0].node["args"][1]) or {}).get("int") == 45
    tq = [s for s in rd.calls() if callee_matches(callee_of(s), r"^<aa::problem::Query as core::convert::TryFrom<&str>>::try_from$")]
    ts = [s for s in rd.calls() if callee_matches(callee_of(s), r"^<aa::problem::Semantics as core::convert::TryFrom<&str>>::try_from$")]
    ok_parts = False
    if len(tq) == 1 and len(ts) == 1:
        def range_kind(s):
            kinds = set()
            for o in origins(rd, s.node["args"][0]):
                if o.kind == "call" and callee_matches(o.data, r"ops::index::Index"):
                    for oo in origins(rd, o.site.node["args"][1], transparent=()):
                        if oo.kind == "agg":
                            kinds.add(oo.data.get("path"))
            return kinds
        ok_parts = range_kind(tq[0]) == {"core::ops::range::Range"} and range_kind(ts[0]) == {"core::ops::range::RangeFrom"}
        if not ok_find and len(splits) == 1 and (op_const(splits[0].node["args"][1]) or {}).get("int") == 45:
            # `problem.split_once('-')`: (before the first hyphen, after it)
            def part(s):
                out = set()
                for o in origins(rd, s.node["args"][0], transparent=()):
                    if o.kind == "call" and o.site.bb == splits[0].bb and o.fields:
                        out.add(str(o.fields[-1]))
                    else:
                        out.add("?")
                return out
            if part(tq[0]) == {"0"} and part(ts[0]) == {"1"}:
                ok_find = ok_parts = True
    r.check(ok_find and ok_parts, rd.id, "split", "the problem string is split at its first hyphen into query and semantics", "the parser does not split `<query>-<semantics>` at the first hyphen", rd.loc())
    # final oracle: the 21 names of the statement
    if all(p in names for p in ("aa::problem::Semantics", "aa::problem::Query")):
        got = sorted("%s-%s" % (q, s) for q in names["aa::problem::Query"].values() for s in names["aa::problem::Semantics"].values())
        r.check(got == PROBLEMS_21, "problem-set", "names=%d" % len(got), "the problem set is exactly the 21 names SE/DC/DS x GR/CO/PR/ST/SST/STG/ID", "the problem set is %s" % got)


# ------------------------------------------------------------------------------------------
# C02.2 / C05.2 dispatch tables

DISPATCH_ORACLE = {
    "solvers::specs::SingleExtensionComputer": {"GR": "GroundedSemanticsSolver", "CO": "GroundedSemanticsSolver", "PR": "PreferredSemanticsSolver", "ST": "StableSemanticsSolver", "SST": "SemiStableSemanticsSolver", "STG": "StageSemanticsSolver", "ID": "IdealSemanticsSolver"},
    "solvers::specs::CredulousAcceptanceComputer": {"GR": "GroundedSemanticsSolver", "CO": "CompleteSemanticsSolver", "PR": "CompleteSemanticsSolver", "ST": "StableSemanticsSolver", "SST": "SemiStableSemanticsSolver", "STG": "StageSemanticsSolver", "ID": "IdealSemanticsSolver"},
    "solvers::specs::SkepticalAcceptanceComputer": {"GR": "GroundedSemanticsSolver", "CO": "GroundedSemanticsSolver", "PR": "PreferredSemanticsSolver", "ST": "StableSemanticsSolver", "SST": "SemiStableSemanticsSolver", "STG": "StageSemanticsSolver", "ID": "IdealSemanticsSolver"},
}
QUERY_ORACLE = {"SE": "solvers::specs::SingleExtensionComputer", "DC": "solvers::specs::CredulousAcceptanceComputer", "DS": "solvers::specs::SkepticalAcceptanceComputer"}


def arm_regions(body, sw):
    """{value: blocks exclusively reachable from that arm}"""
    t = sw.node
    arms = {}
    targets = list(t["targets"])
    if not body.is_unreachable_block(t["otherwise"]):
        targets.append(("otherwise", t["otherwise"]))
    reach = {}
    for val, bb in targets:
        reach.setdefault(bb, {bb} | body.blocks_reachable_from(bb, avoid={sw.bb}))
    for val, bb in targets:
        mine = set(reach[bb])
        for bb2, rr in reach.items():
            if bb2 != bb:
                mine -= rr
        arms[val] = (bb, mine)
    return arms


def dispatch_table(prog, b):
    """per Semantics variant: set of solver types constructed in that arm of the match on the
    semantics parameter; plus the trait whose methods the function calls"""
    from ..flow import switch_subject
    from ..core import switch_sites

    sem = prog.adt("aa::problem::Semantics")
    idx = {str(v["idx"]): v["name"] for v in sem["variants"]}
    table = {}
    wildcard = False
    for sw in switch_sites(b):
        subj = switch_subject(b, sw)
        if not subj or not subj[1]:
            continue
        if b.local_ty(subj[0]["l"]) != "aa::problem::Semantics" or subj[0]["p"]:
            continue
        arms = arm_regions(b, sw)
        if "otherwise" in arms:
            wildcard = True
        by_block = {}
        for val, (bb, blocks) in arms.items():
            by_block.setdefault(bb, (set(), blocks))[0].add(idx.get(val, val))
        for bb, (vals, blocks) in by_block.items():
            ctors = set()
            region = {bb} | blocks
            for x in region:
                t = b.blocks[x]["term"]
                if t["k"] == "call" and t.get("callee"):
                    nm = strip_generics(callee_name(t["callee"]))
                    if nm.startswith("solvers::") and nm.rsplit("::", 1)[-1].startswith("new"):
                        ctors.add(nm.rsplit("::", 2)[-2])
                    elif t.get("dst") is not None:
                        # a local helper returning a solver by value (`fn new_stable_solver(..) -> StableSemanticsSolver<..>`)
                        m = re.match(r"^solvers::[a-z_0-9:]+::([A-Za-z0-9]+)<", b.local_ty(t["dst"]["l"]))
                        tgt = prog.body_for_callee(t["callee"], b)
                        if m and tgt is not None and tgt.target == b.target and not tgt.path.startswith("solvers::"):
                            ctors.add(m.group(1))
            for v in vals:
                table.setdefault(v, set()).update(ctors)
    traits = {c.get("trait") for s in b.calls() for c in [callee_of(s)] if c and c.get("trait") in SOLVER_TRAITS}
    return table, traits, wildcard


def rule_dispatch(ctx, kind=None):
    """kind: None = all three dispatch functions; 'extension' | 'credulous' | 'skeptical' = the one of that query kind"""
    prog = ctx.prog
    only_trait = {"extension": "solvers::specs::SingleExtensionComputer", "credulous": "solvers::specs::CredulousAcceptanceComputer", "skeptical": "solvers::specs::SkepticalAcceptanceComputer"}.get(kind)
    r = ctx.rule(
        "dispatch-table",
        "each (query, semantics) pair is dispatched to the solver type the property names (DC-PR through the complete solver, DS-CO and "
        "SE-CO through the grounded one); no wildcard arm swallows a semantics; each dispatch function only calls methods of its own trait",
    )
    for t in prog.bin_targets():
        dfs = dispatch_functions(prog, t)
        seen_traits = {}
        if len(dfs) != 3 and _solver_boxes_elsewhere(prog, t):
            r.ok(t, "NOT decided: the (query, semantics) -> solver table is spread over %s, not written as one match per query kind" % ", ".join(sorted(_solver_boxes_elsewhere(prog, t))[:4]), None)
            continue
        for b in dfs:
            table, traits, wildcard = dispatch_table(prog, b)
            anchor = "%s|%s" % (t, b.path)
            if not r.check(len(traits) == 1, anchor, "traits=%s" % sorted(traits), "calls methods of one solver trait", "dispatch function calls methods of %s" % sorted(traits), b.loc()):
                continue
            tr = next(iter(traits))
            seen_traits[tr] = b
            if only_trait is not None and tr != only_trait:
                continue
            if not any(table.values()) and _solver_boxes_elsewhere(prog, t, 1):
                r.ok(anchor, "NOT decided: this dispatch function builds no solver itself; the (semantics -> solver) table is data handled by %s" % ", ".join(sorted(_solver_boxes_elsewhere(prog, t, 1))[:3]), b.loc())
                continue
            oracle = DISPATCH_ORACLE[tr]
            r.check(not wildcard, anchor, "wildcard-arm", "the match on the semantics has no wildcard arm", "a wildcard arm can swallow a semantics", b.loc())
            for sem, want in sorted(oracle.items()):
                got = table.get(sem, set())
                r.check(got == {want}, anchor + "|" + sem, "got=%s" % sorted(got), "%s -> %s" % (sem, want), "%s is dispatched to %s instead of %s" % (sem, sorted(got), want), b.loc())
        r.check(set(seen_traits) == set(SOLVER_TRAITS), t, "traits-covered=%s" % sorted(seen_traits), "one dispatch function per solver trait", loc=None)
        # query -> dispatch function
        from ..flow import switch_subject
        from ..core import switch_sites

        q = prog.adt("aa::problem::Query")
        qidx = {str(v["idx"]): v["name"] for v in q["variants"]}
        found = False
        for b in prog.bodies_in(t):
            for sw in switch_sites(b):
                subj = switch_subject(b, sw)
                if not subj or not subj[1] or b.local_ty(subj[0]["l"]) != "aa::problem::Query" or subj[0]["p"]:
                    continue
                arms = arm_regions(b, sw)
                called = {}
                for val, (bb, blocks) in arms.items():
                    fns = set()
                    for x in {bb} | blocks:
                        tt = b.blocks[x]["term"]
                        if tt["k"] == "call" and tt.get("callee"):
                            for tr, db in seen_traits.items():
                                if strip_generics(callee_name(tt["callee"])) == strip_generics(db.path):
                                    fns.add(tr)
                    called[qidx.get(val, val)] = fns
                if any(called.values()):
                    found = True
                    for qn, tr in QUERY_ORACLE.items():
                        if only_trait is not None and tr != only_trait:
                            continue
                        r.check(called.get(qn) == {tr}, "%s|%s|%s" % (t, b.path, qn), "got=%s" % sorted(called.get(qn, [])), "%s -> %s" % (qn, tr.rsplit("::", 1)[-1]), "query %s is answered by %s" % (qn, sorted(called.get(qn, []))), sw.loc())
        r.check(found, t, "no-query-match", "the solve command matches on the query kind", loc=None)


ENCODER_ORACLE = {
    # (group, encoding string) -> constructor
    ("STG", "aux_var"): "encodings::aux_var_constraints_encoder::new_for_conflict_freeness",
    ("STG", "exp"): "encodings::exp_constraints_encoder::new_for_conflict_freeness",
    ("STG", "hybrid"): "encodings::exp_constraints_encoder::new_for_conflict_freeness",
    ("SE-PR", "aux_var"): "encodings::aux_var_constraints_encoder::new_for_admissibility",
    ("SE-PR", "exp"): "encodings::exp_constraints_encoder::new_for_complete_semantics",
    ("SE-PR", "hybrid"): "encodings::hybrid_complete_constraints_encoder::HybridCompleteConstraintsEncoder",
    ("other", "aux_var"): "encodings::aux_var_constraints_encoder::new_for_complete_semantics",
    ("other", "exp"): "encodings::exp_constraints_encoder::new_for_complete_semantics",
    ("other", "hybrid"): "encodings::hybrid_complete_constraints_encoder::HybridCompleteConstraintsEncoder",
}


def _local_enum(prog, b, ty):
    a = prog.adts_by_target[b.target].get(ty) or prog.adt(ty)
    if a is None or not a.get("variants") or ty.startswith(("core::", "std::", "alloc::")):
        return None
    return a


def _encoder_groups(prog, b, bb, idx, depth=0):
    """({'STG' | 'SE-PR' | 'other'}, encoding name tested) for the block: from the tests on the semantics and the problem name that guard it,
    directly or through a local enum whose variants were chosen under such tests (a two-stage table)"""
    from .satlayer import str_test_of, place_ty

    sems = None
    enc = None
    sepr = False
    via = None
    for c in conditions(b, bb):
        ty = place_ty(b, c.place) if c.is_discr else None
        if c.is_discr and ty == "aa::problem::Semantics":
            vs = {idx[v] for v in c.values}
            if c.negated:
                vs = set(idx.values()) - vs
            sems = vs if sems is None else sems & vs
        elif c.is_discr and ty and depth == 0 and _local_enum(prog, b, ty) is not None:
            vidx = {str(v["idx"]): v["name"] for v in _local_enum(prog, b, ty)["variants"]}
            if not all(v in vidx for v in c.values):
                continue
            vs = {vidx[v] for v in c.values}
            if c.negated:
                vs = set(vidx.values()) - vs
            g = set()
            for o in origins(b, c.place, transparent=()):
                if o.kind == "agg" and o.data.get("variant") in vs:
                    g |= _encoder_groups(prog, b, o.site.bb, idx, depth + 1)[0]
            via = g if via is None else via & g
        t2 = str_test_of(b, c)
        if t2 and t2[0] == "eq" and t2[2] and t2[1] in ("aux_var", "exp", "hybrid"):
            enc = t2[1]
        if t2 and t2[0] == "eq" and t2[2] and t2[1] == "SE-PR":
            sepr = True
    if via is not None:
        return via, enc
    if sems == {"STG"}:
        return {"STG"}, enc
    if sepr:
        return {"SE-PR"}, enc
    return {"other"}, enc


def rule_encoder_selection(ctx):
    """the encoder handed to each solver captures the base semantics the solver needs"""
    prog = ctx.prog
    from .satlayer import str_test_of

    r = ctx.rule(
        "encoder-selection",
        "create_encoder pairs each semantics group with the encoder of its base semantics: STG -> conflict-freeness, SE-PR -> admissibility "
        "(aux_var) or complete (exp, hybrid), every other SAT-based problem -> complete; GR and ST get none",
    )
    for t in prog.bin_targets():
        cands = [b for b in prog.bodies_in(t) if b.kind != "closure" and "ConstraintsEncoder" in b.ret_ty and b.ret_ty.startswith("core::option::Option<")]
        if not r.require_anchor(len(cands) == 1, "function returning Option<Box<dyn ConstraintsEncoder>> in " + t):
            continue
        b = cands[0]
        sem = prog.adt("aa::problem::Semantics")
        idx = {str(v["idx"]): v["name"] for v in sem["variants"]}
        got = {}
        nones = set()
        for s in b.sites():
            n = s.node
            ctor = None
            if s.si is None and n["k"] == "call" and n.get("callee"):
                nm = strip_generics(callee_name(n["callee"]))
                if nm.startswith("encodings::") and ("new_for" in nm):
                    ctor = nm
                if callee_matches(n["callee"], r"default::Default::default$") and any("encodings::" in x for x in n["callee"].get("substs", [])):
                    ctor = [x for x in n["callee"]["substs"] if "encodings::" in x][0]
                if callee_matches(n["callee"], r"^alloc::boxed::Box::default$|Box<.*Default.*default$"):
                    sub = [x for x in n["callee"].get("substs", []) if "encodings::" in x]
                    if sub:
                        ctor = sub[0]
            if s.si is not None and n["k"] == "assign" and n["rv"]["k"] == "aggregate" and n["rv"]["agg"].get("variant") == "None" and n["dst"]["l"] == 0:
                conds = conditions(b, s.bb)
                for c in conds:
                    if c.is_discr and b.local_ty(c.place["l"]) == "aa::problem::Semantics" and not c.negated:
                        nones |= {idx[v] for v in c.values}
            if ctor is None:
                continue
            mbox = re.match(r"^alloc::boxed::Box<(.+)>$", ctor)
            if mbox:
                ctor = mbox.group(1)
            grps, enc = _encoder_groups(prog, b, s.bb, idx)
            for grp in grps:
                got.setdefault((grp, enc), set()).add(ctor)
        keyed = {k for k in got if k[1] is not None and k in ENCODER_ORACLE}
        if not keyed:
            # the choice of the encoder goes through a form the rule does not follow (a local enum read from the option, helper
            # constructors per family): nothing can be said, and nothing wrong was seen
            any_ctor = any(re.search(r"encodings::", strip_generics(callee_name(callee_of(x)) or "") + str((callee_of(x) or {}).get("substs"))) for tb in prog.bodies_in(t) for x in tb.calls())
            if any_ctor:
                r.ok("%s|%s" % (t, b.path), "NOT decided: which constructor serves which (semantics, --encoding) pair is not read off tests on the option's text in the function building the encoder", b.loc())
                continue
        for key, want in sorted(ENCODER_ORACLE.items()):
            g = got.get(key, set())
            r.check(g == {want}, "%s|%s|%s/%s" % (t, b.path, key[0], key[1]), "got=%s" % sorted(g), "%s with --encoding %s -> %s" % (key[0], key[1], want.rsplit("::", 1)[-1]), "%s with --encoding %s builds %s instead of %s" % (key[0], key[1], sorted(g), want), b.loc())
        r.check(nones == {"GR", "ST"}, "%s|%s|none" % (t, b.path), "none-for=%s" % sorted(nones), "no encoder for GR and ST only", "no encoder is returned for %s" % sorted(nones), b.loc())


# ------------------------------------------------------------------------------------------
# C05.3 error discipline, C05.4 stdout, C05.6 wrapper flags

ERR_OK_CONSUMERS = r"(try_trait::Try::branch|Result::unwrap|Result::expect|Context::context|Context::with_context|Result::map|Result::map_err|Result::and_then|Option::transpose|Result::unwrap_err)$"
ERR_DROPPING = r"(Result::ok|Result::unwrap_or|Result::unwrap_or_default|Result::unwrap_or_else|Result::is_ok|Result::is_err|mem::drop)$"


def rule_errors_not_dropped(ctx):
    prog = ctx.prog
    r = ctx.rule(
        "errors-not-dropped",
        "in the binaries every Result<_, anyhow::Error> / io::Result is propagated (`?`, returned, matched, unwrap/expect, context) - never "
        "dropped, `.ok()`-ed or defaulted (listed exception: the logger's `apply().unwrap_or(())`)",
    )
    n = 0
    for t in prog.bin_targets():
        for b in prog.bodies_in(t):
            for s in b.calls():
                dst = s.node["dst"]
                ty = b.local_ty(dst["l"])
                if dst["p"] or not ty.startswith("core::result::Result<"):
                    continue
                if not ("anyhow::Error" in ty or "std::io::error::Error" in ty or "clap::errors::Error" in ty or "log::SetLoggerError" in ty or "core::fmt::Error" in ty):
                    continue
                c = callee_of(s)
                nm = strip_generics(callee_name(c)) if c else "<indirect>"
                if re.search(r"(FromResidual::from_residual|Context::context|Context::with_context|Result::map|Option::transpose)$", nm):
                    pass  # adaptors: their own result is checked as a site too
                n += 1
                cs = consumers(b, dst["l"])
                anchor = "%s|%s|%s" % (t, b.path, nm.rsplit("::", 2)[-2] + "::" + nm.rsplit("::", 1)[-1] if "::" in nm else nm)
                if dst["l"] == 0:
                    r.ok(anchor, "returned", s.loc())
                    continue
                real = [x for x in cs if x.kind != "drop"]
                dropped = [x for x in real if x.kind == "call" and x.info[0] is not None and re.search(ERR_DROPPING, strip_generics(x.info[0]["decl"]))]
                good = [x for x in real if (x.kind == "call" and x.info[0] is not None and re.search(ERR_OK_CONSUMERS, strip_generics(x.info[0]["decl"]))) or x.kind in ("return", "match", "field", "store")]
                is_ok_then_returned = any(x.kind == "return" for x in real)
                if not real:
                    r.violation(anchor, "dropped", "the Result of %s is dropped: the error cannot reach the failing exit" % nm, s.loc())
                elif dropped and not is_ok_then_returned and not good:
                    # listed exception
                    fn = prog.enclosing_fn(b)
                    if nm == "fern::builders::Dispatch::apply":
                        # whatever the form of the drop (`unwrap_or(())`, `is_err()` with an empty arm, `.ok()`): installing the logger is the exception
                        r.ok(anchor, "listed exception: logger initialisation may fail silently (second initialisation in tests)", s.loc())
                    else:
                        r.violation(anchor, "swallowed:" + ",".join(sorted({strip_generics(x.info[0]["decl"]).rsplit("::", 1)[-1] for x in dropped})), "the Result of %s is swallowed by %s" % (nm, sorted({strip_generics(x.info[0]["decl"]) for x in dropped})), s.loc())
                else:
                    r.ok(anchor, "consumed by %s" % sorted({x.describe() for x in real})[:3], s.loc())
    r.floor(n, 20, "Result-producing calls in the binaries")


import re  # noqa: E402


def rule_stdout_writers(ctx):
    prog = ctx.prog
    r = ctx.rule(
        "stdout-writers",
        "stdout is reached only by: the handle the solve command passes to ResponseWriter methods, `println!` in commands that never "
        "touch a solver (problems/authors), and the logger sink; never by the library; the ICCMA wrapper forces logging off",
    )
    lib_w = [(b, s) for b in prog.lib_bodies() for s in b.calls() if callee_matches(callee_of(s), r"^std::io::stdio::(stdout|_print|stderr|_eprint)$")]
    r.check(not lib_w, "lib", "writes-stdout", "the library never writes to stdout/stderr", "the library writes to stdout/stderr in %s" % sorted({b.path for b, _ in lib_w}), lib_w[0][1].loc() if lib_w else None)
    for t in prog.bin_targets():
        n = 0
        for b in prog.bodies_in(t):
            fn = prog.enclosing_fn(b)
            for s in b.calls():
                c = callee_of(s)
                if callee_matches(c, r"^std::io::stdio::_print$"):
                    n += 1
                    reach = prog.reachable_from([fn], virtual_dispatch=False)
                    touches_solver = any((callee_of(x) or {}).get("trait") in SOLVER_TRAITS or callee_matches(callee_of(x), r"^solvers::") for y in reach.values() for x in y.calls())
                    is_cmd = fn.trait_method == "app::command::Command::execute"
                    r.check(is_cmd and not touches_solver, "%s|%s" % (t, fn.path), "println", "println! in a command that never touches a solver", "println! in %s, which is not a solver-free command" % fn.path, s.loc())
                elif callee_matches(c, r"^std::io::stdio::stdout$"):
                    n += 1
                    # logger sink or the answer handle
                    to_logger = any(x.kind == "call" and callee_matches(x.info[0], r"^fern::builders::Dispatch::chain$") for x in consumers(b, s.node["dst"]["l"]))
                    rw = _writes_answer(prog, fn)
                    r.check(to_logger or rw, "%s|%s" % (t, fn.path), "stdout", "stdout handle used for %s" % ("the logger sink" if to_logger else "ResponseWriter calls"), "stdout is opened in %s for something other than answers or the logger" % fn.path, s.loc())
                elif callee_matches(c, r"^std::io::stdio::(stderr|_eprint)$"):
                    n += 1
                    r.ok("%s|%s" % (t, fn.path), "stderr", s.loc())
        r.floor(n, 3, "stdout sites in " + t)
    # every ResponseWriter call in the bins writes to the stdout handle
    for t in prog.bin_targets():
        for b in prog.bodies_in(t):
            for s in b.calls():
                c = callee_of(s)
                if c and c.get("trait") == "io::specs::ResponseWriter":
                    fn = prog.enclosing_fn(b)
                    key = "%s|%s|%s" % (t, fn.path, c["decl"].rsplit("::", 1)[-1])
                    v = stdout_handle(prog, b, s.node["args"][1]) if len(s.node["args"]) > 1 else None
                    if v is None:
                        has_stdout = any(callee_matches(callee_of(x), r"^std::io::stdio::stdout$") for x in fn.calls())
                        if has_stdout:
                            r.ok(key, "answers go to a writer of %s, which opens stdout (the handle itself was not traced)" % fn.path, s.loc())
                        else:
                            r.ok(key, "NOT decided: the writer handed to the ResponseWriter could not be traced to its creation", s.loc())
                    else:
                        r.check(v, key, "writer-target", "answers go to the process's stdout handle (traced to std::io::stdout())", "an answer is written to something other than the stdout handle", s.loc())


def stdout_handle(prog, body, op, depth=0):
    """True: every origin of the writer operand is std::io::stdout() (through parameters, captured variables and lock()); False: some
    origin is another object; None: not decided"""
    from ..tags import _closure_capture_operand

    if depth > 6:
        return None
    os_ = origins(body, op)
    if not os_:
        return None
    res = True
    for o in os_:
        v = None
        if o.kind == "call":
            if callee_matches(o.data, r"^std::io::stdio::stdout$"):
                v = True
            elif callee_matches(o.data, r"^std::io::stdio::Stdout::lock$|^std::io::buffered::(bufwriter::BufWriter|linewriter::LineWriter)::<.*>::new$|^std::io::buffered::(bufwriter::BufWriter|linewriter::LineWriter)::new$"):
                v = stdout_handle(prog, body, o.site.node["args"][0], depth + 1)
            elif callee_decl(o.data) == "<indirect>":
                v = None
            else:
                v = False
        elif o.kind == "param" and o.fields and body.kind != "closure":
            # a field of a struct handed in (`self.out`): what the constructions of that struct put into the field
            fname = str(o.fields[0])
            ty = body.local_ty(o.data).replace("&", "").replace("mut ", "").strip()
            adt_path = re.sub(r"<.*$", "", ty)
            v = None
            found_any = False
            for tb in list(prog.bodies_in(body.target)) + list(prog.lib_bodies()):
                for st in tb.sites():
                    nd = st.node
                    if st.si is not None and nd["k"] == "assign" and nd["rv"]["k"] == "aggregate" and nd["rv"]["agg"].get("path") == adt_path and fname in (nd["rv"]["agg"].get("field_names") or []):
                        found_any = True
                        x = stdout_handle(prog, tb, nd["rv"]["ops"][nd["rv"]["agg"]["field_names"].index(fname)], depth + 1)
                        if x is False:
                            v = False
                        elif x is True and v is None:
                            v = True
            if not found_any:
                v = None
        elif o.kind == "param":
            if body.kind == "closure":
                v = None
            else:
                cs = prog.callers_of(body)
                k = o.data - 1
                if not cs:
                    v = None
                else:
                    v = True
                    for c in cs:
                        if k >= len(c.node["args"]):
                            v = None
                            break
                        x = stdout_handle(prog, c.body, c.node["args"][k], depth + 1)
                        if x is False:
                            v = False
                            break
                        if x is None:
                            v = None
        elif o.kind == "upvar":
            par, cap = _closure_capture_operand(prog, body, o.data)
            v = stdout_handle(prog, par, cap, depth + 1) if cap is not None else None
        elif o.kind in ("const", "agg"):
            v = False
        else:
            v = None
        if v is False:
            return False
        if v is None:
            res = None
    return res


def _str_consts_in(body):
    out = set()
    for s in body.sites():
        n = s.node
        ops = []
        if s.si is not None and n["k"] == "assign":
            ops = n["rv"].get("ops", [])
        elif s.si is None and n["k"] == "call":
            ops = n["args"]
        for o in ops:
            k = op_const(o)
            if k is not None and "str" in k:
                out.add(k["str"])
    return out


def clap_definitions(prog, target):
    """(subcommand names, long options, {arg: possible values})"""
    longs = set()
    subs = set()
    possible = {}
    for b in prog.bodies_in(target):
        for s in b.calls():
            c = callee_of(s)
            if callee_matches(c, r"^clap::args::arg::Arg::long$"):
                for o in origins(b, s.node["args"][1]):
                    if o.kind == "const" and "str" in o.data:
                        longs.add(o.data["str"])
                        # possible values attached to the same builder chain
                        pv = set()
                        for x in b.calls():
                            if callee_matches(callee_of(x), r"^clap::args::arg::Arg::possible_values$"):
                                for oo in origins(b, x.node["args"][1]):
                                    if oo.kind == "const" and "str" in oo.data:
                                        pv |= set(oo.data["str"].split("\x1f"))
                                    if oo.kind == "agg" and oo.data["kind"] == "array":
                                        for op in oo.site.node["rv"]["ops"]:
                                            k = op_const(op)
                                            if k and "str" in k:
                                                pv.add(k["str"])
                        possible[o.data["str"]] = pv
            if callee_matches(c, r"^clap::args::subcommand::SubCommand::with_name$"):
                for o in origins(b, s.node["args"][0]):
                    if o.kind == "const" and "str" in o.data:
                        subs.add(o.data["str"])
    return subs, longs, possible


def rule_wrapper_flags(ctx):
    prog = ctx.prog
    r = ctx.rule(
        "wrapper-flags",
        "every literal argument injected by the ICCMA'23 wrapper names a sub-command / long option / value declared by the clap definitions, and "
        "all three branches inject `--logging-level off`",
    )
    t = "bin:crustabri_iccma23"
    main_files = {b.file for b in prog.bodies_in(t) if b.path == "main"}
    tr = [b for b in prog.bodies_in(t) if b.file in main_files and b.kind != "closure" and b.path != "main"]
    if not r.require_anchor(tr, "argument translation function of the wrapper"):
        return
    subs, longs, possible = clap_definitions(prog, t)
    # literals that flow into the returned argument vector (comparisons against the real arguments do not)
    lits = set()
    seen = set()

    def returned_literals(b):
        """string constants the return value of `b` data-depends on, through the wrapper's own functions (their results and what is handed to them)"""
        if b.id in seen:
            return
        seen.add(b.id)
        _, calls, consts = data_deps(b, {"l": 0, "p": []})
        for k in consts:
            if "str" in k:
                lits.add(k["str"])
        for cs in calls:
            c = callee_of(cs)
            tgt = prog.body_for_callee(c, b) if c is not None else None
            if tgt is not None and tgt.target == t and tgt.file in main_files:
                returned_literals(tgt)
            for fa in (c or {}).get("fn_args") or []:
                cb = prog.by_target[t].get(fa) if isinstance(fa, str) else None
                if cb is not None and cb.file in main_files:
                    returned_literals(cb)

    for b in tr:
        if "OsString" not in b.ret_ty:
            continue
        returned_literals(b)
    flat = set()
    for l in lits:
        flat |= set(l.split("\x1f"))
    flat.discard("unknown app name")
    const_args = set()
    for (tt, path), c in prog.consts.items():
        if tt == t and not path.startswith("app::"):
            pass
    for l in sorted(flat):
        if l.startswith("--"):
            r.check(l[2:] in longs, t + "|" + l, "undeclared-option", "%s is a declared long option" % l, "the wrapper injects %s, which no clap definition declares" % l)
        elif l in subs:
            r.ok(t + "|" + l, "%s is a declared sub-command" % l)
        elif any(l in pv for pv in possible.values()):
            r.ok(t + "|" + l, "%s is a declared option value" % l)
        elif l == "":
            continue
        else:
            r.violation(t + "|" + l, "unknown-literal", "the wrapper injects the literal %r, which is neither a sub-command, a long option nor a declared value" % l)
    need = {"--logging-level", "off", "solve", "problems", "authors", "--with-certificate", "--reader", "iccma23"}
    r.check(need <= flat, t, "missing:%s" % sorted(need - flat), "the wrapper injects %s" % sorted(need), "the wrapper no longer injects %s" % sorted(need - flat))
    r.check("off" in possible.get("logging-level", set()) and "iccma23" in possible.get("reader", set()), t, "values", "`off` and `iccma23` are declared values of their options", loc=None)
