"""Rules on the command-line layer (bins) shared by C05 and C17."""
from ..core import Site, callee_of, callee_is, callee_name, callee_matches, strip_generics, op_const, op_place, origins
from ..flow import conditions, consumers

SOLVER_TRAITS = (
    "solvers::specs::SingleExtensionComputer",
    "solvers::specs::CredulousAcceptanceComputer",
    "solvers::specs::SkepticalAcceptanceComputer",
)


def rule_no_catch_unwind(ctx):
    prog = ctx.prog
    r = ctx.rule(
        "no-catch-unwind",
        "no catch_unwind / panic hook / resume_unwind in the package; threads are spawned only by the function that waits for the "
        "external solver and their result is never joined into an answer",
    )
    bad = []
    spawns = []
    for b in prog.bodies.values():
        for s in b.calls():
            c = callee_of(s)
            if callee_matches(c, r"^std::panic::(catch_unwind|set_hook|take_hook|resume_unwind)$"):
                bad.append((b, s, strip_generics(callee_name(c))))
            if callee_matches(c, r"^std::thread::(functions::spawn|scoped::scope|builder::Builder::spawn)") or callee_matches(c, r"^std::thread::Builder"):
                spawns.append((b, s))
    for b, s, nm in bad:
        r.violation(b.id, nm, "%s is called: a panic raised by a failing SAT call can be intercepted" % nm, s.loc())
    if not bad:
        r.ok("package", "no catch_unwind/set_hook/resume_unwind in %d bodies" % len(prog.bodies))
    for b, s in spawns:
        fn = prog.enclosing_fn(b)
        waits = any(callee_is(callee_of(x), "std::process::Child::wait", "std::process::Child::wait_with_output") for x in fn.calls())
        r.check(waits and fn.target == "lib", fn.id, "thread-spawn", "thread spawned only to feed the external solver", "a thread is spawned in %s: a panic in it does not abort the query" % fn.path, s.loc())
    # positive self-test of the matcher (zero-expected rule): the pattern must match the std path it is meant for
    import re

    assert re.search(r"^std::panic::(catch_unwind|set_hook|take_hook|resume_unwind)$", "std::panic::catch_unwind")


def rule_single_exit(ctx):
    prog = ctx.prog
    r = ctx.rule(
        "single-exit",
        "process::exit is called at exactly one place per binary, with a non-zero constant, on the Err arm of the command result",
    )
    for t in prog.bin_targets():
        exits = []
        for b in prog.bodies_in(t):
            for s in b.calls():
                if callee_is(callee_of(s), "std::process::exit", "std::process::abort"):
                    exits.append((b, s))
        r.check(len(exits) == 1, t, "exit-sites=%d" % len(exits), "one process::exit site", "%d process::exit sites in %s" % (len(exits), t))
        for b, s in exits:
            k = op_const(s.node["args"][0]) if s.node["args"] else None
            code = k.get("int") if k else None
            r.check(code is not None and code != 0, t + "|" + b.path, "code=%s" % code, "exit status is the non-zero constant %s" % code, "process::exit status is %s" % code, s.loc())
            conds = conditions(b, s.bb)
            on_err = False
            for c in conds:
                from .satlayer import place_ty

                ty = place_ty(b, c.place)
                if c.is_discr and "core::result::Result<" in ty and "anyhow::Error" in ty and not c.negated and c.values == ["1"]:
                    on_err = True
            r.check(on_err, t + "|" + b.path, "not-on-err", "exit is on the Err arm of an anyhow Result", "process::exit is not guarded by the Err arm of the command result", s.loc())
    # the library never exits
    lib_exits = [(b, s) for b in prog.lib_bodies() for s in b.calls() if callee_is(callee_of(s), "std::process::exit", "std::process::abort")]
    r.check(not lib_exits, "lib", "exit-in-lib", "no process::exit in the library", loc=(lib_exits[0][1].loc() if lib_exits else None))


def dispatch_functions(prog, target):
    """functions of the bin that call a solver-trait method through a trait object"""
    out = []
    for b in prog.bodies_in(target):
        for s in b.calls():
            c = callee_of(s)
            if c and c.get("trait") in SOLVER_TRAITS and c.get("virtual"):
                if b not in out:
                    out.append(b)
    return out


def writer_callback_calls(b):
    """calls of a closure-typed parameter (the writing callback)"""
    out = []
    for s in b.calls():
        c = callee_of(s)
        if c and callee_matches(c, r"ops::function::(FnMut|Fn|FnOnce)::call(_mut|_once)?$"):
            a0 = s.node["args"][0]
            for o in origins(b, a0, transparent=()):
                if o.kind == "param":
                    out.append(s)
                    break
    return out


def rule_answer_after_solver(ctx):
    prog = ctx.prog
    r = ctx.rule(
        "answer-once-after-solver",
        "in each dispatch function of the solve command every normally returning path calls the writing callback exactly once, and "
        "only after the solver's method returned",
    )
    n = 0
    for t in prog.bin_targets():
        dfs = dispatch_functions(prog, t)
        r.check(len(dfs) == 3, t, "dispatch-functions=%d" % len(dfs), "3 dispatch functions (SE, DC, DS)", "%d dispatch functions found" % len(dfs))
        for b in dfs:
            n += 1
            ws = writer_callback_calls(b)
            solver_calls = [s for s in b.calls() if (callee_of(s) or {}).get("trait") in SOLVER_TRAITS]
            anchor = "%s|%s" % (t, b.path)
            if not r.require_anchor(ws, "writing callback call in " + b.path):
                continue
            for w in ws:
                dom = [s for s in solver_calls if b.dominates(s, w)]
                r.check(bool(dom), anchor, "write-before-solve", "answer written after %s returned" % (strip_generics(callee_name(callee_of(dom[0]))) if dom else "?"), "the writing callback is called before any solver method returned", w.loc())
            # exactly once: no path from one write to another, and no return without a write
            multi = any(b.reaches(w1.bb, w2.bb) for w1 in ws for w2 in ws)
            r.check(not multi, anchor, "write-twice", "no path calls the writing callback twice", "a path calls the writing callback more than once", ws[0].loc())
            wblocks = {w.bb for w in ws}
            ret_wo = False
            seen = set()
            st = [0]
            while st:
                x = st.pop()
                if x in seen or x in wblocks:
                    continue
                seen.add(x)
                if b.blocks[x]["term"]["k"] == "return":
                    ret_wo = True
                st.extend(b.succ[x])
            r.check(not ret_wo, anchor, "return-without-write", "every normal return passes through a write", "a path returns normally without writing an answer", b.loc())
    return n
