"""C16 - the exchange with an external SAT solver is well-formed and cannot hang"""
from . import satlayer


def run(ctx):
    satlayer.rule_header(ctx)
    satlayer.rule_clause_store(ctx)
    satlayer.rule_assumptions_transient(ctx)  # the store and its counter are left alone by a solve call: the next header stays exact
    satlayer.rule_variable_count_monotone(ctx, owners=r"buffered_sat_solver::BufferedSatSolver$")  # the header prints this counter; the stored clauses stay: a lowered counter under-declares them
    satlayer.rule_child_pipes(ctx)
    satlayer.rule_reply_is_stdout(ctx)
    satlayer.rule_reply_parser(ctx)
    satlayer.rule_reply_read_errors_abort(ctx)
    satlayer.rule_feeder_writes_what_it_read(ctx)
    satlayer.rule_verdict_tables(ctx)
    ctx.assume("rustc's MIR; std::process / std::io semantics of wait, read_to_end, piped stdio")
    ctx.assume("format_args! template decoding follows library/core/src/fmt/mod.rs of the installed toolchain")
    return (
        "F6 dependence of the `p cnf` header operands on the assumptions and the stored counters, F2 counter discipline of "
        "add_clause, F11 typestate of ChildStdout/ChildStdin at Child::wait, F4 flag analysis of the reply parser. Decides the "
        "shape clauses (header covers assumptions, exact clause count, drain-before-wait, strict parser); timing and the behaviour "
        "of a particular external program are not decided."
    )
