"""C19 - arguments merged by the equivalence reduction are indistinguishable (mapping clause only)"""
from . import equiv


def run(ctx):
    equiv.rule_class_tables_agree(ctx)
    equiv.rule_classes_partition(ctx)
    equiv.rule_merge_test(ctx)
    equiv.rule_propagation_discipline(ctx)
    equiv.rule_grounded_seeds(ctx)
    ctx.assume("rustc's MIR; provenance trees of sa/prov.py (flow-insensitive, closures resolved to the adaptor they are handed to)")
    ctx.assume("ArgumentSet::new_with_labels gives ids 0..n-1 in the order of the label slice (C12/C13 rules labels-append-only, declaration-order)")
    return (
        "Provenance trees (which value is stored under which index; which table an accessor reads with which key) for the second sentence of "
        "the statement: the two mappings are total and inverse to each other at the level of classes - the writer of the class list, the "
        "writer of the init->reduced table and the two readers agree, and every argument enters exactly one class. Of the first sentence only the "
        "mechanism the property names is decided structurally (a candidate joins a class under `its propagation contains the seed`; the "
        "propagations start from plain in-degree counters); that merged arguments belong to the same complete extensions is a semantic fact "
        "about the propagation over all graphs and is NOT decided."
    )
