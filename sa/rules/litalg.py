"""The literal / variable / assignment algebra of src/sat/sat_solver.rs: small pure functions every encoder and every decoder
goes through.  Decided on provenance trees evaluated as integer expressions  a*x + b  (or |x|) of one input; a form the evaluator
does not know is "not decided"."""
import re

from ..prov import prov, show, subterms
from ..core import callee_of, callee_decl

MOD = "sat::sat_solver"
_IDENT = re.compile(
    r"^core::convert::(Into::into|From::from|TryFrom::try_from|TryInto::try_into)$|^core::num::nonzero::NonZero::(get|new|new_unchecked)$|^core::num::nonzero::NonZero<.*>::(get|new)$"
)
_ABS = re.compile(r"::(unsigned_abs|abs)$")
_NEG = re.compile(r"^core::ops::arith::Neg::neg$|::(wrapping_neg|checked_neg)$")


def lin(e, is_x):
    """('lin', a, b) | ('abs', a, b) meaning a*|x|+b | None"""
    if not isinstance(e, tuple):
        return None
    if is_x(e):
        return ("lin", 1, 0)
    if e[0] == "const" and isinstance(e[1], int) and not isinstance(e[1], bool):
        return ("lin", 0, e[1])
    if e[0] == "field" and e[2] == "0" and isinstance(e[1], tuple) and e[1][0] == "op" and e[1][1].endswith("WithOverflow"):
        return lin(("op", e[1][1].replace("WithOverflow", ""), e[1][2]), is_x)
    if e[0] == "op":
        if e[1] == "Neg" and len(e[2]) == 1:
            v = lin(e[2][0], is_x)
            return (v[0], -v[1], -v[2]) if v else None
        if e[1] in ("Add", "Sub") and len(e[2]) == 2:
            a, b = lin(e[2][0], is_x), lin(e[2][1], is_x)
            if a is None or b is None:
                return None
            if a[0] != b[0] and not (a[1] == 0 or b[1] == 0):
                return None
            kind = a[0] if a[1] != 0 else b[0]
            s = 1 if e[1] == "Add" else -1
            return (kind, a[1] + s * b[1], a[2] + s * b[2])
        if e[1] == "Mul" and len(e[2]) == 2:
            a, b = lin(e[2][0], is_x), lin(e[2][1], is_x)
            if a is None or b is None:
                return None
            if a[1] == 0:
                return (b[0], b[1] * a[2], b[2] * a[2])
            if b[1] == 0:
                return (a[0], a[1] * b[2], a[2] * b[2])
        return None
    if e[0] == "call" and len(e[2]) >= 1:
        if _IDENT.match(e[1]) and len(e[2]) == 1:
            return lin(e[2][0], is_x)
        if _ABS.search(e[1]) and len(e[2]) == 1:
            v = lin(e[2][0], is_x)
            return ("abs", 1, 0) if v == ("lin", 1, 0) or v == ("lin", -1, 0) else None
        if _NEG.search(e[1]) and len(e[2]) == 1:
            v = lin(e[2][0], is_x)
            return (v[0], -v[1], -v[2]) if v else None
    if e[0] == "agg" and len(e[2]) == 1:
        # a newtype wrapper
        return lin(e[2][0], is_x)
    return None


def _ret(prog, b):
    return list(prov(prog, b, {"l": 0, "p": []}))


def rule_literal_algebra(ctx):
    prog = ctx.prog
    r = ctx.rule(
        "literal-algebra",
        "the pure functions between integers, literals, variables and models: `negate` yields the arithmetic negation, `var` the absolute "
        "value, the integer conversions keep the value, `Assignment::value_of(v)` reads slot v-1 and `Assignment::iter` numbers slot i as "
        "variable i+1 (variables start at 1, slots at 0)",
    )
    fns = {b.path: b for b in prog.lib_bodies() if b.kind != "closure" and MOD + "::" in b.path and "::tests::" not in b.path}
    n = 0

    def param_x(b, k=1):
        return lambda e: e[0] == "param" and e[1] == b.path and e[2] == k

    def judge(b, want, what, k=1, trees=None):
        nonlocal n
        trees = _ret(prog, b) if trees is None else trees
        vals = [lin(e, param_x(b, k)) for e in trees]
        n += 1
        if not vals or any(v is None for v in vals):
            r.ok(b.id + "|" + what, "NOT decided: form not evaluated (%s)" % "; ".join(show(e)[:80] for e in trees[:2]), b.loc())
            return
        r.check(all(v == want for v in vals), b.id + "|" + what, "%s:%s" % (what, vals[0]), "%s computes %s" % (b.path.rsplit("::", 1)[-1], what), "%s computes %s of its input, not %s" % (b.path, _fmt(vals[0]), _fmt(want)), b.loc())

    neg = fns.get(MOD + "::Literal::negate")
    var = fns.get(MOD + "::Literal::var")
    if r.require_anchor(neg is not None and var is not None, "Literal::negate and Literal::var"):
        judge(neg, ("lin", -1, 0), "negation")
        judge(var, ("abs", 1, 0), "absolute-value")
    convs = [b for p, b in sorted(fns.items()) if re.search(r"core::convert::From<.*>::from$", p) and b.n_args == 1]
    r.floor(len(convs), 4, "integer <-> Literal / Variable conversions")
    for b in convs:
        judge(b, ("lin", 1, 0), "identity")
    vo = fns.get(MOD + "::Assignment::value_of")
    if r.require_anchor(vo is not None, "Assignment::value_of"):
        trees = _ret(prog, vo)
        idx = []
        for e in trees:
            if e[0] == "call" and e[1].endswith("Index::index") and len(e[2]) == 2:
                idx.append(e[2][1])
            elif e[0] == "field" and e[1][0] == "call" and re.search(r"slice::.*get$|Vec.*::get$", e[1][1]) and len(e[1][2]) == 2:
                idx.append(e[1][2][1])
        if len(idx) != len(trees) or not idx:
            n += 1
            r.ok(vo.id + "|slot", "NOT decided: the read is not an index expression", vo.loc())
        else:
            judge(vo, ("lin", 1, -1), "slot v-1", k=2, trees=idx)
    it = fns.get(MOD + "::Assignment::iter")
    if r.require_anchor(it is not None, "Assignment::iter"):
        clos = [c for c in prog.with_closures(it) if c.kind == "closure"]
        done = False
        for c in clos:
            for e in prov(prog, c, {"l": 0, "p": []}):
                if e[0] == "agg" and len(e[2]) == 2:
                    is_idx = lambda t: t[0] == "field" and t[2] == "0" and t[1][0] == "elem" and "enumerate" in repr(t[1][1])  # noqa: E731
                    v = lin(e[2][0], is_idx)
                    n += 1
                    done = True
                    if v is None:
                        r.ok(it.id + "|numbering", "NOT decided: %s" % show(e[2][0])[:80], c.loc())
                    else:
                        r.check(v == ("lin", 1, 1), it.id + "|numbering", "numbering:%s" % (v,), "slot i is reported as variable i+1", "Assignment::iter reports slot i as variable %s" % _fmt(v).replace("x", "i"), c.loc())
                        second = e[2][1]
                        r.check(any(t[0] == "field" and t[2] == "1" and t[1][0] == "elem" for t in subterms(second)), it.id + "|value", "value-source", "with the value of that slot", "Assignment::iter pairs the number with %s, not the value of the slot" % show(second)[:80], c.loc())
        if not done:
            r.ok(it.id + "|numbering", "NOT decided: no per-slot closure returning a pair", it.loc())
        # every slot is reported: no adaptor that drops or reorders between the slot vector and the pairs
        drops = sorted({callee_decl(callee_of(x)).rsplit("::", 1)[-1] for x in it.calls() if re.search(r"Iterator::(skip|take|filter|filter_map|step_by|skip_while|take_while|map_while)$", callee_decl(callee_of(x)) or "")})
        n += 1
        r.check(not drops, it.id + "|all-slots", "slots-dropped:%s" % drops, "every slot of the model is reported", "Assignment::iter goes through %s: some variables of the model are not reported, and what decodes a model from it misses them" % drops, it.loc())
    r.floor(n, 8, "functions of the literal algebra evaluated")


def _fmt(v):
    if v is None:
        return "?"
    x = "|x|" if v[0] == "abs" else "x"
    return "%s*%s%+d" % (v[1], x, v[2])
