"""C12 - the framework store is a faithful set model under any update history (representation-invariant obligations)"""
from . import store


def run(ctx):
    store.rule_label_ops(ctx)
    store.rule_removed_counter(ctx)
    store.rule_counts(ctx)
    store.rule_label_store_arithmetic(ctx)
    store.rule_attack_ops(ctx)
    store.rule_index_pairing(ctx)
    store.rule_attack_orientation(ctx)
    store.rule_error_before_mutation(ctx)
    store.rule_idempotent_insertions(ctx)
    store.rule_iterators_filter(ctx)
    ctx.assume("std Vec / HashMap / Option semantics of the operations named in the operation tables")
    ctx.assume("rustc's MIR, closure capture names and resolved callees")
    return (
        "Operation tables (F1) on the store's redundant indexes, pairing (F2) and guard (F4) obligations per (mutator, invariant), "
        "error-before-mutation with callee summaries, tombstone filtering of the iterators (F5). These are necessary conditions of the "
        "representation invariant I1-I7 of DESIGN.md; full functional correctness as a set model is not proved."
    )
