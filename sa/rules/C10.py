"""C10 - CNF encodings characterise exactly the intended sets (variable-layout clause only)"""
from . import layout, litalg


def run(ctx):
    from . import lazyvars as _lazyvars
    _lazyvars.rule_lazy_variable_counter(ctx)
    _lazyvars.rule_range_offset(ctx)
    _lazyvars.rule_encoding_loops_exhaust(ctx)
    layout.rule_variable_layout(ctx)
    layout.rule_selector_above_encoding(ctx)
    layout.rule_clause_templates(ctx)
    litalg.rule_literal_algebra(ctx)
    from . import dyn as _dyn
    _dyn.rule_decoders_keep_true_variables(ctx)
    ctx.assume("integer arithmetic on usize without overflow for frameworks that fit in memory")
    ctx.assume("rustc's MIR; affine abstract interpretation of sa/affine.py (+, -, <<, exact >>, * by constants, inlined local calls)")
    return (
        "F7 affine abstract interpretation of the id<->variable maps of the four encoders, with injectivity, pairwise image disjointness in the "
        "interval x congruence domain for all n >= 1, symbolic composition decode(T(id)) = id, rejection of non-argument variables by the decoder, "
        "range indexing and reserve() bounds; dominance of selector allocation by the encode call. Decides the last sentence of the statement "
        "(distinct arguments -> distinct literals that never collide with auxiliary or range variables) and the decoder agreement; that the models "
        "of the CNF are exactly the intended sets is NOT decided."
    )
