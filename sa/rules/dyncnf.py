"""C08 (incremental clauses): the selector-based dynamic encoder issues, for the re-encoded argument, the
clause shapes of the static aux-var complete / stable encodings, each guarded by the fresh selector."""
import re

from ..core import callee_of, callee_decl, callee_matches, callee_name, strip_generics, op_place, op_const, origins, data_deps, switch_sites
from ..flow import conditions, switch_subject
from .. import cnf

ENC = "dynamics::dynamic_constraints_encoder::DynamicConstraintsEncoder"

# reference shapes: S = the selector handed over by the re-encoding function, T = variable of an argument, D = its
# attacker-disjunction variable (T + 1), s = the re-encoded argument, a = one of its attackers, * = once per attacker
COMPLETE_REF = {
    "loop:[+Da -S -Ts]": "a -> P_b for every attacker b",
    "arg:[+Ts -Da* -S]": "(AND_b P_b) -> a",
    "loop:[+Ds -S -Ta]": "b -> P_a for every attacker b",
    "arg:[+Ta* -Ds -S]": "P_a -> OR_b b",
}
STABLE_REF = {
    "loop:[-S -Ta -Ts]": "a -> not b for every attacker b",
    "arg:[+Ta* +Ts -S]": "a or OR_b b",
}


def _norm(t, ttable, self_param, att_param, sel_param):
    lits = []
    for s, k, n, m in t.lits:
        role = "?"
        if k[0] == "table" and k[1] == ttable:
            role = "T"
        elif k[0] == "plus1" and k[1][0] == "table" and k[1][1] == ttable:
            role = "D"
        elif k[0] == "lparam" and k[1] == ("param", sel_param):
            role = "S"
        node = ""
        if role in ("T", "D"):
            node = "s" if n == ("idparam", self_param) else ("a" if n == ("idelem", att_param) else "?")
        lits.append("%s%s%s%s" % (s, role, node, "*" if m else ""))
    return "%s:[%s]" % (t.per if t.per in ("arg", "loop") else "?", " ".join(sorted(lits)))


def rule_dynamic_clause_templates(ctx):
    prog = ctx.prog
    r = ctx.rule(
        "dynamic-clause-templates",
        "selector-based dynamic encoder: re-encoding an argument a with attackers b1..bk under the fresh selector s issues exactly the clause shapes "
        "of the static encodings guarded by -s: complete/preferred  a->P_b, (AND P_b)->a, b->P_a, P_a->OR b  (P = variable + 1, with a->-P_a added "
        "when the argument is created); stable  a->-b, a or OR b; the attackers are those of `iter_attacks_to(a)`; CO|PR and ST select these two sets",
    )
    cx = cnf.Ctx(prog)
    a2l = [b for b in prog.lib_bodies() if b.kind != "closure" and strip_generics(b.path) == ENC + "::arg_to_lit"]
    if not r.require_anchor(a2l, ENC + "::arg_to_lit"):
        return
    # the id -> variable table: the one arg_to_lit indexes
    ttable = None
    for s in a2l[0].calls():
        if callee_decl(callee_of(s)) == "core::ops::index::Index::index":
            ttable = cnf._table_key(cx, a2l[0], s.node["args"][0])
    def _elsewhere():
        """the encoder still issues clauses somewhere among its own functions (in a form this rule does not follow)"""
        own = [b for b in prog.lib_bodies() if b.impl and b.impl.get("self_adt") == ENC]
        return [b for b in own if any(callee_matches(callee_of(x), r"sat_solver::SatSolver::add_clause$") for y in prog.with_closures(b) for x in y.calls())]

    if not (ttable and ttable != "?"):
        # arg_to_lit through a helper (`arg_id_to_lit(id)`)
        for s in a2l[0].calls():
            t = prog.body_for_callee(callee_of(s), a2l[0]) if callee_of(s) else None
            if t is not None and t.impl and t.impl.get("self_adt") == ENC:
                for s2 in t.calls():
                    if callee_decl(callee_of(s2)) == "core::ops::index::Index::index":
                        ttable = cnf._table_key(cx, t, s2.node["args"][0])
    if not r.require_anchor(ttable and ttable != "?", "id-indexed variable table used by arg_to_lit"):
        return
    # clause-issuing functions taking (id, &[id], selector literal)
    fns = []
    for b in prog.lib_bodies():
        if b.kind == "closure" or not b.impl or b.impl.get("self_adt") != ENC:
            continue
        tys = [b.local_ty(i) for i in range(1, b.n_args + 1)]
        if "usize" in tys and any(re.match(r"^&\[usize\]$", t) for t in tys) and any(t.endswith("sat::sat_solver::Literal") for t in tys) and cnf._adds_clauses(cx, b):
            fns.append(b)
    if len(fns) < 2 and _elsewhere():
        r.ok(ENC + "|templates", "NOT decided: the guarded clauses are not issued by functions of the shape (id, attacker ids, selector) - they are added in %s" % sorted({b.path.rsplit("::", 1)[-1] for b in _elsewhere()})[:4], _elsewhere()[0].loc())
        return
    if not r.require_anchor(len(fns) >= 2, "functions issuing the guarded clauses of one argument (id, attacker ids, selector)"):
        return
    got = {}
    for b in fns:
        tys = [b.local_ty(i) for i in range(1, b.n_args + 1)]
        sp = tys.index("usize") + 1
        ap = [i + 1 for i, t in enumerate(tys) if re.match(r"^&\[usize\]$", t)][0]
        lp = [i + 1 for i, t in enumerate(tys) if t.endswith("sat::sat_solver::Literal")][0]
        ts = {}
        for t in cnf.local_clause_sites(cx, b):
            ts.setdefault(_norm(t, ttable, sp, ap, lp), t)
        got[b.id] = (b, ts)
    # which function serves which semantics: the dispatch in the re-encoding function
    sem = prog.adt("aa::problem::Semantics")
    idx = {str(v["idx"]): v["name"] for v in sem["variants"]} if sem else {}
    disp = {}
    reenc = None
    for b in prog.lib_bodies():
        if b.kind == "closure" or not b.impl or b.impl.get("self_adt") != ENC:
            continue
        targets = [s for s in b.calls() if prog.body_for_callee(callee_of(s), b) is not None and prog.body_for_callee(callee_of(s), b).id in got]
        if len({prog.body_for_callee(callee_of(s), b).id for s in targets}) >= 2:
            reenc = b
            for s in targets:
                t = prog.body_for_callee(callee_of(s), b)
                sems = None
                for c in conditions(b, s.bb):
                    if c.is_discr and "aa::problem::Semantics" in b.local_ty(c.place["l"]) or (c.is_discr and c.place["p"] and "Semantics" in str(c.place["p"][-1])):
                        vs = {idx.get(v, v) for v in c.values}
                        if c.negated:
                            vs = set(idx.values()) - vs
                        sems = vs if sems is None else sems & vs
                disp.setdefault(t.id, set()).update(sems or {"?"})
    if not r.require_anchor(reenc is not None, "re-encoding function dispatching on the semantics"):
        return
    n = 0
    for fid, (b, ts) in sorted(got.items()):
        sems = disp.get(fid, set())
        if sems == {"CO", "PR"}:
            want, name = COMPLETE_REF, "complete/preferred"
        elif sems == {"ST"}:
            want, name = STABLE_REF, "stable"
        elif "?" in sems or not sems:
            n += 1
            r.ok(b.id, "NOT decided: which semantics select %s is not read off a match on the semantics (a predicate method, an `==` test)" % b.path.rsplit("::", 1)[-1], b.loc())
            continue
        else:
            r.violation(b.id, "dispatch:%s" % sorted(sems), "the clause-issuing function %s is selected for semantics %s (expected CO|PR or ST)" % (b.path, sorted(sems)), b.loc())
            continue
        n += 1
        missing = sorted(set(want) - set(ts))
        extra = sorted(set(ts) - set(want))
        r.check(
            not missing and not extra,
            b.id,
            "missing=%s extra=%s" % (missing, extra),
            "%d guarded clause shapes = the %s encoding" % (len(ts), name),
            "the guarded clauses of the %s re-encoding differ from the reference: missing %s, unexpected %s" % (name, [(m, want[m]) for m in missing], [(e, str(ts[e].site.loc())) for e in extra]),
            (ts[extra[0]].site.loc() if extra else b.loc()),
        )
    r.floor(n, 2, "clause-issuing functions compared with their reference")
    # the attacker ids handed over are those of iter_attacks_to(argument with the re-encoded id)
    for s in reenc.calls():
        t = prog.body_for_callee(callee_of(s), reenc)
        if t is None or t.id not in got:
            continue
        tys = [t.local_ty(i) for i in range(1, t.n_args + 1)]
        ap = [i for i, ty in enumerate(tys) if re.match(r"^&\[usize\]$", ty)][0]
        sp = tys.index("usize")
        _, calls, _ = data_deps(reenc, s.node["args"][ap])
        it = [c for c in calls if callee_matches(callee_of(c), r"AAFramework::iter_attacks_to$")]
        ok = False
        for c in it:
            # the argument whose attackers are listed has the id that is passed as the re-encoded id
            l1, c1, _ = data_deps(reenc, c.node["args"][1])
            l2, _, _ = data_deps(reenc, s.node["args"][sp])
            byid = [x for x in c1 if callee_matches(callee_of(x), r"ArgumentSet::get_argument_by_id$")]
            if byid and (l2 & data_deps(reenc, byid[0].node["args"][1])[0]):
                ok = True
        attacker = False
        for c in calls:
            if callee_decl(callee_of(c)) == "core::iter::traits::iterator::Iterator::map":
                for fa in callee_of(c).get("fn_args") or []:
                    clo = prog.lib(fa)
                    if clo is not None and any(callee_decl(callee_of(x)) == "aa::aa_framework::Attack::attacker" for x in clo.calls()) and not any(callee_decl(callee_of(x)) == "aa::aa_framework::Attack::attacked" for x in clo.calls()):
                        attacker = True
        if not (ok and attacker):
            # a list filled by hand: `for att in af.iter_attacks_to(arg_by_id(id)) { ids.push(att.attacker().id()) }`
            from ..prov import prov as _pv, subterms as _sub
            from .grounded import _is_call as _isc

            pushed = []
            for o in origins(reenc, s.node["args"][ap], transparent=("core::ops::deref::Deref::deref", "alloc::vec::Vec::as_slice")):
                if o.kind == "call" and o.site is not None and callee_decl(o.data) in ("alloc::vec::Vec::new", "alloc::vec::Vec::with_capacity"):
                    for ms in reenc.mut_call_defs.get(o.site.node["dst"]["l"], []):
                        if callee_decl(callee_of(ms)) == "alloc::vec::Vec::push":
                            pushed += list(_pv(prog, reenc, ms.node["args"][1]))
            ids = set(_pv(prog, reenc, s.node["args"][sp]))
            if pushed:
                good = all(_isc(e, r"Label::id$", 1) and _isc(e[2][0], r"Attack::attacker$", 1) and e[2][0][2][0][0] == "elem" and _isc(e[2][0][2][0][1], r"iter_attacks_to$") and any(_isc(z, r"get_argument_by_id$", 2) and z[2][1] in ids for z in _sub(e[2][0][2][0][1])) for e in pushed)
                wrongdir = any(any(_isc(z, r"Attack::attacked$|iter_attacks_from(_id)?$") for z in _sub(e)) for e in pushed)
                if good:
                    ok = attacker = True
                elif not wrongdir:
                    r.ok("%s|attackers@%s" % (reenc.id, strip_generics(t.path).rsplit("::", 1)[-1]), "NOT decided: the attacker ids are collected in a form the rule does not follow", s.loc())
                    continue
        r.check(ok and attacker, "%s|attackers@%s" % (reenc.id, strip_generics(t.path).rsplit("::", 1)[-1]), "attacker-ids", "attacker ids = ids of the attackers in iter_attacks_to(re-encoded argument)", "the ids handed to %s are not the attackers of the re-encoded argument" % t.path, s.loc())
    # a -> -P_a when an argument is created under CO|PR
    newarg = [b for b in prog.lib_bodies() if b.kind != "closure" and strip_generics(b.path) == ENC + "::new_argument"]
    if r.require_anchor(newarg, ENC + "::new_argument"):
        b = newarg[0]
        adds = [s for s in b.calls() if callee_matches(callee_of(s), r"sat_solver::SatSolver::add_clause$")]
        ok = False
        for s in adds:
            els = cnf.clause_elements(cx, b, s.node["args"][1])
            # two negative literals built from two different allocation calls
            srcs = set()
            for st in b.ptr_store_defs.get(-1, []):
                pass
            neg = [e for e in els if e[0] == "-"]
            _, calls, _ = data_deps(b, s.node["args"][1])
            allocs = {(c.bb) for c in calls if (callee_of(c) or {}).get("decl", "").startswith("dynamics::") and prog.body_for_callee(callee_of(c), b) is not None and prog.body_for_callee(callee_of(c), b).ret_ty == "usize"}
            sems = None
            for c in conditions(b, s.bb):
                if c.is_discr and ("Semantics" in b.local_ty(c.place["l"]) or c.place["p"]):
                    vs = {idx.get(v, v) for v in c.values}
                    if c.negated:
                        vs = set(idx.values()) - vs
                    sems = vs if sems is None else sems & vs
            if len(els) >= 1 and all(e[0] == "-" for e in els) and len(allocs) == 2 and sems == {"CO", "PR"}:
                ok = True
        unresolved = False
        if not ok:
            # the clause goes through a private `add_clause` wrapper of the encoder, or the semantics are tested by a predicate method
            wrapped = [s for s in b.calls() if prog.body_for_callee(callee_of(s), b) is not None and prog.body_for_callee(callee_of(s), b).impl and prog.body_for_callee(callee_of(s), b).impl.get("self_adt") == ENC and any(callee_matches(callee_of(x), r"sat_solver::SatSolver::add_clause$") for x in prog.body_for_callee(callee_of(s), b).calls()) and prog.body_for_callee(callee_of(s), b).ret_ty == "()" and prog.body_for_callee(callee_of(s), b).n_args == 2]
            sem_matched = any(c.is_discr and ("Semantics" in b.local_ty(c.place["l"]) or c.place["p"]) for a_ in adds for c in conditions(b, a_.bb))
            if (not adds and wrapped) or (adds and not sem_matched and any(not c.is_discr for a_ in adds for c in conditions(b, a_.bb))):
                unresolved = True
        if unresolved:
            r.ok(b.id, "NOT decided: the clause added when an argument is created is issued in a form the rule does not follow (a wrapper of add_clause / a predicate on the semantics)", b.loc())
        else:
            r.check(ok and len(adds) == 1, b.id, "no-a-implies-not-Pa", "creating an argument under CO|PR adds (-a or -P_a) on its two fresh variables", "new_argument does not add the clause -a or -P_a on the two freshly allocated variables under CO|PR", b.loc())


def bundled_tables(prog, adt):
    """per-argument tables kept as one vector of a private struct (`Vec<ArgVars>` with `Option<usize>` fields): [(field, struct path, [sub-fields])]"""
    out = []
    for v in adt["variants"]:
        for f in v["fields"]:
            m = re.match(r"^alloc::vec::Vec<([A-Za-z_0-9:]+)>$", f["ty"].replace(" ", ""))
            if not m:
                continue
            sa_ = prog.adt(m.group(1))
            if not sa_ or len(sa_["variants"]) != 1:
                continue
            subs = [g["name"] for g in sa_["variants"][0]["fields"] if g["ty"].replace(" ", "") == "core::option::Option<usize>"]
            if subs:
                out.append((f["name"], m.group(1), subs))
    return out


def adds_clauses_of_param(prog, t):
    """k when the function adds, in a loop, every clause of its parameter k (a `Vec<Vec<Literal>>`): `fn add_clauses(&self, clauses)`"""
    for s2 in t.calls():
        if not callee_matches(callee_of(s2), r"sat_solver::SatSolver::add_clause$") or not t.in_loop(s2.bb):
            continue
        for o in origins(t, s2.node["args"][1], transparent=()):
            if o.kind == "call" and callee_decl(o.data) == "core::iter::traits::iterator::Iterator::next":
                for oo in origins(t, o.site.node["args"][0], transparent=("core::iter::traits::collect::IntoIterator::into_iter", "core::slice::iter", "core::slice::<impl [T]>::iter", "core::ops::deref::Deref::deref")):
                    if oo.kind == "param" and not oo.fields and "Vec<alloc::vec::Vec<sat::sat_solver::Literal>>" in t.local_ty(oo.data).replace(" ", ""):
                        return oo.data
    return None


def clauses_of_vec_literal(prog, body, op):
    """the operands holding the clauses of a `vec![cl1, cl2, ..]` handed over as a `Vec<Vec<Literal>>`; None when it is not such a literal"""
    out = None
    for o in origins(body, op, transparent=()):
        if o.kind == "call" and callee_decl(o.data) == "alloc::boxed::box_assume_init_into_vec_unsafe":
            for oo in origins(body, o.site.node["args"][0], transparent=()):
                if oo.kind == "call" and oo.site is not None:
                    for st in body.ptr_store_defs.get(oo.site.node["dst"]["l"], []):
                        rv = st.node["rv"]
                        if rv["k"] == "aggregate" and rv["agg"]["kind"] == "array":
                            out = (out or []) + list(rv["ops"])
        else:
            return None
    return out


def rule_dynamic_variable_registration(ctx):
    """C08: what both dynamic encoders do when an argument is created or removed"""
    prog = ctx.prog
    from .. import tags

    r = ctx.rule(
        "dynamic-variable-registration",
        "both dynamic encoders: (a) the attacker ids handed to the clause functions are *all* attackers (no filter between `iter_attacks_to` and "
        "the id list - a self-attack is an attack); (b) removing an argument adds exactly the positive unit clause of its variable (the variable "
        "is fixed true so that the clauses still mentioning it are satisfied); (c) wherever an argument's variable is entered in the id->variable "
        "table, the variable->argument table is told on the same path (its kind `Argument(id)`), whatever the semantics: models are decoded "
        "through that table",
    )
    cx = cnf.Ctx(prog)
    encs = [p for p, a in prog.adts.items() if p.startswith("dynamics::") and p.endswith("::DynamicConstraintsEncoder")]
    if not r.require_anchor(len(encs) >= 2, "the two DynamicConstraintsEncoder types"):
        return
    # (a)
    n_a = 0
    for b in prog.lib_bodies():
        if b.kind == "closure" or not b.impl or b.impl.get("self_adt") not in encs:
            continue
        for s in b.calls():
            if not callee_matches(callee_of(s), r"AAFramework::iter_attacks_to$"):
                continue
            # consumers of this iterator that end in a collected id list
            for s2 in b.calls():
                if callee_decl(callee_of(s2)) != "core::iter::traits::iterator::Iterator::collect":
                    continue
                seen, calls, _ = data_deps(b, s2.node["args"][0])
                if not any((c.bb, c.si) == (s.bb, s.si) for c in calls):
                    continue
                n_a += 1
                filt = [c for c in calls if callee_decl(callee_of(c)) in tags.FILTERING]
                r.check(not filt, "%s|attackers" % b.id, "filtered:%s" % sorted({callee_decl(callee_of(c)).rsplit("::", 1)[-1] for c in filt}), "the attacker list is the whole `iter_attacks_to` iteration", "the attackers of the re-encoded argument are filtered (%s): an attack that is dropped here is missing from the clauses" % sorted({callee_decl(callee_of(c)).rsplit("::", 1)[-1] for c in filt}), s2.loc())
            # ... or a loop over the iterator that pushes one id per attack
            loops = b.loops()
            for nx in b.calls():
                if callee_decl(callee_of(nx)) != "core::iter::traits::iterator::Iterator::next":
                    continue
                seen, calls, _ = data_deps(b, nx.node["args"][0])
                if not any((c.bb, c.si) == (s.bb, s.si) for c in calls):
                    continue
                ls = [(h, bl) for h, bl in loops if nx.bb in bl]
                if not ls:
                    continue
                h, bl = min(ls, key=lambda x: len(x[1]))
                pushes = [ps for ps in b.calls() if ps.bb in bl and callee_decl(callee_of(ps)) == "alloc::vec::Vec::push" and "usize" in str(callee_of(ps).get("substs"))]
                if not pushes:
                    continue
                n_a += 1
                filt = [c for c in calls if callee_decl(callee_of(c)) in tags.FILTERING]
                ps = pushes[0]
                seen_b, st, skip = {h}, [h], False
                while st:
                    x = st.pop()
                    for sc in b.succ[x]:
                        if sc == h:
                            skip = True
                        elif sc in bl and sc != ps.bb and sc not in seen_b and not b.blocks[sc]["cleanup"]:
                            seen_b.add(sc)
                            st.append(sc)
                r.check(not filt and not skip, "%s|attackers" % b.id, "filtered:%s" % (sorted({callee_decl(callee_of(c)).rsplit("::", 1)[-1] for c in filt}) or "loop-skip"), "the attacker list gets one id per element of the whole `iter_attacks_to` iteration", "the attackers of the re-encoded argument are filtered (an iteration of the loop can go round without pushing an id, or the iterator is filtered): an attack that is dropped here is missing from the clauses", ps.loc())
    r.floor(n_a, 1, "attacker lists collected in the dynamic encoders")
    # (b)
    n_b = 0
    for p in sorted(encs):
        rm = prog.lib(p + "::remove_argument")
        if not r.require_anchor(rm, p + "::remove_argument"):
            continue
        adds = [s for s in rm.calls() if callee_matches(callee_of(s), r"sat_solver::SatSolver::add_clause$")]
        n_b += 1
        shapes = []
        for s in adds:
            els = cnf.clause_elements(cx, rm, s.node["args"][1])
            shapes.append(sorted("%s%s" % (sg, kd[0]) for sg, kd, nd, m in els))
        # ... or through a helper of the encoder that adds the unit clause of a literal it is given
        for s in rm.calls():
            c = callee_of(s)
            t = prog.body_for_callee(c, rm) if c and c.get("decl") != "<indirect>" else None
            if t is None or t.kind == "closure" or not t.impl or t.impl.get("self_adt") != p:
                continue
            kk = adds_clauses_of_param(prog, t)
            if kk is not None and kk - 1 < len(s.node["args"]):
                cls = clauses_of_vec_literal(prog, rm, s.node["args"][kk - 1])
                if cls is None:
                    shapes.append(["+unk"])
                else:
                    for co in cls:
                        els2 = cnf.clause_elements(cx, rm, co)
                        shapes.append(sorted("%s%s" % (sg, kd[0]) for sg, kd, nd, m in els2))
                adds.append(s)
                continue
            for s2 in t.calls():
                if not callee_matches(callee_of(s2), r"sat_solver::SatSolver::add_clause$"):
                    continue
                els = cnf.clause_elements(cx, t, s2.node["args"][1])
                if len(els) == 1 and els[0][1][0] == "cparam":
                    # a helper that adds the clause it is given (`fn add_clause(&self, cl)`): the clause is what the caller hands over
                    k = els[0][1][1][1]
                    if k - 1 < len(s.node["args"]):
                        els2 = cnf.clause_elements(cx, rm, s.node["args"][k - 1])
                        shapes.append(sorted("%s%s" % (sg, kd[0]) for sg, kd, nd, m in els2))
                        adds.append(s)
                    continue
                if len(els) == 1 and els[0][1][0] == "lparam":
                    k = els[0][1][1][1]
                    if k - 1 < len(s.node["args"]):
                        lits = cnf.lits_of_literal(cx, rm, s.node["args"][k - 1])
                        sign = els[0][0]
                        shapes.append(sorted("%s%s" % (sg if sign == "+" else cnf._flip(sg), kd[0]) for sg, kd, nd in lits))
                        adds.append(s)
        if shapes == [["+unk"]]:
            r.ok(rm.id, "NOT decided: the removal adds a positive unit clause of a variable whose source is not followed to the id->variable table", (adds[0].loc() if adds else rm.loc()))
            continue
        r.check(shapes == [["+table"]], rm.id, "retirement-clause:%s" % shapes, "removal adds the positive unit clause of the removed argument's variable", "remove_argument adds %s instead of the positive unit clause of the removed argument's variable" % shapes, (adds[0].loc() if adds else rm.loc()))
    # (c)
    n_c = 0
    for b in prog.lib_bodies():
        fnb = prog.enclosing_fn(b)
        if not fnb.impl or fnb.impl.get("self_adt") not in encs:
            continue
        for s in b.calls():
            if callee_decl(callee_of(s)) != "alloc::vec::Vec::push":
                continue
            bundles = [bp for _, bp, _ in bundled_tables(prog, prog.adt(fnb.impl.get("self_adt")))]
            if "Option<usize>" not in str(callee_of(s).get("substs")) and not any(bp in str(callee_of(s).get("substs")) for bp in bundles):
                continue
            # pushes Some(var) on the id -> variable table (a field of self), or a bundle of per-argument variables holding Some(var)
            is_some = any(o.kind == "agg" and o.data.get("variant") == "Some" for o in origins(b, s.node["args"][1], transparent=()))
            for o in origins(b, s.node["args"][1], transparent=()):
                if o.kind == "agg" and o.data.get("path") in bundles:
                    is_some = is_some or any(oo.kind == "agg" and oo.data.get("variant") == "Some" for x in o.site.node["rv"]["ops"] for oo in origins(b, x, transparent=()))
            if not is_some:
                continue
            n_c += 1
            kinds = []
            for st in b.sites():
                nd = st.node
                if st.si is not None and nd["k"] == "assign" and nd["rv"]["k"] == "aggregate" and nd["rv"]["agg"].get("variant") == "Argument" and "SolverVarType" in (nd["rv"]["agg"].get("path") or ""):
                    kinds.append(st)
            paired = [k for k in kinds if (b.dominates(k, s) and b.postdominates(s, k)) or (b.dominates(s, k) and b.postdominates(k, s))]
            r.check(bool(paired), "%s|table-entry" % b.id, "kind-not-registered", "the variable's kind `Argument(id)` is registered on the same path as the id->variable entry", "an argument's variable is entered in the id->variable table but its kind `Argument(id)` is registered only on some paths: models of the other paths are decoded without this argument", s.loc())
    r.floor(n_c, 2, "id->variable table entries made for new arguments")


def rule_removal_cleans_the_tables(ctx):
    """C08: what both dynamic encoders forget when an argument is removed"""
    prog = ctx.prog
    from ..prov import prov, show, subterms
    from .equiv import indexed_stores
    from .grounded import _is_call

    r = ctx.rule(
        "removal-cleans-the-tables",
        "both dynamic encoders, on the removal of an argument: the variable->argument table entry of its variable is overwritten with a kind "
        "that is no argument, on the paths that add the retirement clause (models are decoded through that table); its entry in every "
        "per-argument table of the encoder (id->variable, id->selector) is cleared; and a selector recorded for it is handed to the function "
        "that retires selectors (its constraints would otherwise stay switched on for a variable that is now fixed)",
    )
    encs = [p for p, a in prog.adts.items() if p.startswith("dynamics::") and p.endswith("::DynamicConstraintsEncoder")]
    if not r.require_anchor(len(encs) >= 2, "the two DynamicConstraintsEncoder types"):
        return
    n = 0
    for p in sorted(encs):
        adt = prog.adt(p)
        rm = prog.lib(p + "::remove_argument")
        if not r.require_anchor(rm, p + "::remove_argument"):
            continue
        bodies = list(prog.with_closures(rm))
        # the private helpers of the encoder the removal goes through (`retire_solver_var(var, lit)`, ..)
        for x in prog.reachable_from([rm], virtual_dispatch=False).values():
            if x.kind != "closure" and x is not rm and x.impl and x.impl.get("self_adt") == p and not x.impl.get("trait"):
                for y in prog.with_closures(x):
                    if y not in bodies:
                        bodies.append(y)
        opt_tables = [f["name"] for v in adt["variants"] for f in v["fields"] if f["ty"].replace(" ", "") == "alloc::vec::Vec<core::option::Option<usize>>"]
        kind_tables = [f["name"] for v in adt["variants"] for f in v["fields"] if re.search(r"Vec<.*SolverVarType>", f["ty"])]
        bt = bundled_tables(prog, adt)
        if not opt_tables and bt:
            n += 1 + sum(len(x[2]) for x in bt)
            r.ok(rm.id + "|tables", "NOT decided: the per-argument tables of %s are kept as one vector of %s (%s): entries that are fields of an indexed element are not followed" % (p.rsplit("::", 1)[-1], bt[0][1].rsplit("::", 1)[-1], ", ".join(bt[0][2])), rm.loc())
            continue
        stores = [(y, st) for y in bodies for st in indexed_stores(prog, y)]

        def field_of(y, op):
            out = set()
            for e in prov(prog, y, op):
                if e[0] == "param" and e[2] == 1 and e[3]:
                    out.add(e[3][0])
            return out

        from ..prov import expand_params

        def trees_of(y, op):
            """the trees of an operand, with the parameters of the encoder's private helpers replaced by what their callers pass"""
            out = set()
            for e in prov(prog, y, op):
                out |= expand_params(prog, e, 2) if prog.enclosing_fn(y) is not rm else {e}
            return out

        def _is_removed_arg(t):
            """the argument looked up by the label handed to remove_argument (through `?`, unwrap, with_context)"""
            for _ in range(6):
                if not isinstance(t, tuple):
                    return False
                if _is_call(t, r"get_argument$|get_label$"):
                    return True
                if t[0] == "field" and t[2] == "0":
                    t = t[1]
                elif t[0] == "call" and re.search(r"Try::branch$|with_context$|::context$|unwrap$|expect$", t[1]) and t[2]:
                    t = t[2][0]
                else:
                    return False
            return False

        def is_removed_id(e):
            return _is_call(e, r"Label::id$", 1) and _is_removed_arg(e[2][0])

        def by_removed_id(y, op):
            return any(is_removed_id(e) for e in trees_of(y, op))

        # clearing an entry: `table[i] = None` or `table[i].take()`
        class _Clear:
            def __init__(self, y, site, recv, idx):
                self.y, self.site, self.recv, self.idx = y, site, recv, idx

            def loc(self):
                return self.site.loc()

        clears = []
        for y in bodies:
            for st in indexed_stores(prog, y):
                if ("agg", "None", ()) in st.vals:
                    clears.append(_Clear(y, st.site, st.recv, st.idx))
            for s in y.calls():
                if callee_decl(callee_of(s)) in ("core::option::Option::take", "core::mem::take") and s.node["args"]:
                    # the entry taken: `table[i]`, or the slot a checked `table.get_mut(i)` handed out
                    from ..core import data_deps as _dd

                    _, dcalls, _ = _dd(y, s.node["args"][0])
                    for dc in dcalls:
                        if re.search(r"IndexMut::index_mut$|slice::.*get_mut$|Vec.*::get_mut$", callee_decl(callee_of(dc))) and len(dc.node["args"]) == 2:
                            clears.append(_Clear(y, s, dc.node["args"][0], dc.node["args"][1]))

        # the id->variable table: the one the encoder's literal of an argument is read from
        var_tables = set()
        for b0 in prog.lib_bodies():
            if b0.kind != "closure" and b0.impl and b0.impl.get("self_adt") == p and b0.ret_ty.endswith("sat::sat_solver::Literal"):
                for e in prov(prog, b0, {"l": 0, "p": []}):
                    for t in subterms(e):
                        if _is_call(t, r"Index::index$", 2) and t[2][0][0] == "param" and t[2][0][3] and t[2][0][3][-1] in opt_tables:
                            var_tables.add(t[2][0][3][-1])
        var_tables = var_tables or set(opt_tables)
        # (1) the kind table
        anchor = rm.id + "|kind"
        n += 1
        ks = [(y, st) for y, st in stores if field_of(y, st.recv) & set(kind_tables)]
        resets = [(y, st) for y, st in ks if any(v[0] == "agg" and v[1] not in ("Argument",) for v in st.vals) and not any(v[0] == "agg" and v[1] == "Argument" for v in st.vals)]
        adds = [s for y in bodies for s in y.calls() if callee_matches(callee_of(s), r"sat_solver::SatSolver::add_clause$") and y is rm]
        if not kind_tables:
            r.ok(anchor, "NOT decided: no variable->kind table among the fields of %s" % p.rsplit("::", 1)[-1], rm.loc())
        elif not resets:
            r.violation(anchor, "kind-not-reset", "remove_argument leaves the removed variable registered as an argument in the variable->argument table: a model is decoded with an argument that no longer exists", rm.loc())
        else:
            def _vt(y, st):
                return any(_is_call(t, r"Index::index$|IndexMut::index_mut$|slice::.*get(_mut)?$|Vec.*::get(_mut)?$", 2) and t[2][0][0] == "param" and t[2][0][3] and t[2][0][3][-1] in var_tables and is_removed_id(t[2][1]) for e in trees_of(y, st.idx) for t in subterms(e))

            resets.sort(key=lambda ys: not _vt(*ys))
            y, st = resets[0]
            via_table = any(_is_call(t, r"Index::index$|IndexMut::index_mut$|slice::.*get(_mut)?$|Vec.*::get(_mut)?$", 2) and t[2][0][0] == "param" and t[2][0][3] and t[2][0][3][-1] in var_tables and is_removed_id(t[2][1]) for e in trees_of(y, st.idx) for t in subterms(e))
            r.check(via_table, anchor, "kind-reset-index", "the entry overwritten is that of the removed argument's variable", "the variable->argument entry overwritten on removal is not the one of the removed argument's variable (%s)" % "; ".join(show(e)[:60] for e in prov(prog, y, st.idx)), st.loc())
            if adds and y is rm:
                a = adds[0]
                paired = (rm.dominates(st.site, a) and rm.postdominates(a, st.site)) or (rm.dominates(a, st.site) and rm.postdominates(st.site, a))
                r.check(paired, anchor, "kind-reset-not-paired", "on the same paths as the retirement clause", "the variable is fixed by the retirement clause on paths where its variable->argument entry is not reset (or the other way round)", st.loc())
        # (2) per-argument Option tables: cleared at the removed id
        pertables = set()
        for b in prog.lib_bodies():
            fn = prog.enclosing_fn(b)
            if not fn.impl or fn.impl.get("self_adt") != p:
                continue
            for st in indexed_stores(prog, b):
                fs = field_of(b, st.recv) & set(opt_tables)
                if fs and any(v[0] == "agg" and v[1] == "Some" for v in st.vals):
                    pertables |= fs
            for s in b.calls():
                if callee_decl(callee_of(s)) == "alloc::vec::Vec::push" and field_of(b, s.node["args"][0]) & set(opt_tables):
                    pertables |= field_of(b, s.node["args"][0]) & set(opt_tables)
        for t in sorted(pertables):
            n += 1
            anchor = "%s|table:%s" % (rm.id, t)
            cl = [(c.y, c) for c in clears if t in field_of(c.y, c.recv)]
            cl.sort(key=lambda yc: not by_removed_id(yc[0], yc[1].idx))
            if not cl:
                r.violation(anchor, "entry-not-cleared", "remove_argument does not clear the removed argument's entry of `%s`: the entry outlives the argument (and is found again when the id or the label is looked at later)" % t, rm.loc())
                continue
            y, st = cl[0]
            r.check(by_removed_id(y, st.idx), anchor, "cleared-at-another-id", "cleared at the id of the removed argument", "`%s` is cleared at %s, not at the id of the removed argument" % (t, "; ".join(show(e)[:60] for e in prov(prog, y, st.idx))), st.loc())
        # (3) a recorded selector is retired
        retire = None
        lit_vecs = [f["name"] for v in adt["variants"] for f in v["fields"] if f["ty"] == "alloc::vec::Vec<sat::sat_solver::Literal>"]
        for b in prog.lib_bodies():
            if b.kind != "closure" and b.impl and b.impl.get("self_adt") == p and lit_vecs:
                for s in b.calls():
                    if callee_decl(callee_of(s)) in ("alloc::vec::Vec::swap_remove", "alloc::vec::Vec::remove", "alloc::vec::Vec::retain") and field_of(b, s.node["args"][0]) & set(lit_vecs):
                        retire = b
        sel_tables = sorted(pertables - {t for y, st in resets for e in prov(prog, y, st.idx) for z in subterms(e) if _is_call(z, r"Index::index$", 2) and z[2][0][0] == "param" and z[2][0][3] for t in [z[2][0][3][0]]})
        if retire is not None and sel_tables:
            n += 1
            anchor = rm.id + "|selector"
            calls = [(y, s) for y in bodies for s in y.calls() if prog.body_for_callee(callee_of(s), y) is retire]
            good = False
            for y, s in calls:
                for a in s.node["args"][1:]:
                    for e in prov(prog, y, a):
                        if any(_is_call(z, r"Index::index$", 2) and z[2][0][0] == "param" and z[2][0][3] and z[2][0][3][0] in sel_tables and any(_is_call(q, r"Label::id$") for q in subterms(z[2][1])) for z in subterms(e)):
                            good = True
            # ... or through the re-encoding helpers, which retire what is recorded before they record anew
            via = [(y, s) for y in bodies for s in y.calls() if (prog.body_for_callee(callee_of(s), y) is not None and prog.body_for_callee(callee_of(s), y).impl and prog.body_for_callee(callee_of(s), y).impl.get("self_adt") == p and retire in prog.reachable_from([prog.body_for_callee(callee_of(s), y)], virtual_dispatch=False).values() and any(by_removed_id(y, a) for a in s.node["args"][1:]))]
            if good:
                r.ok(anchor, "the selector recorded for the removed argument is retired", calls[0][1].loc())
            elif via:
                r.ok(anchor, "NOT decided: the removed argument's id is handed to %s, which can reach the retirement" % via[0][1].node["callee"]["decl"].rsplit("::", 1)[-1], via[0][1].loc())
            else:
                r.violation(anchor, "selector-not-retired", "remove_argument does not retire the selector recorded for the removed argument (`%s`): the constraints it guards stay among the active assumptions although the argument's variable is now fixed" % "/".join(sel_tables), rm.loc())
    r.floor(n, 5, "tables judged on the removal of an argument")
