"""C08 (incremental clauses): the selector-based dynamic encoder issues, for the re-encoded argument, the
clause shapes of the static aux-var complete / stable encodings, each guarded by the fresh selector."""
import re

from ..core import callee_of, callee_decl, callee_matches, callee_name, strip_generics, op_place, op_const, origins, data_deps, switch_sites
from ..flow import conditions, switch_subject
from .. import cnf

ENC = "dynamics::dynamic_constraints_encoder::DynamicConstraintsEncoder"

# reference shapes: S = the selector handed over by the re-encoding function, T = variable of an argument, D = its
# attacker-disjunction variable (T + 1), s = the re-encoded argument, a = one of its attackers, * = once per attacker
COMPLETE_REF = {
    "loop:[+Da -S -Ts]": "a -> P_b for every attacker b",
    "arg:[+Ts -Da* -S]": "(AND_b P_b) -> a",
    "loop:[+Ds -S -Ta]": "b -> P_a for every attacker b",
    "arg:[+Ta* -Ds -S]": "P_a -> OR_b b",
}
STABLE_REF = {
    "loop:[-S -Ta -Ts]": "a -> not b for every attacker b",
    "arg:[+Ta* +Ts -S]": "a or OR_b b",
}


def _norm(t, ttable, self_param, att_param, sel_param):
    lits = []
    for s, k, n, m in t.lits:
        role = "?"
        if k[0] == "table" and k[1] == ttable:
            role = "T"
        elif k[0] == "plus1" and k[1][0] == "table" and k[1][1] == ttable:
            role = "D"
        elif k[0] == "lparam" and k[1] == ("param", sel_param):
            role = "S"
        node = ""
        if role in ("T", "D"):
            node = "s" if n == ("idparam", self_param) else ("a" if n == ("idelem", att_param) else "?")
        lits.append("%s%s%s%s" % (s, role, node, "*" if m else ""))
    return "%s:[%s]" % (t.per if t.per in ("arg", "loop") else "?", " ".join(sorted(lits)))


def rule_dynamic_clause_templates(ctx):
    prog = ctx.prog
    r = ctx.rule(
        "dynamic-clause-templates",
        "selector-based dynamic encoder: re-encoding an argument a with attackers b1..bk under the fresh selector s issues exactly the clause shapes "
        "of the static encodings guarded by -s: complete/preferred  a->P_b, (AND P_b)->a, b->P_a, P_a->OR b  (P = variable + 1, with a->-P_a added "
        "when the argument is created); stable  a->-b, a or OR b; the attackers are those of `iter_attacks_to(a)`; CO|PR and ST select these two sets",
    )
    cx = cnf.Ctx(prog)
    a2l = [b for b in prog.lib_bodies() if b.kind != "closure" and strip_generics(b.path) == ENC + "::arg_to_lit"]
    if not r.require_anchor(a2l, ENC + "::arg_to_lit"):
        return
    # the id -> variable table: the one arg_to_lit indexes
    ttable = None
    for s in a2l[0].calls():
        if callee_decl(callee_of(s)) == "core::ops::index::Index::index":
            ttable = cnf._table_key(cx, a2l[0], s.node["args"][0])
    if not r.require_anchor(ttable and ttable != "?", "id-indexed variable table used by arg_to_lit"):
        return
    # clause-issuing functions taking (id, &[id], selector literal)
    fns = []
    for b in prog.lib_bodies():
        if b.kind == "closure" or not b.impl or b.impl.get("self_adt") != ENC:
            continue
        tys = [b.local_ty(i) for i in range(1, b.n_args + 1)]
        if "usize" in tys and any(re.match(r"^&\[usize\]$", t) for t in tys) and any(t.endswith("sat::sat_solver::Literal") for t in tys) and cnf._adds_clauses(cx, b):
            fns.append(b)
    if not r.require_anchor(len(fns) >= 2, "functions issuing the guarded clauses of one argument (id, attacker ids, selector)"):
        return
    got = {}
    for b in fns:
        tys = [b.local_ty(i) for i in range(1, b.n_args + 1)]
        sp = tys.index("usize") + 1
        ap = [i + 1 for i, t in enumerate(tys) if re.match(r"^&\[usize\]$", t)][0]
        lp = [i + 1 for i, t in enumerate(tys) if t.endswith("sat::sat_solver::Literal")][0]
        ts = {}
        for t in cnf.local_clause_sites(cx, b):
            ts.setdefault(_norm(t, ttable, sp, ap, lp), t)
        got[b.id] = (b, ts)
    # which function serves which semantics: the dispatch in the re-encoding function
    sem = prog.adt("aa::problem::Semantics")
    idx = {str(v["idx"]): v["name"] for v in sem["variants"]} if sem else {}
    disp = {}
    reenc = None
    for b in prog.lib_bodies():
        if b.kind == "closure" or not b.impl or b.impl.get("self_adt") != ENC:
            continue
        targets = [s for s in b.calls() if prog.body_for_callee(callee_of(s), b) is not None and prog.body_for_callee(callee_of(s), b).id in got]
        if len({prog.body_for_callee(callee_of(s), b).id for s in targets}) >= 2:
            reenc = b
            for s in targets:
                t = prog.body_for_callee(callee_of(s), b)
                sems = None
                for c in conditions(b, s.bb):
                    if c.is_discr and "aa::problem::Semantics" in b.local_ty(c.place["l"]) or (c.is_discr and c.place["p"] and "Semantics" in str(c.place["p"][-1])):
                        vs = {idx.get(v, v) for v in c.values}
                        if c.negated:
                            vs = set(idx.values()) - vs
                        sems = vs if sems is None else sems & vs
                disp.setdefault(t.id, set()).update(sems or {"?"})
    if not r.require_anchor(reenc is not None, "re-encoding function dispatching on the semantics"):
        return
    n = 0
    for fid, (b, ts) in sorted(got.items()):
        sems = disp.get(fid, set())
        if sems == {"CO", "PR"}:
            want, name = COMPLETE_REF, "complete/preferred"
        elif sems == {"ST"}:
            want, name = STABLE_REF, "stable"
        else:
            r.violation(b.id, "dispatch:%s" % sorted(sems), "the clause-issuing function %s is selected for semantics %s (expected CO|PR or ST)" % (b.path, sorted(sems)), b.loc())
            continue
        n += 1
        missing = sorted(set(want) - set(ts))
        extra = sorted(set(ts) - set(want))
        r.check(
            not missing and not extra,
            b.id,
            "missing=%s extra=%s" % (missing, extra),
            "%d guarded clause shapes = the %s encoding" % (len(ts), name),
            "the guarded clauses of the %s re-encoding differ from the reference: missing %s, unexpected %s" % (name, [(m, want[m]) for m in missing], [(e, str(ts[e].site.loc())) for e in extra]),
            (ts[extra[0]].site.loc() if extra else b.loc()),
        )
    r.floor(n, 2, "clause-issuing functions compared with their reference")
    # the attacker ids handed over are those of iter_attacks_to(argument with the re-encoded id)
    for s in reenc.calls():
        t = prog.body_for_callee(callee_of(s), reenc)
        if t is None or t.id not in got:
            continue
        tys = [t.local_ty(i) for i in range(1, t.n_args + 1)]
        ap = [i for i, ty in enumerate(tys) if re.match(r"^&\[usize\]$", ty)][0]
        sp = tys.index("usize")
        _, calls, _ = data_deps(reenc, s.node["args"][ap])
        it = [c for c in calls if callee_matches(callee_of(c), r"AAFramework::iter_attacks_to$")]
        ok = False
        for c in it:
            # the argument whose attackers are listed has the id that is passed as the re-encoded id
            l1, c1, _ = data_deps(reenc, c.node["args"][1])
            l2, _, _ = data_deps(reenc, s.node["args"][sp])
            byid = [x for x in c1 if callee_matches(callee_of(x), r"ArgumentSet::get_argument_by_id$")]
            if byid and (l2 & data_deps(reenc, byid[0].node["args"][1])[0]):
                ok = True
        attacker = False
        for c in calls:
            if callee_decl(callee_of(c)) == "core::iter::traits::iterator::Iterator::map":
                for fa in callee_of(c).get("fn_args") or []:
                    clo = prog.lib(fa)
                    if clo is not None and any(callee_decl(callee_of(x)) == "aa::aa_framework::Attack::attacker" for x in clo.calls()) and not any(callee_decl(callee_of(x)) == "aa::aa_framework::Attack::attacked" for x in clo.calls()):
                        attacker = True
        r.check(ok and attacker, "%s|attackers@%s" % (reenc.id, strip_generics(t.path).rsplit("::", 1)[-1]), "attacker-ids", "attacker ids = ids of the attackers in iter_attacks_to(re-encoded argument)", "the ids handed to %s are not the attackers of the re-encoded argument" % t.path, s.loc())
    # a -> -P_a when an argument is created under CO|PR
    newarg = [b for b in prog.lib_bodies() if b.kind != "closure" and strip_generics(b.path) == ENC + "::new_argument"]
    if r.require_anchor(newarg, ENC + "::new_argument"):
        b = newarg[0]
        adds = [s for s in b.calls() if callee_matches(callee_of(s), r"sat_solver::SatSolver::add_clause$")]
        ok = False
        for s in adds:
            els = cnf.clause_elements(cx, b, s.node["args"][1])
            # two negative literals built from two different allocation calls
            srcs = set()
            for st in b.ptr_store_defs.get(-1, []):
                pass
            neg = [e for e in els if e[0] == "-"]
            _, calls, _ = data_deps(b, s.node["args"][1])
            allocs = {(c.bb) for c in calls if (callee_of(c) or {}).get("decl", "").startswith("dynamics::") and prog.body_for_callee(callee_of(c), b) is not None and prog.body_for_callee(callee_of(c), b).ret_ty == "usize"}
            sems = None
            for c in conditions(b, s.bb):
                if c.is_discr and ("Semantics" in b.local_ty(c.place["l"]) or c.place["p"]):
                    vs = {idx.get(v, v) for v in c.values}
                    if c.negated:
                        vs = set(idx.values()) - vs
                    sems = vs if sems is None else sems & vs
            if len(els) >= 1 and all(e[0] == "-" for e in els) and len(allocs) == 2 and sems == {"CO", "PR"}:
                ok = True
        r.check(ok and len(adds) == 1, b.id, "no-a-implies-not-Pa", "creating an argument under CO|PR adds (-a or -P_a) on its two fresh variables", "new_argument does not add the clause -a or -P_a on the two freshly allocated variables under CO|PR", b.loc())
