"""C06 - answers do not depend on encoding, SAT backend, certificate flag or query order
(immutability, statelessness, backend abstraction clauses)"""
from . import statics, satlayer, progress, layout, cli, accept


def run(ctx):
    from . import lazyvars as _lazyvars
    _lazyvars.rule_lazy_variable_counter(ctx)
    _lazyvars.rule_range_offset(ctx)
    statics.rule_framework_immutable(ctx)
    statics.rule_solvers_stateless(ctx)
    statics.rule_encoder_state_reset(ctx)
    statics.rule_backend_abstraction(ctx)
    satlayer.rule_assumptions_transient(ctx)
    progress.rule_local_selector_retired(ctx)
    progress.rule_selector_is_next_variable(ctx)
    # per configuration axis, a structural necessary condition of `same status`:
    # encoding: the three encoders build the reference clause shapes over disjoint variable families, and the CLI picks the encoder of the
    # base semantics for every --encoding value
    layout.rule_variable_layout(ctx)
    layout.rule_clause_templates(ctx)
    cli.rule_encoder_selection(ctx)
    # certificate flag: the shortcut taken only without a certificate quantifies over the listed arguments like the full search
    accept.rule_list_quantifiers(ctx)
    accept.rule_status_certificate_pairing(ctx)
    # back end: the searches constrain the solver only through the split of the current set and the selector (a model-dependent extra
    # assumption makes the result depend on which model the back end returns first)
    progress.rule_blocking(ctx)
    ctx.assume("Rust's borrow checker: a `&AAFramework<T>` without interior mutability cannot be modified (witness W1 in the thorough tier)")
    ctx.assume("rustc's type information for field types (deep walk through generic arguments and std containers)")
    return (
        "F10 type-level facts (framework held by shared reference, no cell/atomic/dyn in the store types by a deep type walk, no unsafe), F1 census: "
        "no write to a static solver's fields outside constructors and every SAT solver object comes from the factory call of the current query, "
        "F4 re-initialisation of the hybrid encoder's cells before any use, who-may-call on back-end specific methods; plus, per configuration axis, the structural rules of C10 (layout, clause templates), C05 (encoder selection), C07 (list quantifiers) and C18 (blocking clauses, retired selectors). Decides that querying never "
        "modifies the framework and that static solvers are stateless across queries; equality of statuses across encodings/back ends is a value clause and is not decided."
    )


def thorough(ctx):
    from .. import witness

    return witness.run(ctx, ["W1"])
