"""C06 - answers do not depend on encoding, SAT backend, certificate flag or query order
(immutability, statelessness, backend abstraction clauses)"""
from . import statics, satlayer


def run(ctx):
    statics.rule_framework_immutable(ctx)
    statics.rule_solvers_stateless(ctx)
    statics.rule_encoder_state_reset(ctx)
    statics.rule_backend_abstraction(ctx)
    satlayer.rule_assumptions_transient(ctx)
    ctx.assume("Rust's borrow checker: a `&AAFramework<T>` without interior mutability cannot be modified (witness W1 in the thorough tier)")
    ctx.assume("rustc's type information for field types (deep walk through generic arguments and std containers)")
    return (
        "F10 type-level facts (framework held by shared reference, no cell/atomic/dyn in the store types by a deep type walk, no unsafe), F1 census: "
        "no write to a static solver's fields outside constructors and every SAT solver object comes from the factory call of the current query, "
        "F4 re-initialisation of the hybrid encoder's cells before any use, who-may-call on back-end specific methods. Decides that querying never "
        "modifies the framework and that static solvers are stateless across queries; equality of statuses across encodings/back ends is a value clause and is not decided."
    )


def thorough(ctx):
    from .. import witness

    return witness.run(ctx, ["W1"])
