"""C11 - statuses are invariant under presentation and local to components (renaming and mapping clauses)"""
from . import grounded, invariance, provenance, readers, accept, components


def run(ctx):
    invariance.rule_parametricity(ctx)
    invariance.rule_component_extraction(ctx)
    invariance.rule_component_traversal(ctx)
    components.rule_component_cursor(ctx)
    from . import layout
    layout.rule_selector_above_encoding(ctx)  # a search never runs on a solver that was not given its component's encoding
    provenance.rule_argument_provenance(ctx)
    provenance.rule_literal_provenance(ctx)
    invariance.rule_attack_multiplicity(ctx)
    provenance.rule_fresh_solver_per_encoding(ctx)
    accept.rule_completion_semantics(ctx)
    readers.rule_declaration_order(ctx)
    grounded.rule_grounded_propagation(ctx)
    ctx.assume("parametricity: code generic in T with only LabelType's bounds, no reflection and no iteration of label-keyed maps cannot branch on what a label is, only on equality of labels")
    ctx.assume("rustc's generics/predicates tables and MIR")
    return (
        "Bounds census over every generic item of solvers/encodings/dynamics/utils, who-may-call on reflective / ordering / map-iteration "
        "operations, sink analysis of formatted labels (F6), F5/F2 on the component extraction (all attacks, attacker-membership filter only, "
        "(attacker, attacked) order, compact ids in vector order, undirected search), label-based map-back, declaration order in the readers. "
        "Decides renaming invariance and the mapping clauses; invariance under reordering / duplication / disjoint union and the cross-semantics "
        "consistency relations are value clauses and are NOT decided."
    )
