"""C19 (mapping clause only): the two mappings of the equivalence reduction are total and inverse to each other at the
level of classes.  Decided on provenance trees (sa/prov.py): which value is stored under which index, and which table the
accessors read with which key - "the writer's and the readers' tables agree"."""
import re

from ..core import callee_of, callee_decl, callee_matches, op_place, op_const, origins
from ..flow import conditions
from ..prov import prov, leaves, subterms, show, roots

TYPE = "utils::equivalency_computer::EquivalencyComputer"


def _is_param(e, fn, k=None, field=None):
    return isinstance(e, tuple) and e[0] == "param" and e[1] == fn.path and (k is None or e[2] == k) and (field is None or (e[3] and e[3][0] == field))


def _calls_in(e, pat):
    return [t for t in subterms(e) if isinstance(t, tuple) and t[0] == "call" and re.search(pat, t[1])]


def _one(es):
    es = list(es)
    return es[0] if len(es) == 1 else None


def _stores_through(b, call_site):
    """operands stored through the reference an index_mut call returned"""
    dst = call_site.node["dst"]["l"]
    out = []
    for st in b.sites():
        nd = st.node
        if st.si is not None and nd["k"] == "assign" and nd["dst"]["l"] == dst and nd["dst"]["p"] == ["*"] and nd["rv"]["k"] == "use":
            out.append(nd["rv"]["ops"][0])
    # `*tmp = v` where tmp is a reborrow of the returned reference
    for l, ds in b.defs.items():
        for d in ds:
            if d.si is not None and d.node["k"] == "assign" and d.node["rv"]["k"] in ("ref", "use") and not d.node["dst"]["p"]:
                src = d.node["rv"].get("place") if d.node["rv"]["k"] == "ref" else op_place(d.node["rv"]["ops"][0])
                if src is not None and src["l"] == dst and src["p"] in (["*"], []):
                    for st in b.sites():
                        nd = st.node
                        if st.si is not None and nd["k"] == "assign" and nd["dst"]["l"] == l and nd["dst"]["p"] == ["*"] and nd["rv"]["k"] == "use":
                            out.append(nd["rv"]["ops"][0])
    return out


class IStore:
    """one store `recv[idx] = value`: through the reference IndexMut::index_mut returned (Vec) or through an index projection
    (slice / array)"""

    __slots__ = ("body", "site", "recv", "idx", "vals", "is_bool")

    def __init__(self, body, site, recv, idx, vals, is_bool):
        self.body, self.site, self.recv, self.idx, self.vals, self.is_bool = body, site, recv, idx, vals, is_bool

    def loc(self):
        return self.site.loc()

    def stores_const(self, v):
        return ("const", v) in self.vals


def _rv_trees(prog, y, rv):
    if rv["k"] in ("use", "cast"):
        return set(prov(prog, y, rv["ops"][0]))
    if rv["k"] == "binop":
        a = sorted(prov(prog, y, rv["ops"][0]), key=repr)
        b = sorted(prov(prog, y, rv["ops"][1]), key=repr)
        if len(a) == 1 and len(b) == 1:
            return {("op", rv["op"], (a[0], b[0]))}
    return {("?", rv["k"])}


def indexed_stores(prog, y):
    out = []
    for s in y.calls():
        if callee_decl(callee_of(s)) == "core::ops::index::IndexMut::index_mut":
            vals = set()
            for op in _stores_through(y, s):
                vals |= set(prov(prog, y, op))
            if vals:
                out.append(IStore(y, s, s.node["args"][0], s.node["args"][1], vals, "bool" in str(callee_of(s).get("substs"))))
    for s in y.sites():
        nd = s.node
        if s.si is None or nd["k"] != "assign":
            continue
        pp = nd["dst"]["p"]
        for k, e in enumerate(pp):
            if isinstance(e, dict) and "idx" in e and k == len(pp) - 1:
                base = {"l": nd["dst"]["l"], "p": pp[:k]}
                ty = y.local_ty(nd["dst"]["l"])
                out.append(IStore(y, s, base, {"c": {"l": e["idx"], "p": []}}, _rv_trees(prog, y, nd["rv"]), "bool" in ty))
    return out


def module_bodies(prog, F, mod):
    """F, the functions of the module it reaches through resolved calls, and their closures"""
    bodies = []
    for x in [F] + [x for x in prog.reachable_from([F], virtual_dispatch=False).values() if x.kind != "closure" and (x.path.startswith(mod + "::") or ("<" + mod + "::") in x.path) and x is not F]:
        for y in prog.with_closures(x):
            if y not in bodies:
                bodies.append(y)
    return bodies


def rule_class_tables_agree(ctx):
    prog = ctx.prog
    r = ctx.rule(
        "class-tables-agree",
        "equivalence reduction: the reduced argument with id k is made from class k (labels built from the class list in order, nothing "
        "filtered), the table init->reduced stores under every member of class k the value k (index and value come from the same step of "
        "one enumeration of the class list) and is as long as the initial framework; `reduced_arg_to_init_args` reads class `reduced.id()` "
        "and maps its members through the initial framework; `init_to_reduced_arg` reads the table at `init.id()` and looks the result up "
        "in the reduced framework; the constructor stores the class list it handed to the reduction",
    )
    adt = prog.adt(TYPE)
    if not r.require_anchor(adt, "public type " + TYPE):
        return
    mod = TYPE.rsplit("::", 1)[0]
    fns = [b for b in prog.lib_bodies() if b.kind != "closure" and b.path.startswith(mod + "::")]
    reducers = [b for b in fns if b.ret_ty.startswith("(") and "AAFramework<" in b.ret_ty and "Vec<usize>" in b.ret_ty]
    if len(reducers) != 1:
        # the reduction is split over helpers: every function of the module that receives the class list is looked at
        reducers = [b for b in fns if not (b.impl and b.impl.get("self_adt") == TYPE) and any(re.match(r"^&\[.*\]$|^&alloc::vec::Vec<", b.local_ty(k)) and mod in b.local_ty(k) for k in range(1, b.n_args + 1))]
    if not r.require_anchor(reducers, "a function of %s receiving the class list" % mod):
        return
    n_w = 0
    n_lab = 0
    for R in reducers:
        n_w, n_lab = _tables_of_reducer(prog, r, R, mod, n_w, n_lab)
    r.floor(n_w, 1, "writes of the init->reduced table")
    r.floor(n_lab, 1, "ArgumentSet::new_with_labels calls building the reduced argument set")
    _accessors_and_constructor(prog, r, adt, fns, mod)


def _tables_of_reducer(prog, r, R, mod, n_w, n_lab):
    from ..prov import expand_params

    cls_params = [k for k in range(1, R.n_args + 1) if re.match(r"^&\[.*\]$|^&alloc::vec::Vec<", R.local_ty(k)) and mod in R.local_ty(k)]
    af_params = [k for k in range(1, R.n_args + 1) if "AAFramework<" in R.local_ty(k)]
    if len(cls_params) != 1:
        return n_w, n_lab
    CL, AF = cls_params[0], (af_params[0] if len(af_params) == 1 else None)
    # --- table writes
    for y in prog.with_closures(R):
        for s in y.calls():
            if callee_decl(callee_of(s)) != "core::ops::index::IndexMut::index_mut":
                continue
            recv = prov(prog, y, s.node["args"][0])
            if not any(_calls_in(e, r"alloc::vec::from_elem$") for e in recv):
                continue
            n_w += 1
            anchor = "%s|table-write#%d" % (R.id, n_w)
            idx = _one(prov(prog, y, s.node["args"][1]))
            vals = [v for op in _stores_through(y, s) for v in prov(prog, y, op)]
            val = _one(set(vals))
            if idx is None or val is None:
                r.ok(anchor, "NOT decided: index / stored value not resolved to one expression", s.loc())
                continue
            # the enumeration step the stored value is the index of
            step = val[1] if val[0] == "field" and val[2] == "0" and isinstance(val[1], tuple) and val[1][0] == "elem" and _calls_in(val[1], r"Iterator::enumerate$") else None
            if step is None:
                from_content = val[0] == "const" or any(isinstance(t, tuple) and t[0] == "elem" and any(_is_param(l, R, CL) for l in leaves(t)) for t in subterms(val))
                if from_content:
                    r.violation(anchor, "value-not-class-index", "the table stores %s, which is computed from the content of the classes (or a constant), not the position of the member's class in the class list" % show(val)[:120], s.loc())
                else:
                    r.ok(anchor, "NOT decided: the stored value (%s) is not an enumeration index; positions counted another way are not followed" % show(val)[:80], s.loc())
                continue
            r.ok(anchor, "stored value is the position of the class in the class list (%s)" % show(val), s.loc())
            src_ok = all(_is_param(l, R, CL) for l in leaves(step) if l[0] == "param") and any(_is_param(l, R, CL) for l in leaves(step))
            r.check(src_ok, anchor, "enumeration-source", "the enumeration ranges over the class list", "the enumeration does not range over the class-list parameter", s.loc())
            member = idx[0] == "elem" and ("field", step, "1") in subterms(idx) and all(l == ("field", step, "1") or l[0] != "param" or _is_param(l, R, CL) for l in leaves(idx))
            r.check(member, anchor, "index-not-member:%s" % show(idx)[:80], "the index is a member of that same class (%s)" % show(idx), "the table entry written is %s, which is not `each member of the class at that position`: members are mapped to another class's id" % show(idx), s.loc())
            sizes = [x for e in recv for c in _calls_in(e, r"alloc::vec::from_elem$") if len(c[2]) >= 2 for x in expand_params(prog, c[2][1], 2)]
            if sizes and all(_calls_in(x, r"n_arguments$") and any(l[0] == "param" and "AAFramework<" in (prog.lib(l[1]).local_ty(l[2]) if prog.lib(l[1]) else "") + "".join(l[3]) or (l[0] == "param" and l[3] and "af" in l[3][-1]) for l in leaves(x)) for x in sizes):
                r.ok(anchor, "the table has one entry per argument of the initial framework", s.loc())
            elif sizes and all(x[0] == "param" or any(l[0] in ("?", "var") for l in leaves(x)) for x in sizes):
                r.ok(anchor, "NOT decided: the size of the table (%s) is not followed to the framework" % show(sizes[0])[:60], s.loc())
            else:
                r.violation(anchor, "table-size", "the table is not sized by the initial framework's argument count (%s)" % (show(sizes[0])[:80] if sizes else "?"), s.loc())
    # --- reduced labels: one per class, in class order; the list may be built by a helper that receives the class list
    lab = [s for s in R.calls() if callee_matches(callee_of(s), r"ArgumentSet::new_with_labels$")]
    if lab:
        for s in lab:
            n_lab += 1
            e = _one(prov(prog, R, s.node["args"][0]))
            anchor = R.id + "|reduced-labels"
            if e is None:
                r.ok(anchor, "NOT decided: the label list is not one expression", s.loc())
                continue
            chain = [t[1] for t in subterms(e) if isinstance(t, tuple) and t[0] == "call" and not (t[1].startswith("utils::") or t[1].startswith("aa::"))]
            reorder = [d for d in chain if re.search(r"Iterator::(filter|filter_map|skip|skip_while|take|take_while|step_by|rev|chain|zip|flat_map|flatten|peekable|scan|dedup\w*)$|slice::.*sort\w*$|Vec::(dedup\w*|retain|swap_remove|remove|insert|truncate|reverse)$|slice::.*reverse$", d)]
            src = {l for l in leaves(e) if l[0] == "param"}
            plain = bool(chain) and all(re.search(r"Iterator::(collect|map)$|alloc::slice::.*to_vec$", d) for d in chain) and src and all(_is_param(l, R, CL) or _is_param(l, R, AF) for l in src) and any(_is_param(l, R, CL) for l in src)
            if reorder:
                r.violation(anchor, "labels:%s" % [d.rsplit("::", 1)[-1] for d in reorder][:3], "the labels of the reduced framework are not `one per class in class order` (%s): reduced ids no longer equal class positions" % show(e)[:120], s.loc())
            elif plain:
                r.ok(anchor, "one label per class, in the order of the class list (%s)" % show(e)[:100], s.loc())
            else:
                r.ok(anchor, "NOT decided: the label list is not a plain map over the class list (%s)" % show(e)[:100], s.loc())
            # each label is taken from a member of its class, looked up in the initial framework
            for t in subterms(e):
                if isinstance(t, tuple) and t[0] == "call" and t[1].endswith("Iterator::map") and len(t) > 3:
                    for cp in t[3]:
                        cb = prog.lib(cp)
                        if cb is None:
                            continue
                        re_ = _one(prov(prog, cb, {"l": 0, "p": []}))
                        okm = re_ is not None and any(x[0] == "elem" and any(_is_param(l, R, CL) for l in leaves(x)) for x in subterms(re_) if isinstance(x, tuple)) and any(_is_param(l, R, AF) for l in leaves(re_))
                        r.check(okm, anchor + "|member", "label-source", "label k is the label of a member of class k in the initial framework", "the label of a reduced argument is not taken from a member of its class", cb.loc())
    return n_w, n_lab


def _accessors_and_constructor(prog, r, adt, fns, mod):
    # --- accessors
    methods = {b.path.rsplit("::", 1)[-1]: b for b in fns if b.impl and b.impl.get("self_adt") == TYPE}
    rb = methods.get("reduced_arg_to_init_args")
    if r.require_anchor(rb, TYPE + "::reduced_arg_to_init_args"):
        e = _one(prov(prog, rb, {"l": 0, "p": []}))
        anchor = rb.id
        if e is None:
            r.ok(anchor, "NOT decided: result is not one expression", rb.loc())
        else:
            idxs = [ix for ix in _calls_in(e, r"ops::index::Index::index$|slice::.*::get$|slice::get$|Vec::get$|get_unchecked$") if len(ix[2]) == 2 and _is_param(ix[2][0], rb, 1) and ix[2][0][3] and "Vec<" in _field_ty(adt, ix[2][0][3][0]) and mod in _field_ty(adt, ix[2][0][3][0])]
            if not idxs:
                r.ok(anchor, "NOT decided: no indexed read of the class list found (%s)" % show(e)[:100], rb.loc())
            for ix in idxs:
                key = ix[2][1]
                ok = bool(_calls_in(key, r"Label::id$")) and any(_is_param(l, rb, 2) for l in leaves(key)) and all(l[0] != "param" or _is_param(l, rb, 2) for l in leaves(key)) and not any(t[0] == "op" for t in subterms(key) if isinstance(t, tuple)) and not _calls_in(key, r"Index::index$")
                r.check(ok, anchor, "class-key", "reads the class stored at position reduced_arg.id()", "the class is not read at position `reduced_arg.id()` of the class list (key: %s)" % show(key)[:120], rb.loc())
            # members are looked up in the *initial* framework (wherever the look-up is written: a mapping closure, a loop)
            lookups = []
            for y in prog.with_closures(rb):
                for s2 in y.calls():
                    if callee_matches(callee_of(s2), r"get_argument_by_id$|get_argument$") and len(s2.node["args"]) == 2:
                        for ae in prov(prog, y, s2.node["args"][1]):
                            if any(isinstance(t, tuple) and t[0] == "elem" for t in subterms(ae)):
                                lookups.append((s2, prov(prog, y, s2.node["args"][0])))
            if not lookups:
                r.ok(anchor + "|members", "NOT decided: no per-member look-up found", rb.loc())
            for s2, recv in lookups:
                fields = {l[3][0] for e2 in recv for l in leaves(e2) if l[0] == "param" and l[2] == 1 and l[3]}
                good = bool(fields) and all("AAFramework<" in _field_ty(adt, f) and _field_ty(adt, f).startswith("&") for f in fields)
                r.check(good, anchor + "|members", "members-through-init", "members are looked up by id in the initial framework", "the members of a class are looked up in %s, not in the initial framework" % sorted(fields), s2.loc())
    ib = methods.get("init_to_reduced_arg")
    if r.require_anchor(ib, TYPE + "::init_to_reduced_arg"):
        e = _one(prov(prog, ib, {"l": 0, "p": []}))
        anchor = ib.id
        if e is None:
            r.ok(anchor, "NOT decided: result is not one expression", ib.loc())
        else:
            tabs = [ix for ix in _calls_in(e, r"ops::index::Index::index$|slice::.*::get$|slice::get$|Vec::get$|get_unchecked$") if len(ix[2]) == 2 and _is_param(ix[2][0], ib, 1) and ix[2][0][3] and _field_ty(adt, ix[2][0][3][0]).replace(" ", "") == "alloc::vec::Vec<usize>"]
            if not tabs or not (e[0] == "call" and e[1].endswith("get_argument_by_id") and len(e[2]) == 2):
                r.ok(anchor, "NOT decided: not of the form framework.get_argument_by_id(table[..]) (%s)" % show(e)[:100], ib.loc())
            else:
                fw, key = e[2]
                fw_owned = any(l[0] == "param" and l[2] == 1 and l[3] and "AAFramework<" in _field_ty(adt, l[3][0]) and not _field_ty(adt, l[3][0]).startswith("&") for l in leaves(fw))
                r.check(fw_owned, anchor, "lookup-framework", "the reduced id is looked up in the reduced framework", "the id read from the table is looked up in %s, not in the reduced framework" % show(fw)[:80], ib.loc())
                r.check(key in tabs, anchor, "table-key", "the id looked up is the table entry itself", "the id looked up in the reduced framework is not the table entry (%s)" % show(key)[:100], ib.loc())
                for ix in tabs:
                    k = ix[2][1]
                    key_ok = bool(_calls_in(k, r"Label::id$")) and any(_is_param(l, ib, 2) for l in leaves(k)) and not any(t[0] == "op" for t in subterms(k) if isinstance(t, tuple))
                    r.check(key_ok, anchor, "table-key", "the table is read at init_arg.id()", "the table is not read at `init_arg.id()` (key: %s)" % show(k)[:100], ib.loc())
    # --- constructor: the stored class list is the one the reduction was run on
    n_c = 0
    for b in fns:
        for s in b.sites():
            nd = s.node
            if s.si is not None and nd["k"] == "assign" and nd["rv"]["k"] == "aggregate" and nd["rv"]["agg"].get("path") == TYPE:
                n_c += 1
                names = nd["rv"]["agg"].get("field_names") or []
                ops = nd["rv"]["ops"]
                ex = {nm: _one(prov(prog, b, op)) for nm, op in zip(names, ops)}
                cls_f = [nm for nm in names if "Vec<" in _field_ty(adt, nm) and mod in _field_ty(adt, nm)]
                tab_f = [nm for nm in names if _field_ty(adt, nm).replace(" ", "") == "alloc::vec::Vec<usize>"]
                red_f = [nm for nm in names if "AAFramework<" in _field_ty(adt, nm) and not _field_ty(adt, nm).startswith("&")]
                ini_f = [nm for nm in names if "AAFramework<" in _field_ty(adt, nm) and _field_ty(adt, nm).startswith("&")]
                anchor = b.id + "|constructor"
                if not (len(cls_f) == len(tab_f) == len(red_f) == len(ini_f) == 1) or any(ex.get(x) is None for x in (cls_f + tab_f + red_f + ini_f)):
                    r.ok(anchor, "NOT decided: fields not identified by their types / not single expressions", s.loc())
                    continue
                ce, te, re2, ie = ex[cls_f[0]], ex[tab_f[0]], ex[red_f[0]], ex[ini_f[0]]
                # every reduction helper the table / the reduced framework come from was handed the stored class list and the stored
                # initial framework
                fam = []
                for tree in (te, re2):
                    for c in [t for t in subterms(tree) if isinstance(t, tuple) and t[0] == "call"]:
                        cb = prog.lib(c[1])
                        if cb is None or cb.kind == "closure" or not c[1].startswith(mod + "::"):
                            continue
                        for k in range(1, cb.n_args + 1):
                            ty = cb.local_ty(k)
                            if re.match(r"^&\[.*\]$|^&alloc::vec::Vec<", ty) and mod in ty and k - 1 < len(c[2]):
                                fam.append((cb, "classes", c[2][k - 1]))
                            elif "AAFramework<" in ty and k - 1 < len(c[2]):
                                fam.append((cb, "framework", c[2][k - 1]))
                if not any(kind == "classes" for cb, kind, a in fam):
                    r.ok(anchor, "NOT decided: the table and the reduced framework are not results of functions receiving the class list", s.loc())
                    continue
                for cb, kind, a in fam:
                    if kind == "classes":
                        r.check(a == ce, anchor, "classes-differ", "the stored class list is the one handed to %s" % cb.path.rsplit("::", 1)[-1], "the stored class list (%s) is not the one handed to %s (%s)" % (show(ce)[:60], cb.path.rsplit("::", 1)[-1], show(a)[:60]), s.loc())
                    else:
                        r.check(a == ie, anchor, "frameworks-differ", "the stored initial framework is the one handed to %s" % cb.path.rsplit("::", 1)[-1], "the stored initial framework is not the one handed to %s" % cb.path.rsplit("::", 1)[-1], s.loc())
                single = te[0] == "field" and re2[0] == "field" and te[1] == re2[1]
                split = te != re2 and not single
                r.ok(anchor, "table and reduced framework are %s" % ("the two results of one call" if single else "results of the reduction helpers fed with the same class list"), s.loc())
    r.floor(n_c, 1, "constructions of " + TYPE)


def _field_ty(adt, name):
    for v in adt["variants"]:
        for f in v["fields"]:
            if f["name"] == name:
                return f["ty"]
    return ""


def _flagless_region(prog, y, site):
    """the closure body / innermost loop around `site` reads and writes no bool vector: it classifies by construction, not by flags"""
    if y.kind == "closure":
        blocks = set(y.reachable)
    else:
        ls = [bl for h, bl in y.loops() if site.bb in bl]
        if not ls:
            return False
        blocks = min(ls, key=len)
    for s in y.calls():
        if s.bb in blocks and callee_decl(callee_of(s)) in ("core::ops::index::Index::index", "core::ops::index::IndexMut::index_mut") and "bool" in str(callee_of(s).get("substs")):
            return False
    for st in indexed_stores(prog, y):
        if st.site.bb in blocks and st.is_bool:
            return False
    for s in y.sites():
        nd = s.node
        if s.bb in blocks and s.si is not None and nd["k"] == "assign":
            for pl in [op_place(o) for o in nd["rv"].get("ops", [])] + [nd["rv"].get("place")]:
                if pl and any(isinstance(e, dict) and "idx" in e for e in pl["p"]) and "bool" in y.local_ty(pl["l"]):
                    return False
    return True


def rule_classes_partition(ctx):
    prog = ctx.prog
    r = ctx.rule(
        "classes-partition",
        "class construction: an argument id put into a class (the seed of a new class, a pushed member) is marked in the `already classified` "
        "vector in the same step, and an iteration of the loop over all arguments that does not open a class is one whose argument is already "
        "marked - so every argument is in exactly one class, which is what makes the two mappings total and mutually inverse",
    )
    mod = TYPE.rsplit("::", 1)[0]
    fns = [b for b in prog.lib_bodies() if b.kind != "closure" and b.path.startswith(mod + "::") and re.match(r"^alloc::vec::Vec<%s::\w+>$" % re.escape(mod), b.ret_ty)]
    if len(fns) > 1:
        # the construction lives in methods of a private builder object (one of which also returns the list): its state is in fields of
        # the object, which these rules do not follow
        objs = sorted({(prog.adt(f.impl.get("self_adt")) or {}).get("path", "").rsplit("::", 1)[-1] for f in fns if f.impl and prog.adt(f.impl.get("self_adt") or "") and str(prog.adt(f.impl.get("self_adt")).get("vis") or "pub") != "pub"})
        if objs:
            r.ok("classes", "NOT decided: the class list is built by methods of the private object %s (its marks and lists are fields of that object)" % objs[0])
            return
    if not r.require_anchor(len(fns) == 1, "the function returning the class list"):
        return
    F = fns[0]
    bodies = prog.with_closures(F)

    def marks(y):
        """expressions e with a store `flags[e] = true` in body y (flags: a Vec<bool>)"""
        out = []
        for s in y.calls():
            if callee_decl(callee_of(s)) == "core::ops::index::IndexMut::index_mut" and "bool" in str((callee_of(s) or {}).get("substs")):
                for op in _stores_through(y, s):
                    k = op_const(op)
                    if k is not None and k.get("bool") is True:
                        out += list(prov(prog, y, s.node["args"][1]))
        return out

    n = 0
    for y in bodies:
        mk = marks(y)
        for s in y.calls():
            d = callee_decl(callee_of(s))
            if d == "alloc::vec::Vec::push" and "usize" in str(callee_of(s).get("substs")) and mod not in str(callee_of(s).get("substs")):
                n += 1
                es = prov(prog, y, s.node["args"][1])
                r.check(bool(es) and all(e in mk for e in es), "%s|member#%d" % (y.id, n), "member-not-marked", "a pushed member is marked as classified in the same step (%s)" % " | ".join(show(e)[:60] for e in es), "an id is pushed into a class without being marked as classified: it can be put into a second class later", s.loc())
        # the seed of a new class: a one-element vector built from an id
        for s in y.sites():
            nd = s.node
            if s.si is not None and nd["k"] == "assign" and nd["rv"]["k"] == "aggregate" and nd["rv"]["agg"].get("kind") == "array" and len(nd["rv"]["ops"]) == 1 and "usize" in str(nd["rv"]["agg"].get("ty")):
                es = prov(prog, y, nd["rv"]["ops"][0])
                if not es or any(e[0] == "const" for e in es):
                    continue
                if all(e[0] == "elem" and isinstance(e[1], tuple) and e[1][0] == "agg" and str(e[1][1]).startswith("Range") for e in es) and _flagless_region(prog, y, s):
                    # `(0..n).map(|i| Class(vec![i]))`: one singleton class per id of a plain range - a partition by construction
                    r.ok("%s|seed#range" % y.id, "one singleton class per id of a range", s.loc())
                    continue
                n += 1
                r.check(all(e in mk for e in es), "%s|seed#%d" % (y.id, n), "seed-not-marked", "the seed of a new class is marked as classified (%s)" % " | ".join(show(e)[:60] for e in es), "the argument a new class is opened for is not marked as classified", s.loc())
    # the converse: an id is marked as classified only in a step that puts it into a class - pushed as a member under the same
    # conditions, the seed of a class being opened, or a member of a class that exists already
    from .grounded import inherited_conditions as _ic, _cond_trees as _ct

    for y in bodies:
        pushes = []
        seeds_here = set()
        for s in y.calls():
            if callee_decl(callee_of(s)) == "alloc::vec::Vec::push" and "usize" in str(callee_of(s).get("substs")) and mod not in str(callee_of(s).get("substs")):
                pushes.append((set(prov(prog, y, s.node["args"][1])), set(map(repr, _ct(prog, _ic(prog, y, s.bb))))))
        for s in y.sites():
            nd = s.node
            if s.si is not None and nd["k"] == "assign" and nd["rv"]["k"] == "aggregate" and nd["rv"]["agg"].get("kind") == "array" and len(nd["rv"]["ops"]) == 1 and "usize" in str(nd["rv"]["agg"].get("ty")) and nd["dst"]["p"]:
                # `vec![x]` writes the array through the box pointer; `&[x]` handed to a call is a local array, not a class
                seeds_here |= set(prov(prog, y, nd["rv"]["ops"][0]))
        k = 0
        for st in indexed_stores(prog, y):
            if not (st.is_bool and st.stores_const(True)):
                continue
            idxs = set(prov(prog, y, st.idx))
            conds = set(map(repr, _ct(prog, _ic(prog, y, st.site.bb))))
            k += 1
            anchor = "%s|mark#%d" % (y.id, k)
            if idxs & seeds_here:
                continue
            # members of classes that exist already: the index iterates a class of the class list
            def _inner(t):
                while isinstance(t, tuple) and t[0] == "call" and re.search(r"::(iter|into_iter|deref|as_slice|members)$", t[1]) and t[2]:
                    t = t[2][0]
                return t

            if all(e[0] == "elem" and isinstance(_inner(e[1]), tuple) and _inner(e[1])[0] == "elem" for e in idxs):
                continue
            same = [pc for pv_, pc in pushes if pv_ & idxs]
            if not same:
                if all(e[0] == "elem" and not (isinstance(e[1], tuple) and e[1][0] == "agg" and str(e[1][1]).startswith("Range")) for e in idxs):
                    # the members of a collection computed elsewhere (the grounded / defeated lists that become classes)
                    continue
                if pushes or seeds_here:
                    r.violation(anchor, "marked-without-class", "an id is marked as classified (%s) but not put into any class in that step: no class will ever hold it, and the table maps it to class 0" % " | ".join(show(e)[:60] for e in idxs), st.loc())
                continue
            r.check(any(pc <= conds and conds <= pc for pc in same), anchor, "marked-without-class", "marked under the conditions under which it is pushed into the class", "an id is marked as classified under weaker conditions than those under which it is put into the class: a candidate that fails the merge test is marked, joins no class, and the table maps it to class 0", st.loc())
    r.floor(n, 2, "ids put into classes")
    # every argument gets a class: an iteration that opens none is guarded by `already classified`
    loops = dict(F.loops())
    cls_push = {s.bb for s in F.calls() if callee_decl(callee_of(s)) == "alloc::vec::Vec::push" and mod in str(callee_of(s).get("substs"))}
    n2 = 0
    for head, blocks in sorted(loops.items()):
        if not (cls_push & blocks):
            continue
        inner = [h for h, bl in loops.items() if h != head and bl < blocks and (cls_push & bl)]
        if inner:
            continue
        n2 += 1
        # edges taken when the argument of the iteration is already classified (`if flags[arg] { continue }`) are legitimate
        cut = set()
        for x in blocks:
            t = F.blocks[x]["term"]
            if t["k"] != "switch":
                continue
            q = op_place(t["discr"])
            if q is None:
                continue
            for e in prov(prog, F, t["discr"]):
                if e[0] == "call" and e[1].endswith("Index::index") and len(e[2]) == 2 and any(c[1].endswith("from_elem") for c in _calls_in(e[2][0], r"from_elem$")) and "bool" in F.local_ty(q["l"]) or (e[0] == "call" and e[1].endswith("Index::index") and "bool" in str(F.local_ty(q["l"]))):
                    zero = {tb for v, tb in t["targets"] if v == "0"}
                    for sc in F.succ[x]:
                        if sc not in zero:
                            cut.add((x, sc))
        seen = set()
        st = [sc for sc in F.succ[head] if sc in blocks]
        escaped = False
        while st:
            x = st.pop()
            if x in seen or x in cls_push or x not in blocks:
                continue
            seen.add(x)
            for sc in F.succ[x]:
                if (x, sc) in cut:
                    continue
                if sc == head:
                    escaped = True
                st.append(sc)
        r.check(not escaped, "%s|loop" % F.id, "argument-without-class", "an iteration opens a class unless its argument is already classified", "an iteration of the loop over the arguments can end without opening a class for an argument that is not classified yet: the mappings are not total", F.loc())
    r.floor(n2, 1, "loops opening classes")


def rule_merge_test(ctx):
    prog = ctx.prog
    r = ctx.rule(
        "mutual-reachability",
        "class construction (the mechanism the property names): a candidate x taken from the propagation of the class seed joins the class only "
        "under the test `propagation(x) contains the seed` - each one's propagation reaches the other; and the attacker counters every "
        "propagation starts from are the plain in-degrees (incremented once per stored attack, never lowered or otherwise rewritten)",
    )
    from .grounded import inherited_conditions, _cond_trees

    mod = TYPE.rsplit("::", 1)[0]
    fns = [b for b in prog.lib_bodies() if b.kind != "closure" and b.path.startswith(mod + "::") and re.match(r"^alloc::vec::Vec<%s::\w+>$" % re.escape(mod), b.ret_ty)]
    if len(fns) > 1:
        # the construction lives in methods of a private builder object (one of which also returns the list): its state is in fields of
        # the object, which these rules do not follow
        objs = sorted({(prog.adt(f.impl.get("self_adt")) or {}).get("path", "").rsplit("::", 1)[-1] for f in fns if f.impl and prog.adt(f.impl.get("self_adt") or "") and str(prog.adt(f.impl.get("self_adt")).get("vis") or "pub") != "pub"})
        if objs:
            r.ok("classes", "NOT decided: the class list is built by methods of the private object %s (its marks and lists are fields of that object)" % objs[0])
            return
    if not r.require_anchor(len(fns) == 1, "the function returning the class list"):
        return
    F = fns[0]
    bodies = prog.with_closures(F)
    # seeds: the ids new classes are opened for
    seeds = set()
    for y in bodies:
        for s in y.sites():
            nd = s.node
            if s.si is not None and nd["k"] == "assign" and nd["rv"]["k"] == "aggregate" and nd["rv"]["agg"].get("kind") == "array" and len(nd["rv"]["ops"]) == 1 and "usize" in str(nd["rv"]["agg"].get("ty")):
                seeds |= set(prov(prog, y, nd["rv"]["ops"][0]))
    n = 0
    for y in bodies:
        for s in y.calls():
            if callee_decl(callee_of(s)) == "alloc::vec::Vec::push" and "usize" in str(callee_of(s).get("substs")) and mod not in str(callee_of(s).get("substs")):
                xs = set(prov(prog, y, s.node["args"][1]))
                conds = [(e, t) for e, t in _cond_trees(prog, inherited_conditions(prog, y, s.bb)) if e[0] == "call" and re.search(r"slice::.*contains$|slice::contains$|Vec::contains$", e[1]) and len(e[2]) == 2]
                anchor = "%s|merge#%d" % (F.id, n)
                n += 1
                if not conds:
                    r.ok(anchor, "NOT decided: no `contains` test governs this push", s.loc())
                    continue
                for e, t in conds:
                    P_, S_ = e[2]
                    S_alts = set(S_[1]) if S_[0] == "alt" else {S_}
                    own = bool(S_alts & xs)
                    if own:
                        r.violation(anchor, "tests-own-membership", "the candidate joins the class when its propagation contains *itself* (always true): only one direction of the mutual reachability is tested", s.loc())
                        continue
                    is_seed = bool(S_alts & seeds) and t is True
                    about_x = any(x in subterms(P_) or any(x in (set(a[1]) if isinstance(a, tuple) and a[0] == "alt" else {a}) for a in subterms(P_) if isinstance(a, tuple)) for x in xs)
                    r.check(is_seed and about_x, anchor, "merge-test", "joins under `propagation(candidate) contains the seed`", "the candidate joins the class under the test %s %s, which is not `its own propagation contains the class seed`" % (show(e)[:100], t), s.loc())
    r.floor(n, 1, "members pushed into classes")
    # the in-degree counters
    n2 = 0
    for y in module_bodies(prog, F, mod):
        for st in indexed_stores(prog, y):
            if st.is_bool:
                continue
            recv = prov(prog, y, st.recv)
            if not any(e[0] == "call" and e[1].endswith("from_elem") and e[2] and e[2][0] == ("const", 0) for e in recv):
                continue
            s = st.site
            for e in st.vals:
                core_ = e[1] if e[0] == "field" and e[2] == "0" and e[1][0] == "op" else e
                if core_[0] != "op":
                    continue
                n2 += 1
                anchor = "%s|counter-store#%d" % (F.id, n2)
                idx = _one(prov(prog, y, st.idx))
                good = core_[1] in ("Add", "AddWithOverflow") and core_[2][1] == ("const", 1) and idx is not None and idx[0] == "call" and idx[1].endswith("Label::id") and _calls_in(idx, r"::attacked$") and _calls_in(idx, r"AAFramework::iter_attacks$")
                if good and _calls_in(idx, r"Iterator::(filter|filter_map|skip|skip_while|take|take_while|step_by)$"):
                    r.violation(anchor, "counter-filtered", "the in-degree counters count a filtered list of attacks (%s): the propagations do not start from the in-degrees" % _calls_in(idx, r"Iterator::(filter|filter_map|skip|skip_while|take|take_while|step_by)$")[0][1].rsplit("::", 1)[-1], s.loc())
                    continue
                r.check(good, anchor, "counter-rewritten:%s" % core_[1], "counters are incremented once per stored attack, at the attacked argument", "the attacker counters are rewritten (%s at %s): the propagations no longer start from the in-degrees" % (core_[1], show(idx)[:80] if idx else "?"), s.loc())
    r.floor(n2, 1, "stores into the in-degree counters")


def _flag_vector_start(prog, y, vec_op, depth=0):
    """how a bool vector starts: 'false' (all false), 'preset' (some entries may start true), None (not recognised)"""
    verdicts = set()
    for e in prov(prog, y, vec_op):
        if e[0] == "call" and e[1].endswith("from_elem") and e[2]:
            verdicts.add("false" if e[2][0] == ("const", False) else ("preset" if e[2][0] == ("const", True) else None))
        elif e[0] == "call" and re.search(r"Iterator::collect$", e[1]) and e[2]:
            maps = [t for t in subterms(e) if isinstance(t, tuple) and t[0] == "call" and re.search(r"Iterator::map$", t[1]) and t[3]]
            if len(maps) != 1:
                verdicts.add(None)
                continue
            clo = prog.by_target[y.target].get(maps[0][3][0])
            if clo is None:
                verdicts.add(None)
                continue
            rets = prov(prog, clo, {"l": 0, "p": []})
            if all(x == ("const", False) for x in rets):
                verdicts.add("false")
            elif any(x == ("const", True) or (x[0] in ("call", "op") and any(z[0] == "elem" or (z[0] == "param" and z[1] == clo.path) for z in subterms(x) if isinstance(z, tuple))) for x in rets):
                verdicts.add("preset")
            else:
                verdicts.add(None)
        else:
            verdicts.add(None)
    if "preset" in verdicts:
        return "preset"
    if verdicts == {"false"}:
        return "false"
    return None


def _index_conditions(prog, conds):
    """[(tree of an `Index::index(V, I)` condition, truth, roots of V)]"""
    from .grounded import _cond_trees, _is_call

    out = []
    for y, c in conds:
        for e, t in _cond_trees(prog, [(y, c)]):
            if not _is_call(e, r"Index::index$", 2):
                continue
            vr = set()
            for o in origins(y, c.place, transparent=("core::ops::bit::Not::not",)):
                if o.kind == "call" and callee_decl(o.data) == "core::ops::index::Index::index":
                    vr |= roots(prog, y, o.site.node["args"][0])
            out.append((e, t, vr))
    return out


def _start_of(prog, bodies, vroots):
    """how the vector with these roots starts"""
    for y in bodies:
        for s in y.calls():
            if callee_decl(callee_of(s)) in ("core::ops::index::Index::index", "core::ops::index::IndexMut::index_mut") and "bool" in str(callee_of(s).get("substs")):
                if roots(prog, y, s.node["args"][0]) & vroots:
                    return _flag_vector_start(prog, y, s.node["args"][0])
    return None


def rule_propagation_discipline(ctx):
    prog = ctx.prog
    r = ctx.rule(
        "class-propagation",
        "the propagation the classes are built from: a counter of undefeated attackers is lowered by 1 only in the step where the attacking "
        "argument D is defeated for the first time - the step runs under `not defeated[D]`, D is marked in that step, and the `defeated` flags "
        "start all false; D is a target of an attack of a propagated argument, the counter lowered is that of a target of an attack of D",
    )
    from .grounded import inherited_conditions, _cond_trees, _is_call

    mod = TYPE.rsplit("::", 1)[0]
    fns = [b for b in prog.lib_bodies() if b.kind != "closure" and b.path.startswith(mod + "::") and re.match(r"^alloc::vec::Vec<%s::\w+>$" % re.escape(mod), b.ret_ty)]
    if len(fns) > 1:
        # the construction lives in methods of a private builder object (one of which also returns the list): its state is in fields of
        # the object, which these rules do not follow
        objs = sorted({(prog.adt(f.impl.get("self_adt")) or {}).get("path", "").rsplit("::", 1)[-1] for f in fns if f.impl and prog.adt(f.impl.get("self_adt") or "") and str(prog.adt(f.impl.get("self_adt")).get("vis") or "pub") != "pub"})
        if objs:
            r.ok("classes", "NOT decided: the class list is built by methods of the private object %s (its marks and lists are fields of that object)" % objs[0])
            return
    if not r.require_anchor(len(fns) == 1, "the function returning the class list"):
        return
    F = fns[0]
    bodies = []
    for x in [F] + [x for x in prog.reachable_from([F], virtual_dispatch=False).values() if x.kind != "closure" and x.path.startswith(mod + "::") and x is not F]:
        for y in prog.with_closures(x):
            if y not in bodies:
                bodies.append(y)
    # marking stores: V[I] = true
    marks = []
    for y in bodies:
        for st in indexed_stores(prog, y):
            if st.is_bool and st.stores_const(True):
                conds = _cond_trees(prog, inherited_conditions(prog, y, st.site.bb))
                for v in roots(prog, y, st.recv):
                    for i in prov(prog, y, st.idx):
                        marks.append((v, i, conds))
    n = 0
    for y in bodies:
        for st in indexed_stores(prog, y):
            if st.is_bool:
                continue
            s = st.site
            if True:
                for e in st.vals:
                    core_ = e[1] if e[0] == "field" and e[2] == "0" and e[1][0] == "op" else e
                    if not (core_[0] == "op" and core_[1] in ("Sub", "SubWithOverflow") and len(core_[2]) == 2):
                        continue
                    n += 1
                    anchor = "%s|decrement#%d" % (F.id, n)
                    r.check(core_[2][1] == ("const", 1), anchor, "step:%s" % show(core_[2][1]), "a defeated attacker lowers the counter by 1", "the counter is lowered by %s per defeated attacker" % show(core_[2][1]), s.loc())
                    X = _one(prov(prog, y, st.idx))
                    froms = [t for t in subterms(X) if _is_call(t, r"iter_attacks_from(_id)?$")] if X is not None else []
                    if X is None or not _is_call(X, r"Label::id$", 1) or not _is_call(X[2][0], r"::attacked$", 1) or X[2][0][2][0][0] != "elem" or not froms:
                        wrong = X is not None and (_calls_in(X, r"::attacker$") or _calls_in(X, r"iter_attacks_to(_id)?$"))
                        if wrong:
                            r.violation(anchor, "decrement-target", "the counter lowered is that of %s: not a target of an attack of the defeated argument" % show(X)[:100], s.loc())
                        else:
                            r.ok(anchor, "NOT decided: the index of the lowered counter is not recognised (%s)" % (show(X)[:80] if X else "several"), s.loc())
                        continue
                    D = froms[0][2][-1]
                    d_from = _is_call(D, r"Label::id$", 1) and _is_call(D[2][0], r"::attacked$", 1) and D[2][0][2][0][0] == "elem" and _is_call(D[2][0][2][0][1], r"iter_attacks_from(_id)?$")
                    if not d_from:
                        wrong = _calls_in(D, r"::attacker$") or _calls_in(D, r"iter_attacks_to(_id)?$")
                        if wrong:
                            r.violation(anchor, "defeated-source", "the argument whose attacks are followed is %s: not a target of an attack of a propagated argument" % show(D)[:100], s.loc())
                        else:
                            r.ok(anchor, "NOT decided: the defeated argument is not recognised (%s)" % show(D)[:80], s.loc())
                        continue
                    conds = _cond_trees(prog, inherited_conditions(prog, y, s.bb))
                    cand = [(c, t, vr) for c, t, vr in _index_conditions(prog, inherited_conditions(prog, y, s.bb)) if c[2][1] == D]
                    # the guard vector is the one D is marked in, under the same guard
                    guard = [(c, t, vr) for c, t, vr in cand if any(v in vr and i == D and (c, t) in mc for v, i, mc in marks)]
                    hidden = [c for c, t in conds if c[0] == "call" and not _is_call(c, r"Index::index$") and D in list(c[2])]
                    if guard:
                        r.check(all(t is False for c, t, vr in guard), anchor + "|once", "guard-polarity", "the counters are lowered only the first time D is defeated", "the counters are lowered only when the defeated argument was *already* marked", s.loc())
                        st = _start_of(prog, bodies, guard[0][2])
                        if st == "preset":
                            r.violation(anchor + "|once", "defeated-flags-preset", "the `defeated` flags do not start all false: an argument flagged at the start never lowers the counters of its targets when it is defeated", s.loc())
                        elif st == "false":
                            r.ok(anchor + "|once", "the `defeated` flags start all false", s.loc())
                        else:
                            r.ok(anchor + "|once", "NOT decided: how the `defeated` flags start is not recognised", s.loc())
                    elif hidden:
                        r.ok(anchor + "|once", "NOT decided: the first-defeat test is made by %s" % hidden[0][1].rsplit("::", 1)[-1], s.loc())
                    elif cand and not marks:
                        r.ok(anchor + "|once", "NOT decided: no marking store recognised", s.loc())
                    else:
                        r.violation(anchor + "|once", "no-first-defeat-guard", "the attackers' counters are lowered at every attack on %s, not only in the step where it is defeated (and marked) for the first time: an argument attacked by two propagated arguments is counted twice" % show(D)[:80], s.loc())
    r.floor(n, 1, "counter decrements in the class propagation")


def _zero_test(e, t, subj):
    """does (condition tree, truth) say `subj == 0`"""
    if e[0] != "op" or len(e[2]) != 2:
        return None
    a, b = e[2]
    if a != subj:
        if b == subj and e[1] in ("Eq", "Ne"):
            a, b = b, a
        else:
            return None
    if b[0] != "const" or isinstance(b[1], bool):
        return None
    k = b[1]
    return (e[1] == "Eq" and k == 0 and t is True) or (e[1] == "Ne" and k == 0 and t is False) or (e[1] == "Lt" and k == 1 and t is True) or (e[1] == "Le" and k == 0 and t is True) or (e[1] == "Ge" and k == 1 and t is False) or (e[1] == "Gt" and k == 0 and t is False)


def rule_grounded_seeds(ctx):
    prog = ctx.prog
    r = ctx.rule(
        "grounded-class-seeds",
        "the grounded class is the propagation of exactly the unattacked arguments: the seed list handed to the propagation with the "
        "in-degree counters is built from those counters, keeping index i exactly when counter i is 0",
    )
    from .grounded import inherited_conditions, _cond_trees, _is_call

    mod = TYPE.rsplit("::", 1)[0]
    # the propagation function: the one holding the counter decrements
    props = []
    for b in prog.lib_bodies():
        if b.kind == "closure" or not b.path.startswith(mod + "::"):
            continue
        for y in prog.with_closures(b):
            for st in indexed_stores(prog, y):
                if not st.is_bool:
                    for e in st.vals:
                        core_ = e[1] if e[0] == "field" and e[2] == "0" and e[1][0] == "op" else e
                        if core_[0] == "op" and core_[1] in ("Sub", "SubWithOverflow") and b not in props:
                            props.append(b)
    if not r.require_anchor(len(props) >= 1, "the function lowering the attacker counters in " + mod):
        return
    n = 0
    for P in props:
        for cs in prog.callers_of(P):
            y = cs.body
            for k, a in enumerate(cs.node["args"]):
                for e in prov(prog, y, a):
                    if not (e[0] == "call" and re.search(r"Iterator::collect$", e[1])):
                        continue
                    anchor = "%s|seeds@%s" % (P.id, y.path.rsplit("::", 1)[-1])
                    fm = [t for t in subterms(e) if _is_call(t, r"Iterator::(filter_map|filter)$") and t[3]]
                    en = [t for t in subterms(e) if _is_call(t, r"Iterator::enumerate$")]
                    others = [prov(prog, y, a2) for j, a2 in enumerate(cs.node["args"]) if j != k]
                    from_counters = en and any(en[0][2][0] in o for o in others)
                    extra_f = [t for t in subterms(e) if _is_call(t, r"Iterator::(filter|filter_map|skip|skip_while|take|take_while|step_by)$")]
                    if from_counters and len(fm) >= 1 and len(extra_f) > 1:
                        # one adaptor does the zero test (judged below when it is the filter_map); any further one drops seeds
                        zero_fm = [t for t in fm if t[1].endswith("filter_map")]
                        others = [t for t in extra_f if t not in zero_fm[:1]]
                        if zero_fm and others:
                            n += 1
                            r.violation(anchor + "|dropped", "seeds-filtered:%s" % others[0][1].rsplit("::", 1)[-1], "the seeds of the grounded class are cut down by a further `%s` after the test of the attacker count: an unattacked argument can be left out of the grounded class" % others[0][1].rsplit("::", 1)[-1], cs.loc())
                            fm = zero_fm[:1]
                    if len(fm) != 1 or not from_counters:
                        r.ok(anchor, "NOT decided: the seed list is not a filter over the enumerated counters handed to the same call", cs.loc())
                        n += 1
                        continue
                    clo = prog.by_target[y.target].get(fm[0][3][0])
                    if clo is None:
                        continue
                    n += 1
                    keeps = []
                    for s in clo.sites():
                        nd = s.node
                        if fm[0][1].endswith("filter_map"):
                            if s.si is not None and nd["k"] == "assign" and nd["rv"]["k"] == "aggregate" and nd["rv"]["agg"].get("variant") == "Some":
                                keeps.append((s, [x for x in prov(prog, clo, nd["rv"]["ops"][0])]))
                    if not fm[0][1].endswith("filter_map") or not keeps:
                        r.ok(anchor, "NOT decided: the keeping closure is not a filter_map returning Some(index)", cs.loc())
                        continue
                    for s, payload in keeps:
                        el = [p for p in payload if p[0] == "field" and p[1][0] == "elem"]
                        if len(payload) != 1 or not el:
                            r.ok(anchor, "NOT decided: kept value %s" % [show(p)[:60] for p in payload], s.loc())
                            continue
                        elem = el[0][1]
                        r.check(el[0][2] == "0", anchor, "seed-is-not-index", "the kept value is the index", "the seed kept is %s, not the index of the counter" % show(el[0])[:80], s.loc())
                        conds = _cond_trees(prog, inherited_conditions(prog, clo, s.bb))
                        zero = [_zero_test(c, t, ("field", elem, "1")) for c, t in conds]
                        zero = [z for z in zero if z is not None]
                        if not zero:
                            if conds:
                                r.violation(anchor, "seed-test", "an argument seeds the grounded class under %s, not under `its attacker count is 0`" % "; ".join("%s is %s" % (show(c)[:70], t) for c, t in conds[:2]), s.loc())
                            else:
                                r.violation(anchor, "seed-test", "every argument seeds the grounded class: no test of the attacker count governs the kept index", s.loc())
                        else:
                            r.check(all(zero), anchor, "seed-test", "an argument seeds the grounded class exactly when its attacker count is 0", "an argument seeds the grounded class under a test of its counter that is not `== 0`", s.loc())
                    for s in clo.sites():
                        nd = s.node
                        if s.si is not None and nd["k"] == "assign" and nd["rv"]["k"] == "aggregate" and nd["rv"]["agg"].get("variant") == "None" and keeps:
                            elem = next((p[1] for s2, pl in keeps for p in pl if p[0] == "field" and p[1][0] == "elem"), None)
                            conds = _cond_trees(prog, inherited_conditions(prog, clo, s.bb))
                            nonzero = any(_zero_test(c, not t, ("field", elem, "1")) for c, t in conds if isinstance(t, bool))
                            r.check(nonzero, anchor + "|dropped", "seed-dropped", "an index is dropped only when its counter is not 0", "an unattacked argument can be left out of the grounded seeds: the dropping arm is not governed by `counter != 0`", s.loc())
    if n == 0:
        r.ok("%s|seeds" % props[0].id, "NOT decided: no seed list built by a filter over the counters found", props[0].loc())
