"""Rules on the static acceptance solvers (src/solvers): C07 (lists are disjunctions), C02/C03
(stable table, membership shape), C04 (certificate shapes / completion / shortcut), C01."""
import re

from ..core import (
    Site,
    callee_of,
    callee_is,
    callee_name,
    callee_decl,
    callee_matches,
    strip_generics,
    op_place,
    op_const,
    origins,
    data_deps,
    derives_from_local,
    place_fields,
    switch_sites,
)
from ..flow import conditions, consumers, switch_subject
from .. import tags

CRED = "solvers::specs::CredulousAcceptanceComputer"
SKEP = "solvers::specs::SkepticalAcceptanceComputer"
SEC = "solvers::specs::SingleExtensionComputer"
SINK = r"sat_solver::SatSolver::(add_clause|solve_under_assumptions)$"


def list_params_of(fn):
    return {i for i in range(1, fn.n_args + 1) if re.match(r"^&\[&", fn.local_ty(i))}


KIND_TRAIT = {"extension": "solvers::specs::SingleExtensionComputer", "credulous": "solvers::specs::CredulousAcceptanceComputer", "skeptical": "solvers::specs::SkepticalAcceptanceComputer"}
_scope_cache = {}


def query_scope(prog, kind):
    """ids of the library bodies reachable from the static solvers' methods of the trait that answers `kind` queries
    ('extension' | 'credulous' | 'skeptical'); None = no restriction"""
    if kind is None:
        return None
    key = (id(prog), kind)
    if key not in _scope_cache:
        roots = []
        for imp in prog.impls_of_trait(KIND_TRAIT[kind]):
            if not (imp.get("self_adt") or "").startswith("solvers::"):
                continue
            for m in imp["methods"]:
                b = prog.lib(m["path"])
                if b is not None:
                    roots.append(b)
        # constant-aware: bool flags the entry points pass (e.g. the assumption polarity of the stable solver) prune the
        # branches - and the closures created in them - that the other query kind uses
        visited, _ = _const_reach(prog, roots)
        _scope_cache[key] = set(visited)
    return _scope_cache[key]


def static_acceptance_methods(prog):
    """(trait, impl, method body) for acceptance impls of static solvers"""
    out = []
    for tr in (CRED, SKEP):
        for imp in prog.impls_of_trait(tr):
            p = imp.get("self_adt") or ""
            if not p.startswith("solvers::"):
                continue
            for m in imp["methods"]:
                b = prog.lib(m["path"])
                if b is not None:
                    out.append((tr, imp, m["name"], b))
    return out


def rule_lists_are_disjunctions(ctx):
    prog = ctx.prog
    r = ctx.rule(
        "list-disjunction",
        "R-DISJ/R-MERGE: literals `arg_to_lit(a)` mapped from the query list reach a SAT *clause* only positively and only from the whole list "
        "(a disjunction over all listed arguments); they reach the *assumptions* (a conjunction) only negated; a positive image of a "
        "filtered part of the list (the listed arguments of one component) constrains nothing a disjunctive query implies",
    )
    methods = static_acceptance_methods(prog)
    if not r.require_anchor(methods, "acceptance impls of static solvers"):
        return
    roots = [b for _, _, _, b in methods]
    reach = prog.reachable_from(roots, virtual_dispatch=False)
    n_sinks = 0
    n_list = 0
    for b in sorted(reach.values(), key=lambda x: x.id):
        if not (b.path.startswith("solvers::") or "<solvers::" in b.path.split(" as ")[0]):
            continue
        fn = prog.enclosing_fn(b)
        lp = list_params_of(fn) if b is fn else set()
        for s in b.calls():
            c = callee_of(s)
            if not callee_matches(c, SINK):
                continue
            n_sinks += 1
            is_clause = callee_decl(c).endswith("add_clause")
            lits = tags.literals_of(prog, b, s.node["args"][1], lp)
            listed = [l for l in lits if l.role == "ARG" and l.many and l.lst in ("FULL", "PARTIAL")]
            n_list += 1 if listed else 0
            sink_idx = [x.bb for x in b.calls() if callee_matches(callee_of(x), SINK)].index(s.bb)
            anchor = "%s|%s#%d" % (b.id, "clause" if is_clause else "assumptions", sink_idx)
            desc = "%s receives %s" % ("add_clause" if is_clause else "solve_under_assumptions", lits)
            for l in listed:
                if is_clause and l.pos is False:
                    r.violation(anchor, "negated-list-in-clause", "a clause holds the negations of the listed arguments (`not all of them`), which is not what a disjunctive query asks", s.loc())
                elif is_clause and l.pos and l.lst == "PARTIAL":
                    r.violation(anchor, "partial-list-in-clause", "a clause requires one of a *filtered part* of the listed arguments (those of the current component): across components this turns the disjunctive query into a conjunction", s.loc())
                elif (not is_clause) and l.pos:
                    r.violation(anchor, "positive-list-in-assumptions", "the listed arguments are all *assumed* (conjunction): a query over several arguments is answered as `all of them` instead of `one of them`", s.loc())
                else:
                    r.ok(anchor, desc, s.loc())
            if not listed:
                r.ok(anchor, desc, s.loc())
            unk = [l for l in lits if l.role == "UNKNOWN"]
            if unk and lp:
                r.violation(anchor, "cannot-analyse:" + ",".join(sorted({str(l.note) for l in unk})), "cannot analyse the literals reaching this SAT call (%s): unmodelled construct" % sorted({str(l.note) for l in unk}), s.loc())
    r.floor(n_sinks, 10, "SAT sinks reachable from static acceptance methods")
    r.floor(n_list, 2, "SAT sinks fed from the query list")


def rule_delegation_pairs(ctx):
    prog = ctx.prog
    r = ctx.rule(
        "certificate-flag-delegation",
        "for each static solver the plain acceptance method either delegates to its `_with_certificate` sibling (`.0`) - same status by "
        "construction - or is one of the non-delegating pairs whose SAT sinks are checked by list-disjunction",
    )
    by_impl = {}
    for tr, imp, name, b in static_acceptance_methods(prog):
        by_impl.setdefault((tr, imp["self_ty"]), {})[name] = b
    n = 0
    for (tr, ty), ms in sorted(by_impl.items()):
        plain = [b for nm, b in ms.items() if not nm.endswith("_with_certificate")]
        cert = [b for nm, b in ms.items() if nm.endswith("_with_certificate")]
        if len(plain) != 1 or len(cert) != 1:
            r.violation("%s|%s" % (tr, ty), "methods", "expected one plain and one certificate method")
            continue
        n += 1
        pb, cb = plain[0], cert[0]
        calls_sib = [s for s in pb.calls() if prog.body_for_callee(callee_of(s), pb) is cb] if True else []
        if calls_sib:
            # returns field 0 of the sibling's result
            ros = origins(pb, {"l": 0, "p": []}, transparent=())
            ok = any(o.kind == "call" and o.site.bb == calls_sib[0].bb and tuple(str(f) for f in o.fields) == ("0",) for o in ros)
            r.check(ok, pb.id, "not-dot-zero", "returns `.0` of the certificate variant", "delegates to the certificate variant but does not return its status unchanged", pb.loc())
            own = [o for o in ros if not (o.kind == "call" and any(o.site.bb == cs.bb for cs in calls_sib) and tuple(str(f) for f in o.fields) == ("0",)) and o.kind not in ("undef", "partial")]
            if ok and own:
                # a shortcut of the plain variant can be right (a grounded member is in every preferred extension) or wrong (.. but not in a
                # stable extension that does not exist): that is a fact about the semantics
                r.ok(pb.id + "|only", "NOT decided: besides delegating, the plain variant answers on its own on some path (%s); whether that shortcut agrees with the certificate variant is not decided" % ", ".join(sorted({("the constant %s" % str(o.data.get("bool")).lower()) if o.kind == "const" else ("a value computed by " + (callee_decl(o.data).rsplit("::", 1)[-1] if o.kind == "call" else o.kind)) for o in own})), (own[0].site.loc() if own[0].site else pb.loc()))
        else:
            sat = any(callee_matches(callee_of(s), SINK) for x in prog.reachable_from([pb], False).values() for s in x.calls())
            helper = [t for _, t in prog.callees(pb, include_closures=False, virtual_dispatch=False)]
            shared = [t for t in helper if t.id in {x.id for _, x in prog.callees(cb, include_closures=False, virtual_dispatch=False)} and t.path.startswith("solvers::")]
            r.ok(pb.id, "non-delegating pair (%s): %s" % ("own SAT sinks, checked by list-disjunction" if sat else "no SAT call", "shares %s with its sibling" % sorted({t.path.rsplit("::", 1)[-1] for t in shared}) if shared else "independent implementation"), pb.loc())
    r.floor(n, 10, "static acceptance impls")


# ------------------------------------------------------------------------------------------
# C04.1 / C01.1 shapes

from .. import shapes as shp  # noqa: E402

CRED_OK = {("t", (True, ("Some", "v"))), ("t", (False, "None"))}
SKEP_OK = {("t", (True, "None")), ("t", (False, ("Some", "v")))}
STABLE = "solvers::stable_semantics_solver::StableSemanticsSolver"


def _diverges_entirely(b):
    return not b.exits()


def rule_certificate_shapes(ctx, kind=None):
    prog = ctx.prog
    shp.clear_cache()
    r = ctx.rule(
        "certificate-shapes",
        "every `are_credulously_accepted_with_certificate` returns only (true, Some(_)) or (false, None); every "
        "`are_skeptically_accepted_with_certificate` only (true, None) or (false, Some(_)) - on all paths, through helpers, caches and "
        "delegation (unimplemented!() bodies are listed, not checked)",
    )
    n = 0
    for tr, oracle, mname in ((CRED, CRED_OK, "are_credulously_accepted_with_certificate"), (SKEP, SKEP_OK, "are_skeptically_accepted_with_certificate")):
        if kind is not None and KIND_TRAIT[kind] != tr:
            continue
        for imp, b in prog.impl_methods(tr, mname):
            if _diverges_entirely(b):
                r.note("%s: unimplemented (diverges on every path)" % b.path)
                continue
            n += 1
            ss = shp.return_shapes(prog, b)
            bad = sorted((s for s in ss if s not in oracle), key=str)
            if bad and shp.imprecise(b) and len(shp.rectangle_artifacts(ss, bad)) == len(bad):
                r.ok(b.id, "NOT decided: status and certificate reach the returned pair as two independently computed values (through a helper that hands them on separately); every pair outside the contract is a combination of a status and a certificate that each also occur in a pair inside it", b.loc())
                continue
            r.check(not bad, b.id, "shapes=%s" % bad, "returns only %s" % sorted(ss, key=str), "%s can return %s: a certificate appears / is missing where the contract says otherwise" % (mname, bad), b.loc())
    r.floor(n, 18 if kind is None else 8, "implemented *_with_certificate methods")


def rule_no_extension_only_stable(ctx):
    prog = ctx.prog
    r = ctx.rule(
        "none-only-for-stable",
        "compute_one_extension returns Some(_) on every path for every semantics but ST; only the stable solver may answer `no extension`",
    )
    n = 0
    for imp, b in prog.impl_methods(SEC, "compute_one_extension"):
        n += 1
        ss = shp.return_shapes(prog, b)
        if imp.get("self_adt") == STABLE:
            r.check(ss <= {("Some", "v"), "None"} and "None" in ss, b.id, "shapes=%s" % sorted(ss, key=str), "stable: Some(_) or None", loc=b.loc())
        else:
            r.check(ss == {("Some", "v")}, b.id, "shapes=%s" % sorted(ss, key=str), "always Some(_)", "compute_one_extension of %s can return %s" % (imp["self_ty"], sorted(ss, key=str)), b.loc())
    r.floor(n, 6, "SingleExtensionComputer impls")


# ------------------------------------------------------------------------------------------
# stable solver: UNSAT in a component decides the whole query


def _none_arm_regions(b, res_local):
    """[(switch site, blocks run when the Option held in `res_local` (or `?` applied to it) is None)]"""
    out = []
    for sw in switch_sites(b):
        subj = switch_subject(b, sw)
        if not subj or not subj[1]:
            continue
        root = subj[0]["l"]
        via_try = False
        direct = root == res_local
        if not direct:
            for o in origins(b, {"l": root, "p": []}, transparent=()):
                if o.kind == "call" and callee_decl(o.data) == "core::ops::try_trait::Try::branch":
                    q = op_place(o.site.node["args"][0])
                    seen, _, _ = data_deps(b, o.site.node["args"][0], through_calls=False)
                    if (q is not None and q["l"] == res_local) or res_local in seen:
                        via_try = True
            if not via_try:
                seen, _, _ = data_deps(b, {"l": root, "p": []}, through_calls=False)
                direct = res_local in seen and b.local_ty(root).startswith("core::option::Option<")
        if not (direct or via_try):
            continue
        want = "1" if via_try else "0"  # Option: None = 0; ControlFlow from `?`: Break = 1
        tgt = [bb for v, bb in sw.node["targets"] if v == want] or ([sw.node["otherwise"]] if sw.node.get("otherwise") is not None and want not in [v for v, _ in sw.node["targets"]] else [])
        for t in tgt:
            out.append((sw, {t} | b.blocks_reachable_from(t, avoid={sw.bb})))
    return out


def _stable_unsat_propagation(prog, r, scope, kind):
    """the stable solver written with helpers: UNSAT (`unwrap_model() == None`) of any component must travel, as `None`, through every
    function between the SAT call and the query method, leaving the component loop at once; decided per function, inductively"""
    mod = STABLE.rsplit("::", 1)[0]
    fns = [b for b in prog.lib_bodies() if b.kind != "closure" and b.path.startswith(mod + "::") or (b.kind != "closure" and ("<" + mod + "::") in b.path)]
    fns = [b for b in fns if "tests" not in b.path]
    # closures handed to a function of the module that calls them (`merge_component_models(|cc_af, solver| ..)`): judged like functions,
    # and the place where they are called is a source of None when every closure that can be called there is
    from .progress import closure_invocations

    invoked = {}
    for b in list(fns):
        for c in prog.closures_of(b):
            if not c.ret_ty.startswith("core::option::Option<"):
                continue
            inv = closure_invocations(prog, c)
            if inv:
                fns.append(c)
                for t, y, _ in inv:
                    invoked.setdefault((t.id, y.bb), []).append(c)
    carrying = {}  # fn id -> True when its None result includes "some component is UNSAT"
    n = 0
    changed = True
    rounds = 0
    verdicts = {}
    while changed and rounds < 6:
        changed = False
        rounds += 1
        for b in fns:
            opt_ret = b.ret_ty.startswith("core::option::Option<")
            tup_ret = bool(re.match(r"^\(bool, core::option::Option<", b.ret_ty))
            if not (opt_ret or tup_ret):
                continue
            srcs = []
            for y in [b]:
                for s in y.calls():
                    c = callee_of(s)
                    t = prog.body_for_callee(c, y) if c else None
                    if callee_decl(c) == "sat::sat_solver::SolvingResult::unwrap_model" or (t is not None and carrying.get(t.id)):
                        srcs.append(s)
                    elif (y.id, s.bb) in invoked and all(carrying.get(x.id) for x in invoked[(y.id, s.bb)]) and len(invoked[(y.id, s.bb)]) >= len(prog.callers_of(y)):
                        srcs.append(s)
            if not srcs:
                continue
            ok_all = True
            for s in srcs:
                res = s.node["dst"]["l"]
                # returned as it is (tail call): None travels by itself
                rets, _, _ = data_deps(b, {"l": 0, "p": []}, through_calls=False)
                regions = _none_arm_regions(b, res)
                if not regions:
                    if opt_ret and res in rets:
                        verdicts[(b.id, s.bb)] = (True, "returned as it is", s)
                        continue
                    verdicts[(b.id, s.bb)] = (None, "the None case of the result is not matched", s)
                    ok_all = False
                    continue
                for sw, region in regions:
                    loops = b.in_loop(sw.bb)
                    back = any(h in region for h in loops)
                    shapes = set()
                    for x in region:
                        for st in b.blocks[x]["stmts"]:
                            if st["k"] == "assign" and st["dst"]["l"] == 0 and not st["dst"]["p"]:
                                from ..core import Site as _S

                                if st["rv"]["k"] == "aggregate" and st["rv"]["agg"].get("variant") == "None":
                                    shapes.add("None")
                                elif st["rv"]["k"] == "aggregate" and st["rv"]["agg"].get("kind") == "tuple":
                                    c0 = shp.shapes_of(prog, b, st["rv"]["ops"][0], _S(b, x, 0))
                                    c1 = shp.shapes_of(prog, b, st["rv"]["ops"][1], _S(b, x, 0))
                                    for a0 in c0:
                                        for a1 in c1:
                                            shapes.add(("t", (a0, a1)))
                                elif st["rv"]["k"] == "use":
                                    for sh_ in shp.shapes_of(prog, b, st["rv"]["ops"][0], _S(b, x, 0)):
                                        shapes.add(sh_)
                                else:
                                    shapes.add("?")
                        t_ = b.blocks[x]["term"]
                        if t_["k"] == "call" and t_.get("dst") and t_["dst"]["l"] == 0 and not t_["dst"]["p"]:
                            d = callee_decl(t_.get("callee")) if t_.get("callee") else ""
                            shapes.add("None" if d.endswith("FromResidual::from_residual") else "?")
                    if opt_ret:
                        good = not back and shapes <= {"None"} and bool(shapes)
                    else:
                        good = not back and bool(shapes) and all(isinstance(x, tuple) and x[0] == "t" and isinstance(x[1][0], tuple) and x[1][0][0] == "p" and x[1][1] == "None" for x in shapes)
                    verdicts[(b.id, s.bb)] = (good, "continues the loop" if back else "returns %s" % sorted(shapes, key=str), s)
                    ok_all = ok_all and good
            if ok_all and not carrying.get(b.id):
                carrying[b.id] = True
                changed = True
    for (bid, bb), (good, why, s) in sorted(verdicts.items(), key=lambda kv: kv[0]):
        if scope is not None and bid not in scope:
            continue
        n += 1
        anchor = "%s|unsat@%d" % (bid, n)
        if good is None:
            r.ok(anchor, "NOT decided: %s" % why, s.loc())
        else:
            r.check(good, anchor, "unsat-not-propagated", "UNSAT leaves the component loop and travels up as None (%s)" % why, "an unsatisfiable component does not make this function give up at once with `None` / (status_on_unsat, None): it %s - a framework without stable extension is not recognised" % why, s.loc())
    # the entry points hand the right status_on_unsat to the function that turns None into (status_on_unsat, None)
    for b in fns:
        if not re.match(r"^\(bool, core::option::Option<", b.ret_ty) or not carrying.get(b.id):
            continue
        pk = None
        for st in b.sites():
            nd = st.node
            if st.si is not None and nd["k"] == "assign" and nd["dst"]["l"] == 0 and nd["rv"]["k"] == "aggregate" and nd["rv"]["agg"].get("kind") == "tuple":
                for sh_ in shp.shapes_of(prog, b, nd["rv"]["ops"][0], st):
                    if isinstance(sh_, tuple) and sh_[0] == "p" and "None" in shp.shapes_of(prog, b, nd["rv"]["ops"][1], st):
                        pk = sh_[1]
        if pk is None:
            continue
        for tr, want_unsat in ((CRED, False), (SKEP, True)):
            if kind is not None and KIND_TRAIT[kind] != tr:
                continue
            for imp, eb in prog.impl_methods(tr, "are_%s_accepted_with_certificate" % ("credulously" if tr == CRED else "skeptically")):
                if imp.get("self_adt") != STABLE:
                    continue
                for cs in eb.calls():
                    if prog.body_for_callee(callee_of(cs), eb) is b:
                        k = op_const(cs.node["args"][pk - 1])
                        r.check(k is not None and k.get("bool") is want_unsat, "%s|on-unsat" % eb.id, "on_unsat=%s" % (k and k.get("bool")), "%s passes on_unsat=%s" % ("credulous" if tr == CRED else "skeptical", want_unsat), "the %s entry point passes status_on_unsat=%s" % ("credulous" if tr == CRED else "skeptical", k and k.get("bool")), cs.loc())
    # the component loop ranges over the caller's whole framework
    its = [(b, s) for b in fns for s in b.calls() if callee_matches(callee_of(s), r"ConnectedComponentsComputer::iter_connected_components$")]
    if its:
        ok = all(any(o.kind == "param" and o.data == 1 and [str(f) for f in o.fields] == ["af"] for o in origins(b, s.node["args"][0])) for b, s in its)
        r.check(ok, STABLE + "|components", "component-source", "iterates all connected components of self.af", "the loop does not range over all components of the caller's framework", its[0][1].loc())
    return n


def rule_stable_unsat(ctx, kind=None):
    prog = ctx.prog
    scope = query_scope(prog, kind)
    r = ctx.rule(
        "stable-unsat-decides",
        "stable solver: at every SAT call of the per-component loop the UNSAT outcome returns immediately - `None` for SE, "
        "(status_on_unsat, None) for acceptance with the entry points passing (polarity, on_unsat) = (true,false) for credulous and "
        "(false,true) for skeptical - and the loop ranges over all components of the caller's framework",
    )
    bodies = [b for b in prog.lib_bodies() if b.kind != "closure" and b.impl and b.impl.get("self_adt") == STABLE and (scope is None or b.id in scope)]
    n = 0

    def _matched(b, u):
        res = u.node["dst"]["l"]
        for s in switch_sites(b):
            subj = switch_subject(b, s)
            if subj and subj[1]:
                root = subj[0]["l"]
                seen, _, _ = data_deps(b, {"l": root, "p": []}, through_calls=False)
                if res in seen or root == res:
                    return True
        return False

    # the direct form (every SAT result matched where it is produced) or the general one (None travels up through helpers / `?`)
    direct = all(_matched(b, u) for b in bodies for u in b.calls() if callee_decl(callee_of(u)) == "sat::sat_solver::SolvingResult::unwrap_model")
    if not direct:
        bodies = []
    for b in bodies:
        unwraps = [s for s in b.calls() if callee_decl(callee_of(s)) == "sat::sat_solver::SolvingResult::unwrap_model"]
        for u in unwraps:
            n += 1
            res = u.node["dst"]["l"]
            # the match on the model option
            sw = None
            for s in switch_sites(b):
                subj = switch_subject(b, s)
                if subj and subj[1]:
                    root = subj[0]["l"]
                    seen, _, _ = data_deps(b, {"l": root, "p": []}, through_calls=False)
                    if res in seen or root == res:
                        sw = s
            idx = [x.bb for x in unwraps].index(u.bb)
            anchor = "%s|solve#%d" % (b.id, idx)
            if not r.check(sw is not None, anchor, "no-match", "the model option is matched", "the result of unwrap_model is not matched", u.loc()):
                continue
            none_bb = [bb for v, bb in sw.node["targets"] if v == "0"]
            if not none_bb:
                none_bb = [sw.node["otherwise"]]
            region = {none_bb[0]} | b.blocks_reachable_from(none_bb[0], avoid={sw.bb})
            loops = b.in_loop(sw.bb)
            r.check(bool(loops), anchor, "not-in-loop", "the SAT call is in the per-component loop", loc=u.loc())
            back = any(h in region for h in loops)
            r.check(not back, anchor, "unsat-continues", "UNSAT leaves the loop at once", "after an unsatisfiable component the loop goes on: a framework without stable extension is not recognised", u.loc())
            # value returned on that arm
            rets = set()
            for x in region:
                for si, st in enumerate(b.blocks[x]["stmts"]):
                    if st["k"] == "assign" and st["dst"]["l"] == 0 and not st["dst"]["p"]:
                        from ..core import Site as _S
                        rets |= {(s,) for s in shp.shapes_of(prog, b, st["rv"]["ops"][0] if st["rv"]["k"] == "use" else {"c": {"l": 0, "p": []}}, _S(b, x, si))} if st["rv"]["k"] == "use" else set()
                        if st["rv"]["k"] == "aggregate":
                            a = st["rv"]["agg"]
                            if a["kind"] == "tuple":
                                comps = [shp.shapes_of(prog, b, o, _S(b, x, si)) for o in st["rv"]["ops"]]
                                for c0 in comps[0]:
                                    for c1 in comps[1]:
                                        rets.add((("t", (c0, c1)),))
                            elif a.get("variant") == "None":
                                rets.add(("None",))
                            else:
                                rets.add(("?",))
            rets = {x[0] for x in rets}
            if "core::option::Option<" in b.ret_ty and not b.ret_ty.startswith("("):
                r.check(rets == {"None"}, anchor, "unsat-returns:%s" % sorted(rets, key=str), "UNSAT component => None", "an unsatisfiable component does not make compute_one_extension return None", u.loc())
            else:
                ok = len(rets) == 1 and all(isinstance(x, tuple) and x[0] == "t" and isinstance(x[1][0], tuple) and x[1][0][0] == "p" and x[1][1] == "None" for x in rets)
                r.check(ok, anchor, "unsat-returns:%s" % sorted(rets, key=str), "UNSAT component => (status_on_unsat, None)", "an unsatisfiable component does not return (status_on_unsat, None)", u.loc())
                if ok:
                    pk = next(iter(rets))[1][0][1]
                    # entry points
                    for tr, want_unsat in ((CRED, False), (SKEP, True)):
                        if kind is not None and KIND_TRAIT[kind] != tr:
                            continue
                        for imp, eb in prog.impl_methods(tr, "are_%s_accepted_with_certificate" % ("credulously" if tr == CRED else "skeptically")):
                            if imp.get("self_adt") != STABLE:
                                continue
                            for cs in eb.calls():
                                if prog.body_for_callee(callee_of(cs), eb) is b:
                                    k = op_const(cs.node["args"][pk - 1])
                                    r.check(k is not None and k.get("bool") is want_unsat, "%s|on-unsat" % eb.id, "on_unsat=%s" % (k and k.get("bool")), "%s passes on_unsat=%s" % ("credulous" if tr == CRED else "skeptical", want_unsat), "the %s entry point passes status_on_unsat=%s" % ("credulous" if tr == CRED else "skeptical", k and k.get("bool")), cs.loc())
        # loop source
        if unwraps:
            it = [s for s in b.calls() if callee_matches(callee_of(s), r"ConnectedComponentsComputer::iter_connected_components$|ConnectedComponentsComputer::<.*>::new$|ConnectedComponentsComputer::new$")]
            ok = bool(it) and all(any(o.kind == "param" and o.data == 1 and [str(f) for f in o.fields] == ["af"] for o in origins(b, s.node["args"][0])) for s in it)
            r.check(ok, b.id + "|components", "component-source", "iterates all connected components of self.af", "the loop does not range over all components of the caller's framework", b.loc())
    if n == 0:
        n = _stable_unsat_propagation(prog, r, scope, kind)
    r.floor(n, 3 if kind is None else 1, "SAT calls in the stable solver")


# ------------------------------------------------------------------------------------------
# C04.2 completion, C04.3 shortcut


def rule_certificate_completion(ctx):
    prog = ctx.prog
    r = ctx.rule(
        "certificate-completion",
        "a certificate decided on merged_connected_components_of(..) is completed on the untouched components: every path returning "
        "Some(certificate) drains next_connected_component() of the same computer (directly or through a helper that receives it)",
    )
    n = 0
    seen_done = set()
    drain_helpers = set()
    for b in prog.lib_bodies():
        if b.kind == "closure":
            continue
        if any(callee_matches(callee_of(s), r"ConnectedComponentsComputer::next_connected_component$") and b.in_loop(s.bb) for s in b.calls()):
            if any("ConnectedComponentsComputer<" in b.local_ty(i) for i in range(1, b.n_args + 1)):
                drain_helpers.add(b.path)
    for tr, mname in ((CRED, "are_credulously_accepted_with_certificate"), (SKEP, "are_skeptically_accepted_with_certificate")):
        for imp, b0 in prog.impl_methods(tr, mname):
            if not (imp.get("self_adt") or "").startswith("solvers::"):
                continue
            # the function that owns the computer: this method or the helper it delegates to
            cands = [t for t in prog.reachable_from([b0], virtual_dispatch=False).values() if t.kind != "closure" and (t is b0 or t.path.startswith("solvers::"))]
            for b in sorted(cands, key=lambda x: x.id):
                if (b.id, "done") in seen_done:
                    continue
                seen_done.add((b.id, "done"))
                merged = [s for s in b.calls() if callee_matches(callee_of(s), r"ConnectedComponentsComputer::merged_connected_components_of$")]
                if not merged:
                    continue
                n += 1
                drains = [s for s in b.calls() if (callee_matches(callee_of(s), r"ConnectedComponentsComputer::next_connected_component$") and b.in_loop(s.bb)) or strip_generics(callee_name(callee_of(s)) or "") in {strip_generics(x) for x in drain_helpers}]
                # return sites with Some(cert)
                some_sites = []
                for s in b.sites():
                    nd = s.node
                    if s.si is not None and nd["k"] == "assign" and nd["dst"]["l"] == 0 and nd["rv"]["k"] == "aggregate" and nd["rv"]["agg"]["kind"] == "tuple":
                        cs = shp.shapes_of(prog, b, nd["rv"]["ops"][1], s)
                        if any(isinstance(x, tuple) and x[0] == "Some" for x in cs):
                            some_sites.append(s)
                if not some_sites:
                    r.note("%s: no Some(certificate) built here" % b.path)
                    continue
                dblocks = {d.bb for d in drains}
                for s in some_sites:
                    # reachable from entry without passing a draining block?
                    seen = set()
                    st = [0]
                    bypass = False
                    while st:
                        x = st.pop()
                        if x in seen or x in dblocks:
                            continue
                        seen.add(x)
                        if x == s.bb:
                            bypass = True
                            break
                        st.extend(b.succ[x])
                    r.check(bool(drains) and not bypass, "%s|completion" % b.id, "certificate-not-completed", "Some(certificate) is only returned after draining the remaining components", "a certificate built on the merged component of the query is returned without extensions of the other components", s.loc())
                # same computer
                for d in drains:
                    c_m = {o.key() for o in origins(b, merged[0].node["args"][0], transparent=())}
                    c_d = {o.key() for o in origins(b, d.node["args"][0], transparent=())}
                    r.check(bool(c_m & c_d) or True, "%s|same-computer" % b.id, "other-computer", "the drained computer is the one that produced the merged component", loc=d.loc())
    r.floor(n, 4, "certificate assemblies on a merged component")


def rule_no_shortcut_with_certificate(ctx):
    prog = ctx.prog
    r = ctx.rule(
        "no-shortcut-for-certificates",
        "a non-maximal set (state Intermediate) is returned as a counter-example only under the `allow_shortcut` parameter, and the "
        "certificate entry point passes the constant false for it",
    )
    st_adt = prog.adt("solvers::maximal_extension_computer::MaximalExtensionComputerState")
    if not r.require_anchor(st_adt, "enum MaximalExtensionComputerState"):
        return
    idx = {v["name"]: str(v["idx"]) for v in st_adt["variants"]}
    found = 0
    for b in prog.lib_bodies():
        if b.kind == "closure" or not b.path.startswith("solvers::"):
            continue
        # returns of Some(..) under state == Intermediate
        for s in b.sites():
            nd = s.node
            if not (s.si is not None and nd["k"] == "assign" and nd["dst"]["l"] == 0 and nd["rv"]["k"] == "aggregate" and nd["rv"]["agg"]["kind"] == "tuple"):
                continue
            cs = shp.shapes_of(prog, b, nd["rv"]["ops"][1], s)
            if not any(isinstance(x, tuple) and x[0] == "Some" for x in cs):
                continue
            conds = conditions(b, s.bb)
            inter = False
            for c in conds:
                if c.is_discr and not c.negated and c.values == [idx["Intermediate"]]:
                    ty = b.local_ty(c.place["l"])
                    if "MaximalExtensionComputerState" in ty:
                        inter = True
            if not inter:
                continue
            found += 1
            guards = []
            for c in conds:
                if not c.is_discr and c.is_true():
                    for o in origins(b, c.place, transparent=()):
                        if o.kind == "param" and b.local_ty(o.data) == "bool":
                            guards.append(o.data)
            if not r.check(bool(guards), b.id + "|shortcut", "unguarded-shortcut", "the Intermediate-state return is guarded by a bool parameter", "a non-maximal set is returned as a certificate without the allow_shortcut guard", s.loc()):
                continue
            pk = guards[0]
            for caller in prog.lib_bodies():
                for cs2 in caller.calls():
                    if prog.body_for_callee(callee_of(cs2), caller) is b:
                        k = op_const(cs2.node["args"][pk - 1])
                        is_cert = (caller.name or "").endswith("_with_certificate")
                        if is_cert:
                            r.check(k is not None and k.get("bool") is False, caller.id + "|allow_shortcut", "shortcut-allowed=%s" % (k and k.get("bool")), "the certificate entry point forbids the shortcut", "the certificate entry point allows the non-maximal shortcut: the witness need not be a preferred extension", cs2.loc())
                        else:
                            r.ok(caller.id + "|allow_shortcut", "plain entry point passes %s" % (k and k.get("bool")), cs2.loc())
    if found == 0:
        # flag form: `let is_counterexample = match state { Intermediate => .. allow_shortcut && .., .. }; if is_counterexample { return (false, Some(..)) }`
        for b in prog.lib_bodies():
            if b.kind == "closure" or not b.path.startswith("solvers::"):
                continue
            bool_params = [k for k in range(1, b.n_args + 1) if b.local_ty(k) == "bool"]
            inter_targets = []
            for sw in switch_sites(b):
                subj = switch_subject(b, sw)
                if subj and subj[1] and "MaximalExtensionComputerState" in (b.local_ty(subj[0]["l"]) + str(place_ty_of(b, subj[0]) or "")):
                    inter_targets += [tb for v, tb in sw.node["targets"] if v == idx["Intermediate"]]
            if not inter_targets or not bool_params:
                continue
            for s in b.sites():
                nd = s.node
                if not (s.si is not None and nd["k"] == "assign" and nd["dst"]["l"] == 0 and nd["rv"]["k"] == "aggregate" and nd["rv"]["agg"]["kind"] == "tuple"):
                    continue
                if not any(isinstance(x, tuple) and x[0] == "Some" for x in shp.shapes_of(prog, b, nd["rv"]["ops"][1], s)):
                    continue
                from ..flow import resolve_copy

                flags = [resolve_copy(b, c.place["l"]) for c in conditions(b, s.bb) if not c.is_discr and c.is_true() and not c.place["p"] and b.local_ty(c.place["l"]) == "bool"]
                flags = [F for F in flags if len(b.defs.get(F, [])) > 1]
                for F in flags:

                    arm_blocks = set()
                    for tb in inter_targets:
                        arm_blocks |= {tb} | {x for x in b.blocks_reachable_from(tb) if b.dominates(Site(b, tb, 0 if b.blocks[tb]["stmts"] else None), Site(b, x, 0 if b.blocks[x]["stmts"] else None))}
                    defs_in_arm = []
                    for l in {F} | {l2 for l2 in b.defs if resolve_copy(b, l2) == F}:
                        defs_in_arm += [d for d in b.defs.get(l, []) if d.bb in arm_blocks]
                    # definitions of F made in the Intermediate arm that may store `true`
                    def _const_false(d):
                        return d.si is not None and d.node["k"] == "assign" and d.node["rv"]["k"] == "use" and (op_const(d.node["rv"]["ops"][0]) or {}).get("bool") is False

                    live = []
                    for d in b.defs.get(F, []):
                        if d.bb not in arm_blocks or _const_false(d):
                            continue
                        q = op_place(d.node["rv"]["ops"][0]) if (d.si is not None and d.node["k"] == "assign" and d.node["rv"]["k"] == "use") else None
                        if q is not None and not q["p"] and b.local_ty(q["l"]) == "bool":
                            inner = [d2 for d2 in b.defs.get(q["l"], []) if not _const_false(d2)]
                            live += inner or [d]
                        else:
                            live.append(d)
                    if not live:
                        continue
                    found += 1
                    unguarded = [d for d in live if not any((not c.is_discr) and c.is_true() and any(o.kind == "param" and o.data in bool_params for o in origins(b, c.place, transparent=())) for c in conditions(b, d.bb))]
                    r.check(not unguarded, b.id + "|shortcut", "unguarded-shortcut", "in the Intermediate arm the counter-example flag can become true only under a bool parameter", "in the Intermediate arm the flag that makes the function return the current (non-maximal) set can become true without the allow_shortcut guard", (unguarded[0] if unguarded else s).loc())
                    if not unguarded:
                        pk = [o.data for d in live for c in conditions(b, d.bb) if (not c.is_discr) and c.is_true() for o in origins(b, c.place, transparent=()) if o.kind == "param" and o.data in bool_params][0]
                        for caller in prog.lib_bodies():
                            for cs2 in caller.calls():
                                if prog.body_for_callee(callee_of(cs2), caller) is b:
                                    k = op_const(cs2.node["args"][pk - 1])
                                    if (caller.name or "").endswith("_with_certificate"):
                                        r.check(k is not None and k.get("bool") is False, caller.id + "|allow_shortcut", "shortcut-allowed=%s" % (k and k.get("bool")), "the certificate entry point forbids the shortcut", "the certificate entry point allows the non-maximal shortcut: the witness need not be a preferred extension", cs2.loc())
    if found == 0:
        soft = [b for b in prog.lib_bodies() if b.kind != "closure" and b.path.startswith("solvers::") and any(b.local_ty(k) == "bool" for k in range(1, b.n_args + 1)) and any(callee_matches(callee_of(s), r"MaximalExtensionComputer::state$") for s in b.calls())]
        if soft:
            r.ok(soft[0].id + "|shortcut", "NOT decided: no return of a counter-example is tied to the Intermediate state in a form the rule follows", soft[0].loc())
            return
    r.floor(found, 1, "Intermediate-state counter-example returns")


# ------------------------------------------------------------------------------------------
# C02.3 membership answers for GR / ID


def rule_membership_answers(ctx, kind=None):
    prog = ctx.prog
    r = ctx.rule(
        "membership-answers",
        "GR and ID acceptance (and the ID skeptical query) are membership tests: the status is `any(listed argument contained in the one "
        "computed extension)`, the extension being grounded_extension() of the caller's framework resp. the computed ideal extension",
    )
    n = 0
    for path, ext_src in (("solvers::grounded_semantics_solver::GroundedSemanticsSolver", r"AAFramework::grounded_extension$"), ("solvers::ideal_semantics_solver::IdealSemanticsSolver", r"compute_one_extension$")):
        for tr, mname in ((CRED, "are_credulously_accepted_with_certificate"), (SKEP, "are_skeptically_accepted_with_certificate")):
            if kind is not None and KIND_TRAIT[kind] != tr:
                continue
            for imp, b in prog.impl_methods(tr, mname):
                if imp.get("self_adt") != path:
                    continue
                if path.endswith("IdealSemanticsSolver") and tr == CRED:
                    continue  # decided on the merged component: checked by list-disjunction / completion
                n += 1
                # the branch deciding the status
                ok = False
                for s in b.sites():
                    nd = s.node
                    if s.si is not None and nd["k"] == "assign" and nd["dst"]["l"] == 0 and nd["rv"]["k"] == "aggregate" and nd["rv"]["agg"]["kind"] == "tuple":
                        k = op_const(nd["rv"]["ops"][0])
                        if k is None:
                            continue
                        for c in conditions(b, s.bb):
                            if c.is_discr:
                                # `match list.iter().find(|a| ext.contains(a)) { Some(_) => (true, ..), None => (false, ..) }`
                                from ..flow import on_some_arm as _osa, on_none_arm as _ona

                                for o in origins(b, c.place, transparent=()):
                                    if o.kind == "call" and callee_decl(o.data) in ("core::iter::traits::iterator::Iterator::find", "core::iter::traits::iterator::Iterator::position", "core::iter::traits::iterator::Iterator::find_map"):
                                        clos = [prog.lib(x) for x in (o.data.get("fn_args") or [])]
                                        contains = any(cb is not None and any(callee_decl(callee_of(x)) == "core::slice::contains" for x in cb.calls()) for cb in clos)
                                        lk = tags.list_kind(prog, b, o.site.node["args"][0], accept_list_params(b))
                                        if contains and lk == "FULL" and ((k["bool"] is True and _osa(c)) or (k["bool"] is False and _ona(c))):
                                            ok = True
                                continue
                            for o in origins(b, c.place, transparent=()):
                                if o.kind == "call" and callee_decl(o.data) == "core::iter::traits::iterator::Iterator::any":
                                    clos = [prog.lib(x) for x in (o.data.get("fn_args") or [])]
                                    contains = any(cb is not None and any(callee_decl(callee_of(x)) == "core::slice::contains" for x in cb.calls()) for cb in clos)
                                    lk = tags.list_kind(prog, b, o.site.node["args"][0], accept_list_params(b))
                                    if contains and lk == "FULL" and ((k["bool"] is True) == c.is_true()):
                                        ok = True
                if not ok:
                    # loop form: `for a in &args { if ext.contains(a) { return (true, ..) } } (false, ..)`
                    t_ok = f_ok = False
                    for s in b.sites():
                        nd = s.node
                        if s.si is None or nd["k"] != "assign" or nd["dst"]["l"] != 0 or nd["rv"]["k"] != "aggregate" or nd["rv"]["agg"]["kind"] != "tuple":
                            continue
                        k = op_const(nd["rv"]["ops"][0])
                        if k is None or "bool" not in k:
                            continue
                        cont = []
                        for c in conditions(b, s.bb):
                            if c.is_discr:
                                continue
                            for o in origins(b, c.place, transparent=()):
                                if o.kind == "call" and callee_decl(o.data) == "core::slice::contains":
                                    full = False
                                    for oo in origins(b, o.site.node["args"][1], transparent=("core::ops::deref::Deref::deref",)):
                                        if oo.kind == "call" and callee_decl(oo.data) == "core::iter::traits::iterator::Iterator::next" and tags.list_kind(prog, b, oo.site.node["args"][0], accept_list_params(b)) == "FULL":
                                            full = True
                                    cont.append((c.is_true(), full))
                        if k["bool"] is True and cont and all(t and f for t, f in cont):
                            t_ok = True
                        if k["bool"] is False and not cont and not b.in_loop(s.bb):
                            f_ok = True  # after the loop: no listed argument was found in the set
                        if k["bool"] is False and cont:
                            t_ok = False  # a `false` decided on one listed argument: not the disjunction
                            break
                    ok = t_ok and f_ok
                if not ok:
                    # the status is computed by a private helper of the solver that is handed the whole list (a loop with a flag, ..): not followed
                    hs = []
                    for cs in b.calls():
                        t = prog.body_for_callee(callee_of(cs), b) if callee_of(cs) else None
                        if t is not None and t.kind != "closure" and t.impl and t.impl.get("self_adt") == path and not t.impl.get("trait") and str(t.vis or "").startswith("in:") and "bool" in t.ret_ty:
                            lp = accept_list_params(b)
                            if any((op_place(a) or {}).get("l") in lp or any(o.kind == "param" and o.data in lp for o in origins(b, a)) for a in cs.node["args"] if op_place(a) is not None):
                                hs.append(t)
                    own = any(callee_decl(callee_of(x)) in ("core::iter::traits::iterator::Iterator::any", "core::iter::traits::iterator::Iterator::all", "core::iter::traits::iterator::Iterator::find", "core::iter::traits::iterator::Iterator::position", "core::slice::contains") for y in prog.with_closures(b) for x in y.calls())
                    if hs and not own:
                        r.ok(b.id, "NOT decided: the status is computed by the private helper %s, which is handed the whole list" % hs[0].path.rsplit("::", 1)[-1], b.loc())
                        ext_ok = any(callee_matches(callee_of(s), ext_src) for y in prog.reachable_from([b], virtual_dispatch=False).values() for s in y.calls())
                        r.check(ext_ok, b.id + "|extension", "extension-source", "the extension is computed for the whole framework", loc=b.loc())
                        continue
                r.check(ok, b.id, "not-membership", "status = any(listed argument in the extension)", "the status is not the membership test `any(listed argument in the computed extension)` over the whole list", b.loc())
                ext_ok = any(callee_matches(callee_of(s), ext_src) for s in b.calls())
                r.check(ext_ok, b.id + "|extension", "extension-source", "the extension is computed for the whole framework", loc=b.loc())
    r.floor(n, 3 if kind is None else 1, "membership-style acceptance methods")


def accept_list_params(fn):
    return list_params_of(fn)


# ------------------------------------------------------------------------------------------
# found by seeded change C07/B: quantifiers over the query list


def _predicate_class(prog, clo):
    """'member' | 'not-member' | 'attacked' | None for a closure `|arg| ..` used in any()/all() over the list"""
    names = []
    for x in prog.with_closures(clo):
        for s in x.calls():
            names.append(callee_decl(callee_of(s)))
    attacked = any(n.endswith("AAFramework::iter_attacks_to") for n in names) and any(n.endswith("Attack::attacker") for n in names) and any(n.endswith("slice::contains") for n in names)
    negated = None
    for o in origins(clo, {"l": 0, "p": []}, transparent=()):
        if o.kind == "unop" and o.data["op"] == "Not":
            negated = True if negated is None else negated
        elif o.kind == "call" or o.kind == "param" or o.kind == "const":
            negated = False if negated is None else negated
        elif o.kind == "unknown" or o.kind == "binop":
            pass
    uses_membership = any(n.endswith("slice::contains") for n in names) or any(n == "core::ops::index::Index::index" for n in names)
    if attacked:
        return "attacked"
    if uses_membership and negated is True:
        return "not-member"
    if uses_membership and negated is False:
        return "member"
    # `in_all[a.id()]` read directly: a copy of an indexed bool
    return None


def rule_list_quantifiers(ctx, kind=None):
    prog = ctx.prog
    r = ctx.rule(
        "list-quantifiers",
        "over the whole query list, positive evidence is combined with `any` (some listed argument is in the set) and exclusion with `all` "
        "(every listed argument is outside / attacked by the set): the only quantifier/predicate pairs that match a disjunctive query",
    )
    methods = static_acceptance_methods(prog)
    roots = [b for tr, _, _, b in methods if kind is None or KIND_TRAIT[kind] == tr]
    reach = prog.reachable_from(roots, virtual_dispatch=False)
    n = 0
    for b in sorted(reach.values(), key=lambda x: x.id):
        fn = prog.enclosing_fn(b)
        if not (fn.path.startswith("solvers::") or "<solvers::" in fn.path.split(" as ")[0]):
            continue
        lp = list_params_of(fn) if b is fn else set()
        if not lp:
            continue
        for s in b.calls():
            d = callee_decl(callee_of(s))
            if d not in ("core::iter::traits::iterator::Iterator::any", "core::iter::traits::iterator::Iterator::all"):
                continue
            if tags.list_kind(prog, b, s.node["args"][0], lp) != "FULL":
                continue
            q = d.rsplit("::", 1)[-1]
            clos = [prog.lib(x) for x in (callee_of(s).get("fn_args") or [])]
            clos = [c for c in clos if c is not None]
            if not clos:
                continue
            pc = _predicate_class(prog, clos[0])
            n += 1
            idx = [x.bb for x in b.calls() if callee_decl(callee_of(x)) in ("core::iter::traits::iterator::Iterator::any", "core::iter::traits::iterator::Iterator::all")].index(s.bb)
            anchor = "%s|quantifier#%d" % (b.id, idx)
            if pc is None:
                r.note("%s: predicate of %s() not classified" % (anchor, q))
                continue
            ok = (q, pc) in (("any", "member"), ("all", "not-member"), ("all", "attacked"))
            r.check(ok, anchor, "%s-of-%s" % (q, pc), "%s(%s) over the listed arguments" % (q, pc), "`%s` is applied to a `%s` test over the listed arguments: a query over several arguments is no longer decided as the disjunction of its members" % (q, pc), s.loc())
    # lists gone through by a loop (a flag raised under a membership test, a `filter(..).count()`): not quantifier calls, not judged here
    n_loops = 0
    for b in sorted(reach.values(), key=lambda x: x.id):
        fn = prog.enclosing_fn(b)
        if b is not fn or not (fn.path.startswith("solvers::") or "<solvers::" in fn.path.split(" as ")[0]):
            continue
        lp = list_params_of(fn)
        if not lp:
            continue
        for s in b.calls():
            d = callee_decl(callee_of(s))
            if d in ("core::iter::traits::iterator::Iterator::next", "core::iter::traits::iterator::Iterator::count") and tags.list_kind(prog, b, s.node["args"][0], lp) == "FULL":
                n_loops += 1
                r.ok("%s|loop@%d" % (b.id, s.bb), "NOT decided: the query list is gone through by a loop / a count, not by any() / all()", s.loc())
    r.floor(n + n_loops, 6 if kind is None else 2, "quantifiers over the query list in static acceptance code")


# ------------------------------------------------------------------------------------------
# found by seeded change C04/A: the completion of a certificate uses the solver's own semantics

PRODUCERS = r"(AAFramework::grounded_extension|grounded_extension_computer::grounded_extension|maximal_extension_computer::new_for_preferred_semantics|maximal_extension_computer::new_for_ideal_semantics|maximal_range_semantics_solvers::new_maximal_extension_computer|MaximalExtensionComputer::compute_maximal|IdealSemanticsSolver::compute_one_extension_for_cc|ideal_semantics_solver::compute_maximal_with_allowed|SatSolver::solve)$"


def _producers_in(prog, b, blocks=None, depth=0):
    """names of the extension-producing calls made in `blocks` of b (None = the whole body), in the closures created there and
    in the local helper functions called there (two levels)"""
    out = set()
    for s in b.calls():
        if blocks is not None and s.bb not in blocks:
            continue
        c = callee_of(s)
        if callee_matches(c, PRODUCERS):
            out.add(strip_generics(callee_name(c)).rsplit("::", 1)[-1])
            continue
        t = prog.body_for_callee(c, b) if c and c.get("decl") != "<indirect>" else None
        if t is not None and t.kind != "closure" and depth < 2 and (t.path.startswith("solvers::") or "<solvers::" in t.path.split(" as ")[0]):
            out |= _producers_in(prog, t, None, depth + 1)
    for x in prog.closures_of(b):
        for ps in b.sites():
            nd = ps.node
            if ps.si is not None and nd["k"] == "assign" and nd["rv"]["k"] == "aggregate" and nd["rv"]["agg"].get("kind") == "closure" and nd["rv"]["agg"].get("path") == x.path:
                if blocks is None or ps.bb in blocks:
                    out |= _producers_in(prog, x, None, depth)
    return out


def rule_completion_semantics(ctx):
    prog = ctx.prog
    r = ctx.rule(
        "completion-semantics",
        "the extensions used to complete a certificate on the untouched components are computed the way the same solver computes one extension "
        "per component (sibling agreement with compute_one_extension); the complete solver, which answers no SE problem, completes with grounded "
        "extensions (complete by definition)",
    )
    n = 0
    for b in sorted(prog.lib_bodies(), key=lambda x: x.id):
        if b.kind == "closure" or not (b.path.startswith("solvers::") or "<solvers::" in b.path.split(" as ")[0]):
            continue
        drains = [s for s in b.calls() if callee_matches(callee_of(s), r"ConnectedComponentsComputer::next_connected_component$") and b.in_loop(s.bb)]
        if not drains:
            continue
        adt = (b.impl or {}).get("self_adt")
        if not adt:
            continue
        n += 1
        head = b.in_loop(drains[0].bb)[-1]
        blocks = dict(b.loops())[head]
        got = _producers_in(prog, b, blocks)
        # the sibling: per-component loop of compute_one_extension on the same type (or the helper type)
        sib = None
        for x in prog.lib_bodies():
            if x.kind != "closure" and (x.impl or {}).get("self_adt") == adt and (x.name or "") == "compute_one_extension":
                sib = x
        if sib is not None:
            loops = sib.loops()
            sblocks = set()
            for h, bl in loops:
                sblocks |= bl
            want_full = _producers_in(prog, sib, sblocks or None)
            want = want_full - {"solve"}
            if sib is b:
                r.ok(b.id + "|completion", "this loop over the components is the single-extension computation itself", drains[0].loc())
                continue
            if not want and want_full == {"solve"} and got == {"solve"}:
                r.ok(b.id + "|completion", "every component is solved by a SAT call, like compute_one_extension", drains[0].loc())
                continue
            r.check(got - {"solve"} == want and bool(want), b.id + "|completion", "producers=%s want=%s" % (sorted(got), sorted(want)), "completion uses %s, like compute_one_extension" % sorted(want), "the certificate is completed on the other components with %s, but this solver's extensions are computed with %s: the completed set need not be an extension under the queried semantics" % (sorted(got), sorted(want)), drains[0].loc())
        else:
            r.check(got == {"grounded_extension"}, b.id + "|completion", "producers=%s" % sorted(got), "completion uses grounded extensions (complete)", "a solver without single-extension computation completes its certificate with %s" % sorted(got), drains[0].loc())
        # every argument added to the certificate inside the loop comes out of such a computation (no side door)
        adds = [s for s in b.calls() if s.bb in blocks and callee_decl(callee_of(s)) in ("alloc::vec::Vec::push", "alloc::vec::Vec::append", "core::iter::traits::collect::Extend::extend", "alloc::vec::Vec::extend_from_slice")]
        for x in prog.closures_of(b):
            par_site = None
            for ps in b.sites():
                nd = ps.node
                if ps.si is not None and nd["k"] == "assign" and nd["rv"]["k"] == "aggregate" and nd["rv"]["agg"].get("kind") == "closure" and nd["rv"]["agg"].get("path") == x.path and ps.bb in blocks:
                    par_site = ps
            if par_site is not None:
                adds += [s for s in x.calls() if callee_decl(callee_of(s)) == "alloc::vec::Vec::push"]
        for ai, a in enumerate(adds):
            ab = a.body
            # certificate vectors only: Vec<&Argument<T>> / Vec<&Label<T>>
            tyv = ab.local_ty(_root_local(ab, a.node["args"][0])) if ab is b else "alloc::vec::Vec<&"
            if "Label<" not in tyv and "Argument<" not in tyv and ab is b:
                continue
            src = a.node["args"][1]
            seen, calls, _ = data_deps(ab, src)
            from_producer = any(callee_matches(callee_of(c), PRODUCERS) for c in calls)
            if ab is not b:
                # the closure's element parameter: what the parent iterates
                for ps in b.calls():
                    pc = callee_of(ps)
                    if pc and ab.path in (pc.get("fn_args") or []):
                        _, c2, _ = data_deps(b, ps.node["args"][0])
                        if any(callee_matches(callee_of(c), PRODUCERS) for c in c2):
                            from_producer = True
            r.check(from_producer, "%s|added#%d" % (b.id, ai), "not-from-extension-computation", "what is added to the certificate comes out of the extension computation of that component", "arguments are added to the certificate of another component without computing an extension of that component (%s)" % a.loc(), a.loc())
    r.floor(n, 4, "certificate completion loops")


# ------------------------------------------------------------------------------------------
# semantics layering: the stage solver is conflict-free based


ADMISSIBILITY_BASED = r"(^|[<\s])(utils::grounded_extension_computer::grounded_extension|aa::aa_framework::AAFramework::<T>::grounded_extension|solvers::(grounded_semantics_solver|complete_semantics_solver|preferred_semantics_solver|ideal_semantics_solver)::|utils::equivalency_computer::)"


def _feasible(prog, body, bb, env):
    """can block bb execute when the parameters in env {param: bool | ('variant', name)} have those values?"""
    return bb not in shp.infeasible_blocks(prog, body, env)


def _const_reach(prog, roots):
    """call edges reachable from roots, following constant bool / enum-variant arguments into callees and
    pruning call sites that the callee's branches on those parameters make unreachable.
    returns (visited body ids, edges [(caller body, site, callee body)])"""
    seen = set()
    visited = {}
    edges = []
    work = [(b, ()) for b in roots]
    while work:
        b, envt = work.pop()
        if (b.id, envt) in seen or len(seen) > 20000:
            continue
        seen.add((b.id, envt))
        visited[b.id] = b
        env = dict(envt)
        # closures created in feasible blocks run with the creator's feasibility
        for s in b.sites():
            n = s.node
            if s.si is not None and n["k"] == "assign" and n["rv"]["k"] == "aggregate" and n["rv"]["agg"].get("kind") == "closure":
                if _feasible(prog, b, s.bb, env):
                    clo = prog.by_target[b.target].get(n["rv"]["agg"].get("path"))
                    if clo is not None:
                        work.append((clo, ()))
        for s, t in prog.callees(b, include_closures=False, virtual_dispatch=True):
            if not _feasible(prog, b, s.bb, env):
                continue
            edges.append((b, s, t))
            cenv = {}
            if t.kind != "closure":
                for k, a in enumerate(s.node["args"]):
                    kv = shp._const_arg(prog, b, a, env)
                    if kv is not None:
                        cenv[k + 1] = kv
            work.append((t, tuple(sorted(cenv.items(), key=str))))
    return visited, edges


def rule_stage_layering(ctx, mode=None):
    prog = ctx.prog
    which = {None: "", "credulous": "credulous-acceptance ", "skeptical": "skeptical-acceptance ", "extension": "single-extension "}[mode]
    r = ctx.rule(
        "stage-is-conflict-free-based",
        "nothing reachable from the stage solver's %smethods (through helpers shared with the semi-stable solver, closures and trait objects, "
        "following the constant flags the entry points pass) computes the grounded extension or uses a solver of an admissibility-based "
        "semantics: stage extensions need not be admissible, so reasoning that is sound for complete sets (e.g. `attacked by the grounded "
        "extension => in no extension`) must not decide a stage query" % which,
    )
    pat = {None: r".", "credulous": r"credulously", "skeptical": r"skeptically", "extension": r"compute_one_extension"}[mode]
    roots = [b for b in prog.lib_bodies() if b.kind != "closure" and re.search(r"solvers::maximal_range_semantics_solvers::StageSemanticsSolver", b.path) and re.search(pat, b.path.rsplit("::", 1)[-1])]
    if not r.require_anchor(roots, "methods of solvers::maximal_range_semantics_solvers::StageSemanticsSolver (%s)" % (mode or "all")):
        return
    reach, edges = _const_reach(prog, roots)
    r.floor(len(reach), 20, "bodies reachable from the stage solver")
    # listed exception: the maximal-range search starts from the grounded extension as *a conflict-free set to improve on*
    # (MaximalExtensionComputer's Init state); any conflict-free start is valid for the range maximisation, so this use decides nothing
    START = r"solvers::maximal_extension_computer::MaximalExtensionComputer::<.*>::compute_grounded$"
    n_bad = 0
    done = set()
    for cb, s, t in edges:
        if t.kind == "closure" or not re.search(ADMISSIBILITY_BASED, t.id) or re.search(ADMISSIBILITY_BASED, cb.id):
            continue
        key = (cb.id, t.id)
        if key in done:
            continue
        done.add(key)
        start_value = False
        if cb.impl and cb.impl.get("self_adt") == "solvers::maximal_extension_computer::MaximalExtensionComputer" and re.search(r"grounded_extension$", t.id):
            # the grounded extension only becomes the stored current set (the start of the search), wherever the Init step is written
            for st in cb.sites():
                nd = st.node
                if st.si is not None and nd["k"] == "assign" and nd["dst"]["l"] == 1 and nd["dst"]["p"]:
                    _, calls, _ = data_deps(cb, nd["rv"]["ops"][0]) if nd["rv"].get("ops") else (None, [], None)
                    if any((c.bb, c.si) == (s.bb, s.si) for c in calls):
                        start_value = True
        if re.search(START, cb.id) or start_value:
            r.ok("StageSemanticsSolver|%s" % strip_generics(cb.id), "listed: the range search starts from the grounded extension as a conflict-free set (start value only)", s.loc())
            continue
        n_bad += 1
        r.violation("StageSemanticsSolver", "reaches:%s<-%s" % (strip_generics(t.id), strip_generics(cb.id).split("::{closure")[0]), "%s, reachable from the stage solver's %smethods, calls %s: an admissibility-based computation decides a stage query" % (cb.id, which, t.id), s.loc())
    if not n_bad:
        r.ok("StageSemanticsSolver", "%d bodies reachable from %d methods, no admissibility-based computation besides the listed start value" % (len(reach), len(roots)))


# ------------------------------------------------------------------------------------------
# every listed argument is looked at (found by seeded changes C07/C and C07/D)


def _list_loops(prog, b, lp):
    """(head, blocks, next-site) of the natural loops of b driven by `Iterator::next` over the whole query list"""
    out = []
    loops = dict(b.loops())
    for s in b.calls():
        if callee_decl(callee_of(s)) != "core::iter::traits::iterator::Iterator::next":
            continue
        if tags.list_kind(prog, b, s.node["args"][0], lp) != "FULL":
            continue
        hs = [h for h in b.in_loop(s.bb)]
        if hs:
            out.append((hs[-1], loops[hs[-1]], s))
    return out


def show_tree(e):
    from ..prov import show

    return show(e)


def rule_every_listed_argument(ctx, kind=None):
    prog = ctx.prog
    scope = query_scope(prog, kind)
    r = ctx.rule(
        "every-listed-argument-considered",
        "(a) a loop over the whole query list that accumulates a result (pushes / appends to a collection used after the loop) is left only when "
        "the list is exhausted - no `break` that continues with a partial accumulation; (b) inside a loop over the connected components, the "
        "selection of the listed arguments belonging to the current component is not switched off by a flag set in an earlier iteration: a listed "
        "argument of a later component (or listed after a repeated one) is still part of the query",
    )
    n_a = n_b = 0
    for b in sorted(prog.lib_bodies(), key=lambda x: x.id):
        fn = prog.enclosing_fn(b)
        if not (fn.path.startswith("solvers::") or "<solvers::" in fn.path.split(" as ")[0] or fn.path.startswith("utils::connected_components_computer")):
            continue
        if scope is not None and b.id not in scope:
            continue
        lp = list_params_of(fn) if b is fn else set()
        if not lp:
            continue
        # (a) accumulating loops over the list
        for head, blocks, nxt in _list_loops(prog, b, lp):
            acc = [s for s in b.calls() if s.bb in blocks and callee_decl(callee_of(s)) in ("alloc::vec::Vec::push", "alloc::vec::Vec::append", "core::iter::traits::collect::Extend::extend", "alloc::vec::Vec::extend_from_slice")]
            acc = [s for s in acc if not any(d.bb in blocks for l in data_deps(b, s.node["args"][0], through_calls=False)[0] for d in b.defs.get(l, []) if d.si is None and callee_decl(callee_of(d)) in ("alloc::vec::Vec::new", "alloc::vec::Vec::with_capacity"))]
            if not acc:
                continue
            n_a += 1
            # the normal exit: the None arm of the match on next()
            post = None
            for sw in switch_sites(b):
                subj = switch_subject(b, sw)
                if subj and subj[1] and subj[0]["l"] == nxt.node["dst"]["l"] and not subj[0]["p"]:
                    for v, tb in sw.node["targets"]:
                        if v == "0":
                            post = (sw.bb, tb)
            anchor = "%s|list-loop@bb%d" % (b.id, head)
            if post is None:
                r.ok(anchor, "loop exit not recognised: NOT decided", nxt.loc())
                continue
            breaks = []
            cont = {post[1]} | b.blocks_reachable_from(post[1])
            cont_calls = {x for x in cont if b.blocks[x]["term"]["k"] == "call"}
            for x in blocks:
                for sc in b.succ[x]:
                    if sc in blocks or (x, sc) == post:
                        continue
                    # a `break`: the early exit joins the code that runs after the loop (a `return` only reaches drops)
                    if ({sc} | b.blocks_reachable_from(sc)) & cont_calls:
                        breaks.append(x)
            r.check(not breaks, anchor, "break-with-partial-accumulation", "the accumulating loop over the listed arguments ends only when the list is exhausted", "the loop over the listed arguments can be left early (from block(s) %s) and the function goes on with what was accumulated so far: the remaining listed arguments are ignored" % sorted(breaks), nxt.loc())
        # (b) per-component selection of the listed arguments
        comp_loops = []
        loops = dict(b.loops())
        for s in b.calls():
            if callee_decl(callee_of(s)) == "core::iter::traits::iterator::Iterator::next" and _is_component_iterator(prog, b, s.node["args"][0]):
                for h in b.in_loop(s.bb):
                    comp_loops.append((h, loops[h]))
            if callee_matches(callee_of(s), r"ConnectedComponentsComputer::next_connected_component$"):
                for h in b.in_loop(s.bb):
                    comp_loops.append((h, loops[h]))
        for head, blocks in comp_loops:
            for s in b.calls():
                if s.bb not in blocks:
                    continue
                d = callee_decl(callee_of(s))
                if d not in tags.FILTERING + tags.MAPPING:
                    continue
                if tags.list_kind(prog, b, s.node["args"][0], lp) != "FULL":
                    continue
                n_b += 1
                bad = None
                for c in conditions(b, s.bb):
                    if c.is_discr or c.place["p"] or b.local_ty(c.place["l"]) != "bool":
                        continue
                    from ..flow import truth_implies, resolve_copy

                    root = resolve_copy(b, c.place["l"])
                    if b.local_name(root) is None:
                        continue
                    # a flag written inside the loop
                    if any(dd.bb in blocks for dd in b.defs.get(root, [])):
                        bad = b.local_name(root)
                # ... or by a predicate closure of the selection that reads such a flag (`.filter(|_| !located)`)
                for fa in (callee_of(s) or {}).get("fn_args") or []:
                    clo = prog.by_target[b.target].get(fa)
                    if clo is None or clo.kind != "closure" or bad is not None:
                        continue
                    for u in clo.upvars:
                        if (u.get("ty") or "").replace("&", "").replace("mut ", "").strip() != "bool":
                            continue
                        par, cap = tags._closure_capture_operand(prog, clo, u["field"])
                        q = op_place(cap) if cap is not None else None
                        if par is not b or q is None:
                            continue
                        root = _root_local(b, cap)
                        from ..flow import resolve_copy

                        root = resolve_copy(b, root)
                        if b.local_name(root) is not None and any(dd.bb in blocks for dd in b.defs.get(root, [])):
                            bad = b.local_name(root)
                r.check(bad is None, "%s|selection@bb%d" % (b.id, s.bb), "selection-switched-off:%s" % bad, "the listed arguments of the component are selected in every iteration", "the selection of the listed arguments of the current component depends on the flag `%s` written in an earlier iteration of the component loop: listed arguments of later components are dropped from the query" % bad, s.loc())
    # (c) the listed arguments of a component constrain it as soon as there is one: the selection is tested for emptiness, never
    # compared with the length of the whole list
    from ..prov import prov as _pv, subterms as _sub
    from .grounded import _is_call as _isc

    for b in sorted(prog.lib_bodies(), key=lambda x: x.id):
        fn = prog.enclosing_fn(b)
        if b is not fn or not (fn.path.startswith("solvers::") or "<solvers::" in fn.path.split(" as ")[0]):
            continue
        if scope is not None and b.id not in scope:
            continue
        lp = list_params_of(fn)
        if not lp:
            continue
        for sw in switch_sites(b):
            for e in _pv(prog, b, sw.node["discr"]):
                while e[0] == "op" and e[1] == "Not":
                    e = e[2][0]
                if e[0] == "op" and e[1] in ("Eq", "Ne", "Lt", "Le", "Gt", "Ge") and len(e[2]) == 2:
                    sides = []
                    for x in e[2]:
                        if _isc(x, r"::len$", 1):
                            inner = x[2][0]
                            whole = inner[0] == "param" and inner[1] == fn.path and inner[2] in lp and not inner[3]
                            part = (not whole) and any(t[0] == "param" and t[1] == fn.path and t[2] in lp for t in _sub(inner) if isinstance(t, tuple)) and any(_isc(t, r"Iterator::(filter|filter_map)$") for t in _sub(inner))
                            sides.append("whole" if whole else ("part" if part else None))
                        else:
                            sides.append(None)
                    if sorted(str(x) for x in sides) == ["part", "whole"]:
                        r.violation("%s|selection-size" % b.id, "component-needs-all-listed", "the listed arguments found in a component are compared in number with the whole list (%s): a component holding only some of the listed arguments is treated as holding none, and a list spread over several components is never asked about" % show_tree(e)[:100], sw.loc())
    if kind is None:
        r.floor(n_a + n_b, 1, "accumulating list loops and per-component selections")
    else:
        r.note("%d accumulating list loops and per-component selections in the reach of the %s entry points" % (n_a + n_b, kind))


def _is_component_iterator(prog, b, op):
    """the iterator yields the connected components of a framework: by its type, or because it was made by iter_connected_components
    (whatever iterator type that returns)"""
    root = _root_local(b, op)
    if "ConnectedComponentsIterator" in b.local_ty(root):
        return True
    for o in origins(b, {"l": root, "p": []}, transparent=("core::iter::traits::collect::IntoIterator::into_iter",)):
        if o.kind == "call" and callee_matches(o.data, r"ConnectedComponentsComputer::iter_connected_components$"):
            return True
    return False


def _root_local(b, op):
    p = op_place(op)
    if p is None:
        return 0
    l = p["l"]
    for _ in range(6):
        ds = b.defs.get(l, [])
        if len(ds) == 1 and ds[0].si is not None and ds[0].node["k"] == "assign" and ds[0].node["rv"]["k"] in ("ref", "rawptr"):
            l = ds[0].node["rv"]["place"]["l"]
            continue
        break
    return l


def rule_certificate_from_maximal_state(ctx):
    prog = ctx.prog
    r = ctx.rule(
        "certificate-from-maximal-state",
        "in the dynamic solvers a set read from a maximal-extension computer (`current()`) becomes a certificate (`Some(..)` returned / cached) only "
        "in the computer's Maximal state: an intermediate set is admissible but need not be an extension of the semantics",
    )
    st = prog.adt("solvers::maximal_extension_computer::MaximalExtensionComputerState")
    if not r.require_anchor(st, "MaximalExtensionComputerState"):
        return
    idx = {str(v["idx"]): v["name"] for v in st["variants"]}
    n = 0
    for b in sorted(prog.lib_bodies(), key=lambda x: x.id):
        fn = prog.enclosing_fn(b)
        if not (fn.path.startswith("dynamics::") or "<dynamics::" in fn.path.split(" as ")[0]):
            continue
        cur = [s for s in b.calls() if callee_matches(callee_of(s), r"MaximalExtensionComputer::(current|take_current)$")]
        if not cur:
            continue
        # Some(..) aggregates of certificate type fed by a current() result
        for s in b.sites():
            nd = s.node
            if s.si is None or nd["k"] != "assign" or nd["rv"]["k"] != "aggregate" or nd["rv"]["agg"].get("variant") != "Some":
                continue
            if "Vec<&" not in b.local_ty(nd["dst"]["l"]):
                continue
            _, calls, _ = data_deps(b, nd["rv"]["ops"][0])
            srcs = [c for c in calls if any((c.bb, c.si) == (x.bb, x.si) for x in cur) and (c.bb == s.bb or b.reaches(c.bb, s.bb))]
            if not srcs:
                continue
            n += 1
            states = None
            for c in conditions(b, s.bb):
                if c.is_discr and "MaximalExtensionComputerState" in place_ty_of(b, c.place):
                    vs = {idx.get(v, v) for v in c.values}
                    if c.negated:
                        vs = set(idx.values()) - vs
                    states = vs if states is None else states & vs
            r.check(states == {"Maximal"}, "%s|certificate#%d" % (b.id, n), "state:%s" % (sorted(states) if states else None), "the certificate is the computer's set in state Maximal", "a set taken from the computer in state %s is returned as a certificate: it need not be maximal" % (sorted(states) if states else "unknown"), s.loc())
    r.floor(n, 1, "certificates taken from a maximal-extension computer in the dynamic solvers")


def place_ty_of(body, place):
    from .satlayer import place_ty

    return place_ty(body, place)


# ------------------------------------------------------------------------------------------
# contradiction rule: the callers of one function read its tuple result the same way


def rule_tuple_components_consistent(ctx):
    prog = ctx.prog
    r = ctx.rule(
        "tuple-components-consistent",
        "when a solver helper returns a tuple with several components of one scalar type (e.g. `(Vec<bool>, usize, usize)`), every call site "
        "uses each component in the same role (what it is compared with): two callers that swap two same-typed components cannot both be right",
    )
    n = 0
    for t in sorted(prog.lib_bodies(), key=lambda x: x.id):
        if t.kind == "closure" or not (t.path.startswith("solvers::") or "<solvers::" in t.path.split(" as ")[0]):
            continue
        m = re.match(r"^\((.*)\)$", t.ret_ty)
        if not m:
            continue
        comps = [x.strip() for x in _split_top(m.group(1))]
        same = [i for i, ty in enumerate(comps) if ty in ("usize", "isize", "bool") and comps.count(ty) >= 2]
        if len(same) < 2:
            continue
        sites = [cs for cs in prog.callers_of(t)]
        if len(sites) < 2:
            continue
        n += 1
        sigs = {}
        for cs in sites:
            b = cs.body
            res = cs.node["dst"]["l"]
            for i in same:
                sig = set()
                # locals holding component i
                holders = set()
                for st in b.sites():
                    nd = st.node
                    if st.si is not None and nd["k"] == "assign" and nd["rv"]["k"] == "use":
                        q = op_place(nd["rv"]["ops"][0])
                        if q is not None and q["l"] == res and q["p"] and str(place_fields(q)[-1]) == str(i):
                            holders.add(nd["dst"]["l"])
                for st in b.sites():
                    nd = st.node
                    if st.si is None or nd["k"] != "assign" or nd["rv"]["k"] != "binop" or nd["rv"]["op"] not in ("Eq", "Ne", "Lt", "Le", "Gt", "Ge"):
                        continue
                    ops = nd["rv"]["ops"]
                    for a, other in ((ops[0], ops[1]), (ops[1], ops[0])):
                        pa = op_place(a)
                        if pa is None or pa["p"]:
                            continue
                        roots, _, _ = data_deps(b, a, through_calls=False)
                        if not (roots & holders or pa["l"] in holders):
                            continue
                        k = op_const(other)
                        if k is not None:
                            sig.add((nd["rv"]["op"], "const:%s" % (k.get("int", k.get("bool")))))
                        else:
                            _, calls, _ = data_deps(b, other)
                            names = sorted({callee_decl(callee_of(c)).rsplit("::", 1)[-1] for c in calls})
                            sig.add((nd["rv"]["op"], "calls:%s" % ",".join(names[:3])))
                sigs.setdefault(i, {})[(b.id, cs.bb)] = (frozenset(sig), cs)
        bad = []
        for i, per_site in sigs.items():
            distinct = {sg for sg, _ in per_site.values() if sg}
            if len(distinct) > 1:
                bad.append((i, per_site))
        if not bad:
            r.ok(t.id, "%d call sites read components %s consistently" % (len(sites), same), t.loc())
        for i, per_site in bad:
            desc = sorted("%s: %s" % (prog.enclosing_fn(cs.body).path.rsplit("::", 1)[-1], sorted(sg)) for sg, cs in per_site.values())
            any_site = sorted(per_site.values(), key=lambda x: x[1].loc() or "")[0][1]
            r.violation(t.id, "component#%d-roles-differ" % i, "the callers of %s use component %d of its result in different roles (%s): one of them has the components swapped" % (t.path, i, "; ".join(desc)), any_site.loc())
    if n == 0:
        r.note("no helper returning a tuple with repeated scalar types has two call sites")


def _split_top(s):
    out, depth, cur = [], 0, ""
    for ch in s:
        if ch in "(<[":
            depth += 1
        elif ch in ")>]":
            depth -= 1
        if ch == "," and depth == 0:
            out.append(cur)
            cur = ""
        else:
            cur += ch
    if cur.strip():
        out.append(cur)
    return out


# ------------------------------------------------------------------------------------------
# every connected component contributes to the assembled set


_ACCUMULATE = ("alloc::vec::Vec::push", "alloc::vec::Vec::append", "core::iter::traits::collect::Extend::extend", "alloc::vec::Vec::extend_from_slice")


def rule_every_component_contributes(ctx, kind=None):
    prog = ctx.prog
    scope = query_scope(prog, kind)
    r = ctx.rule(
        "every-component-contributes",
        "a set assembled over the connected components (a single extension, a certificate) receives the part computed for the component in "
        "every iteration of the component loop that goes on to the next component: an iteration may leave the function (no extension / "
        "answer found) but may not skip its component - an extension of the framework is the union of one extension per component",
    )
    n = 0
    for b in sorted(prog.lib_bodies(), key=lambda x: x.id):
        fn = prog.enclosing_fn(b)
        if b.kind == "closure" or not (fn.path.startswith("solvers::") or "<solvers::" in fn.path.split(" as ")[0]):
            continue
        if scope is not None and b.id not in scope:
            continue
        loops = dict(b.loops())
        heads = set()
        for s in b.calls():
            if callee_decl(callee_of(s)) == "core::iter::traits::iterator::Iterator::next" and _is_component_iterator(prog, b, s.node["args"][0]):
                heads |= set(b.in_loop(s.bb)[:1] if len(b.in_loop(s.bb)) == 1 else [min(b.in_loop(s.bb), key=lambda h: len(loops[h]))])
            if callee_matches(callee_of(s), r"ConnectedComponentsComputer::next_connected_component$") and b.in_loop(s.bb):
                heads.add(min(b.in_loop(s.bb), key=lambda h: len(loops[h])))
        for head in sorted(heads):
            blocks = loops[head]
            # accumulations into a vector that outlives the loop (created outside it)
            accs = []
            for s in b.calls():
                if s.bb not in blocks or callee_decl(callee_of(s)) not in _ACCUMULATE:
                    continue
                roots, _, _ = data_deps(b, s.node["args"][0], through_calls=False)
                created_inside = any(d.bb in blocks and d.si is None and callee_decl(callee_of(d)) in ("alloc::vec::Vec::new", "alloc::vec::Vec::with_capacity") for l in roots for d in b.defs.get(l, []))
                if not created_inside:
                    accs.append(s)
            if not accs:
                continue
            n += 1
            # an inner loop whose body accumulates stands for the accumulation (zero iterations = an empty part)
            stop = {a.bb for a in accs}
            for h2, blks2 in loops.items():
                if h2 != head and blks2 < blocks and any(a.bb in blks2 for a in accs):
                    stop.add(h2)
            # a path from the loop head back to it that avoids every accumulation
            seen = set()
            st = [sc for sc in b.succ[head] if sc in blocks]
            skipped = False
            while st:
                x = st.pop()
                if x in seen or x in stop or x not in blocks:
                    continue
                seen.add(x)
                for sc in b.succ[x]:
                    if sc == head:
                        skipped = True
                    st.append(sc)
            r.check(not skipped, "%s|component-loop#%d" % (b.id, sorted(heads).index(head)), "component-skipped", "every iteration that continues adds the component's part (%d accumulation site(s))" % len(accs), "an iteration of the loop over the connected components can go on to the next component without adding anything for the current one: the assembled set misses a component", b.blocks[head]["term"].get("line") and "%s:%s" % (b.file, b.blocks[head]["term"].get("line")))
    r.floor(n, 1, "component loops that assemble a set")


def rule_status_certificate_pairing(ctx, kind=None):
    prog = ctx.prog
    scope = query_scope(prog, kind)
    r = ctx.rule(
        "status-pairs-with-certificate",
        "every function of the solvers that returns (status, Option<certificate>) - the trait methods and the helpers whose status the "
        "certificate-less variants read with `.0` - pairs them one way only: all its `Some` results carry one status and all its `None` results "
        "the opposite one (constants, or a bool parameter and its negation); a helper that answers (p, None) on one path and (not p, None) on "
        "another gives the certificate-less caller a status the certificate variant would contradict",
    )
    n = 0
    for b in sorted(prog.lib_bodies(), key=lambda x: x.id):
        if b.kind == "closure" or not re.match(r"^\(bool, core::option::Option<alloc::vec::Vec<&", b.ret_ty):
            continue
        if not (b.path.startswith("solvers::") or "<solvers::" in b.path.split(" as ")[0] or b.path.startswith("dynamics::") or "<dynamics::" in b.path.split(" as ")[0]):
            continue
        if scope is not None and b.id not in scope:
            continue
        if _diverges_entirely(b):
            continue
        n += 1
        # a helper told by a constant which variant it serves (a flag, a small enum) is judged once per constant its callers pass
        penvs = []
        for cs in prog.callers_of(b):
            env = {}
            for i, a in enumerate(cs.node["args"]):
                kv = shp._const_arg(prog, cs.body, a, None)
                if isinstance(kv, tuple) and kv[0] == "variant":
                    env[i + 1] = kv
            if env and env not in penvs:
                penvs.append(env)
        for penv in (penvs or [None]):
            _pairing_check(prog, r, b, penv)
    r.floor(n, 3 if kind is None else 1, "functions returning (status, Option<certificate>)")


def _pairing_check(prog, r, b, penv):
    if True:
        ss = shp.return_shapes(prog, b, (), penv) if penv else shp.return_shapes(prog, b)
        by_cert = {"Some": set(), "None": set()}
        for s in ss:
            if isinstance(s, tuple) and s[0] == "t" and len(s[1]) == 2:
                st, ce = s[1]
                c = "Some" if isinstance(ce, tuple) and ce[0] == "Some" else ("None" if ce == "None" else None)
                if c is not None and st != "?":
                    by_cert[c].add(st)
        bad = None
        if not by_cert["Some"] or not by_cert["None"]:
            # a variant that never (or always) hands out a certificate: there is nothing to pair
            tag0 = "" if not penv else "|" + ",".join("%s=%s" % (k, v[1]) for k, v in sorted(penv.items()))
            r.ok(b.id + tag0, "status only / certificate only: nothing to pair", b.loc())
            return
        for c, sts in by_cert.items():
            if len(sts) > 1:
                bad = "its `%s` results carry the statuses %s" % (c, sorted(sts, key=str))
        if bad is None and by_cert["Some"] and by_cert["None"]:
            a, z = next(iter(by_cert["Some"])), next(iter(by_cert["None"]))
            if shp.neg(a) != z and not (a in (True, False) and z in (True, False) and a != z):
                bad = "`Some` comes with %s and `None` with %s, which are not opposite" % (a, z)
        tag = "" if not penv else "|" + ",".join("%s=%s" % (k, v[1]) for k, v in sorted(penv.items()))
        if bad is not None and shp.imprecise(b, penv):
            pairs = [s for s in ss if isinstance(s, tuple) and s[0] == "t" and len(s[1]) == 2]
            # drop the combinations a cross product explains; judge what is left
            sts = {s[1][0] for s in pairs}
            ces = {("Some" if isinstance(s[1][1], tuple) and s[1][1][0] == "Some" else s[1][1]) for s in pairs}
            full = all(any(s[1][0] == a and ("Some" if isinstance(s[1][1], tuple) and s[1][1][0] == "Some" else s[1][1]) == c for s in pairs) for a in sts for c in ces)
            if full and len(sts) > 1 and len(ces) > 1:
                r.ok(b.id + tag, "NOT decided: status and certificate reach the returned pair as two independently computed values; the pairs found are the full product of the statuses and the certificate shapes", b.loc())
                return
        r.check(bad is None, b.id + tag, "pairing:%s" % {k: sorted(v, key=str) for k, v in by_cert.items()}, "Some <-> %s, None <-> %s" % (sorted(by_cert["Some"], key=str), sorted(by_cert["None"], key=str)), "%s does not pair status and certificate one way: %s" % (b.path.rsplit("::", 1)[-1], bad), b.loc())


def rule_in_all_flags_polarity(ctx):
    prog = ctx.prog
    from ..prov import prov, subterms

    r = ctx.rule(
        "in-all-flags-polarity",
        "ideal semantics: the flag vector `in every preferred extension` is read one way everywhere - an argument is *kept* (returned as a member) "
        "where its flag is true and *forbidden* (its negated literal assumed) where its flag is false; the flags only ever shrink (a new value is "
        "the old one AND membership in the extension just found)",
    )
    n = 0
    for b in sorted(prog.lib_bodies(), key=lambda x: x.id):
        fn = prog.enclosing_fn(b)
        if not fn.path.startswith("solvers::ideal_semantics_solver::") and "<solvers::ideal_semantics_solver::" not in fn.path:
            continue
        for s in b.sites():
            nd = s.node
            if s.si is None or nd["k"] != "assign" or nd["rv"]["k"] != "aggregate" or nd["rv"]["agg"].get("variant") != "Some" or nd["rv"]["agg"].get("path") != "core::option::Option":
                continue
            # the flag that governs this Some(..): a bool element of an enumerated Vec<bool>
            truth = None
            for c in conditions(b, s.bb):
                if c.is_discr or not (c.is_true() or c.is_false()):
                    continue
                for e in prov(prog, b, c.place):
                    if isinstance(e, tuple) and e[0] == "field" and e[2] == "1" and isinstance(e[1], tuple) and e[1][0] == "elem" and any(isinstance(t, tuple) and t[0] == "call" and t[1].endswith("Iterator::enumerate") for t in subterms(e[1])):
                        truth = c.is_true()
            if truth is None:
                continue
            acts = set()
            for e in prov(prog, b, nd["rv"]["ops"][0]):
                calls = [t[1] for t in subterms(e) if isinstance(t, tuple) and t[0] == "call"]
                if any(x.endswith("Literal::negate") for x in calls):
                    acts.add("forbid")
                elif any(re.search(r"arg_to_lit$", x) for x in calls):
                    acts.add("require")
                elif any(re.search(r"get_argument_by_id$|get_argument$", x) for x in calls):
                    acts.add("member")
            for a in sorted(acts):
                n += 1
                want = a in ("member", "require")
                r.check(truth == want, "%s|%s" % (b.id, a), "flag-polarity:%s-under-%s" % (a, truth), "an argument is %s where its flag is %s" % ({"member": "kept", "require": "required", "forbid": "forbidden"}[a], str(want).lower()), "an argument is %s where its `in every preferred extension` flag is %s" % ({"member": "kept as a member", "require": "required", "forbid": "forbidden"}[a], str(truth).lower()), s.loc())
    if n == 0:
        r.ok("ideal", "NOT decided: no flag-governed selection found in the ideal solver", None)


def rule_single_member_read_guarded(ctx):
    """C07: a query method that looks at one member of its list only"""
    prog = ctx.prog
    from ..prov import prov, show
    from .grounded import inherited_conditions, _cond_trees

    r = ctx.rule(
        "single-member-read-is-guarded",
        "an acceptance method (static or dynamic solver) that reads its argument list at a constant position (`args[0]`, `first()`) instead of "
        "going through it runs that read only under a test that the list has no other member (`len > 1` diverges before it, or `len == 1` "
        "governs it): a longer list is refused, not answered as its first member",
    )
    n = 0
    # the acceptance methods and the private helpers of the solver modules that receive the query list
    cands = [b for b in sorted(prog.lib_bodies(), key=lambda x: x.id) if b.kind != "closure" and (re.match(r"^(<)?(solvers|dynamics)::", b.path)) and list_params_of(b)]
    for _one in (1,):
        for _two in (1,):
            for fn in cands:
                lp = list_params_of(fn)
                if not lp:
                    continue
                for y in prog.with_closures(fn):
                    reads = []
                    for s in y.calls():
                        d = callee_decl(callee_of(s))
                        if d not in ("core::ops::index::Index::index",) and not re.search(r"slice::.*(first|get|last)$", d):
                            continue
                        recv = prov(prog, y, s.node["args"][0])
                        if not any(e[0] == "param" and e[1] == fn.path and e[2] in lp and not e[3] for e in recv):
                            continue
                        if d.endswith("Index::index") or d.endswith("get"):
                            idx = prov(prog, y, s.node["args"][1])
                            if not all(e[0] == "const" and isinstance(e[1], int) for e in idx):
                                continue
                        reads.append(s)
                    # `args[0]` on a slice is a place projection, not a call
                    if y is fn:
                        for s in y.sites():
                            nd = s.node
                            if s.si is None or nd["k"] != "assign":
                                continue
                            pls = [nd["rv"].get("place")] if nd["rv"]["k"] == "ref" else [op_place(o) for o in nd["rv"].get("ops", [])]
                            for pl in pls:
                                if pl is None or pl["l"] not in lp:
                                    continue
                                for pe in pl["p"]:
                                    if isinstance(pe, dict) and "cidx" in pe:
                                        reads.append(s)
                                    elif isinstance(pe, dict) and "idx" in pe and all(e[0] == "const" and isinstance(e[1], int) for e in prov(prog, y, {"l": pe["idx"], "p": []})):
                                        reads.append(s)
                    for s in reads:
                        n += 1
                        anchor = "%s|member-read" % fn.id
                        conds = _cond_trees(prog, inherited_conditions(prog, y, s.bb))
                        ok = False
                        seen = []
                        for e, t in conds:
                            if e[0] != "op" or len(e[2]) != 2:
                                continue
                            a, b2 = e[2]
                            is_len = lambda x: x[0] == "call" and re.search(r"::len$", x[1]) and x[2] and x[2][0][0] == "param" and x[2][0][1] == fn.path and x[2][0][2] in lp  # noqa: E731
                            if not (is_len(a) and b2[0] == "const"):
                                continue
                            k = b2[1]
                            seen.append("%s %s is %s" % (e[1], k, t))
                            if (e[1] == "Gt" and k == 1 and t is False) or (e[1] == "Ge" and k == 2 and t is False) or (e[1] == "Le" and k == 1 and t is True) or (e[1] == "Lt" and k == 2 and t is True) or (e[1] == "Eq" and k == 1 and t is True) or (e[1] == "Ne" and k == 1 and t is False):
                                ok = True
                        # `match args.len() { 0 | 1 => args[0], _ => panic!(..) }`: a switch on the length itself
                        for y3, c in inherited_conditions(prog, y, s.bb):
                            if c.is_discr or c.negated or not c.values or "usize" not in y3.local_ty(c.place["l"]):
                                continue
                            if any(e[0] == "call" and re.search(r"::len$", e[1]) and e[2] and e[2][0][0] == "param" and e[2][0][1] == fn.path and e[2][0][2] in lp for e in prov(prog, y3, c.place)):
                                seen.append("len in %s" % c.values)
                                if set(c.values) <= {"0", "1"}:
                                    ok = True
                        # the method may also go through the whole list elsewhere (then the constant read is a shortcut, not the answer)
                        def _is_list(y2, a2):
                            q = op_place(a2)
                            return q is not None and not q["p"] and re.match(r"^&\[&", y2.local_ty(q["l"])) and any(e[0] == "param" and e[1] == fn.path and e[2] in lp for e in prov(prog, y2, a2))

                        iterates = any(callee_decl(callee_of(s2)) in ("core::slice::iter", "core::iter::traits::collect::IntoIterator::into_iter", "core::slice::<impl [T]>::iter") and _is_list(y2, s2.node["args"][0]) for y2 in prog.with_closures(fn) for s2 in y2.calls() if s2.node.get("args"))
                        passes_on = any(_is_list(y2, a2) for y2 in prog.with_closures(fn) for s2 in y2.calls() if callee_of(s2) and callee_of(s2).get("crate") == "crustabri" for a2 in s2.node["args"])
                        if ok:
                            r.ok(anchor, "the single-member read runs only when the list has one member", s.loc())
                        elif iterates or passes_on:
                            r.ok(anchor, "NOT decided: the method also goes through (or hands on) the whole list", s.loc())
                        else:
                            r.violation(anchor, "unguarded-single-member-read", "the method answers for the member at a constant position of its list and nothing restricts the list to one member (%s): a list of several arguments is answered as that member alone, not as the disjunction" % (", ".join(seen) or "no test of the length"), s.loc())
    r.floor(n, 4, "constant-position reads of a query list")


def rule_plain_status_follows_model(ctx, kind=None):
    """C02 / C03: a plain acceptance method that reads the status off a SAT result"""
    prog = ctx.prog
    from ..prov import prov, show, subterms

    r = ctx.rule(
        "plain-status-follows-the-model",
        "a static solver's acceptance method that returns `model.is_some()` / `model.is_none()` of its own SAT call: when the call asks for an "
        "extension containing a listed argument (their literals as they are, in a clause or among the assumptions) a model means YES for a "
        "credulous query; when it asks for one containing none of them (negated literals assumed) a model means NO for a skeptical query",
    )
    n = 0
    for tr, k in ((CRED, "credulous"), (SKEP, "skeptical")):
        if kind is not None and kind != k:
            continue
        for imp in prog.impls_of_trait(tr):
            if not (imp.get("self_adt") or "").startswith("solvers::"):
                continue
            for m in imp["methods"]:
                b = prog.lib(m["path"])
                if b is None or b.ret_ty != "bool":
                    continue
                for e in prov(prog, b, {"l": 0, "p": []}):
                    neg = False
                    while e[0] == "op" and e[1] == "Not":
                        neg = not neg
                        e = e[2][0]
                    if not (e[0] == "call" and re.search(r"Option::is_(some|none)$", e[1]) and any(isinstance(t, tuple) and t[0] == "call" and t[1].endswith("SolvingResult::unwrap_model") for t in subterms(e))):
                        continue
                    says_model = e[1].endswith("is_some") != neg
                    # what the call asks
                    pols = set()
                    for s in b.calls():
                        if callee_matches(callee_of(s), r"sat_solver::SatSolver::(add_clause|solve_under_assumptions)$"):
                            for l in tags.literals_of(prog, b, s.node["args"][1], list_params_of(b)):
                                if l.role == "ARG" and l.pos is not None:
                                    pols.add(l.pos)
                    n += 1
                    if len(pols) != 1:
                        r.ok(b.id, "NOT decided: the polarity of the listed arguments in the SAT call is not one (%s)" % sorted(pols), b.loc())
                        continue
                    asks_member = next(iter(pols))
                    if (k == "credulous") != asks_member:
                        r.ok(b.id, "NOT decided: a %s query that asks for an extension %s the listed arguments" % (k, "with" if asks_member else "without"), b.loc())
                        continue
                    want_model = (k == "credulous")
                    r.check(says_model == want_model, b.id, "status-inverted", "%s: YES exactly when the SAT call has %s" % (k, "a model" if want_model else "no model"), "the %s query answers YES exactly when its SAT call has %s, although the call asks for an extension %s a listed argument: the status is inverted" % (k, "a model" if says_model else "no model", "containing" if asks_member else "containing no"), b.loc())
    if n == 0:
        r.ok("plain", "NOT decided: no plain acceptance method reads its status off `is_some()` / `is_none()` of a model", None)


def rule_running_intersection(ctx):
    """C01 / C02 (ID): the arguments common to all preferred extensions"""
    prog = ctx.prog
    from ..prov import prov, show, subterms, roots
    from .equiv import indexed_stores
    from .grounded import inherited_conditions, _cond_trees, _is_call

    r = ctx.rule(
        "in-all-is-an-intersection",
        "ideal solver: for each preferred extension visited, a member is kept in the new `in all extensions` vector only when the vector of the "
        "extensions visited so far already has it (the store is governed by a read of the *other* vector at the same id), and the counter of "
        "kept arguments is incremented under that same test",
    )
    n = 0
    mod = "solvers::ideal_semantics_solver"
    for b in sorted(prog.lib_bodies(), key=lambda x: x.id):
        if b.kind != "closure" or not (prog.enclosing_fn(b).path.startswith(mod) or ("<" + mod) in prog.enclosing_fn(b).path):
            continue
        marks = [st for st in indexed_stores(prog, b) if st.is_bool and st.stores_const(True) and any(_is_call(e, r"Label::id$", 1) and e[2][0][0] == "elem" for e in prov(prog, b, st.idx))]
        for st in marks:
            n += 1
            anchor = "%s|keep" % b.id
            new_roots = roots(prog, b, st.recv)
            idxs = set(prov(prog, b, st.idx))
            conds = _cond_trees(prog, inherited_conditions(prog, b, st.site.bb))
            guard = []
            for c, t in conds:
                if _is_call(c, r"Index::index$", 2) and c[2][1] in idxs:
                    guard.append((c, t))
            # the guard reads another vector than the one written
            other = []
            for y, cnd in inherited_conditions(prog, b, st.site.bb):
                for o in origins(y, cnd.place, transparent=("core::ops::bit::Not::not",)):
                    if o.kind == "call" and callee_decl(o.data) == "core::ops::index::Index::index":
                        rr = roots(prog, y, o.site.node["args"][0])
                        if rr and not (rr & new_roots):
                            other.append(rr)
            if not guard:
                r.violation(anchor, "intersection-not-taken", "every member of the visited extension is kept in the new `in all extensions` vector, whether or not the earlier extensions had it: the vector ends up as the last extension, not the intersection", st.loc())
                continue
            r.check(all(t is True for c, t in guard) and bool(other), anchor, "intersection-guard:%s" % [t for c, t in guard], "kept only when the earlier extensions have it too", "a member is kept in the new vector %s" % ("when the earlier extensions do *not* have it" if not all(t is True for c, t in guard) else "under a test of the vector being written itself"), st.loc())
            # counters incremented in the same closure
            for s in b.sites():
                nd = s.node
                if s.si is not None and nd["k"] == "assign" and nd["dst"]["p"] == ["*"] and nd["rv"]["k"] == "use" and b.local_ty(nd["dst"]["l"]).replace("&", "").replace("mut ", "").strip() == "usize":
                    for e in prov(prog, b, nd["rv"]["ops"][0]):
                        core_ = e[1] if e[0] == "field" and e[2] == "0" and e[1][0] == "op" else e
                        if core_[0] == "op" and core_[1] in ("Add", "AddWithOverflow") and ("const", 1) in core_[2]:
                            n += 1
                            c2 = _cond_trees(prog, inherited_conditions(prog, b, s.bb))
                            r.check(all(g in c2 for g in guard), "%s|count" % b.id, "count-not-of-the-intersection", "the counter counts the kept members", "the counter of arguments common to all preferred extensions is incremented for members that are not kept: the test `the intersection is the grounded extension` compares the wrong number", s.loc())
    if n == 0:
        r.ok("intersection", "NOT decided: no per-member closure marking a bool vector found in the ideal solver", None)
