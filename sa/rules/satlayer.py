"""Rules on the SAT layer (src/sat) shared by C15, C16 and C17."""
import re

from ..core import (
    Site,
    callee_of,
    callee_is,
    callee_name,
    callee_decl,
    callee_matches,
    strip_generics,
    op_place,
    op_const,
    origins,
    data_deps,
    derives_from_local,
    self_fields_read,
    proj_str,
    place_fields,
    switch_sites,
)
from .. import flow
from ..flow import consumers, conditions, switch_subject
from ..fmtq import format_sites

SATSOLVER = "sat::sat_solver::SatSolver"
SOLVE_FNS = (SATSOLVER + "::solve", SATSOLVER + "::solve_under_assumptions")
RESULT = "sat::sat_solver::SolvingResult"
UNWRAP = RESULT + "::unwrap_model"
LISTENER = "sat::sat_solver::SolvingListener"


def in_sat_module(body):
    return body.path.startswith("sat::") or "<sat::" in body.path.split(" as ")[0]


def place_ty(body, place):
    ty = body.local_ty(place["l"])
    for e in place["p"]:
        if e == "*":
            ty = ty.lstrip("&")
            if ty.startswith("mut "):
                ty = ty[4:]
            if ty.startswith("alloc::boxed::Box<") and ty.endswith(">"):
                ty = ty[len("alloc::boxed::Box<") : -1]
        elif isinstance(e, dict) and "f" in e:
            ty = e["ty"]
    return ty


# ------------------------------------------------------------------------------------------
# C17.1  every verdict goes through the aborting accessor


def rule_unwrap(ctx):
    prog = ctx.prog
    r = ctx.rule(
        "unwrap",
        "outside src/sat, the only consumer of the result of SatSolver::solve / solve_under_assumptions (and of any "
        "function returning a SolvingResult) is SolvingResult::unwrap_model, whose Unknown arm diverges",
    )
    # wrapper functions: anything outside src/sat returning a SolvingResult joins the callee set
    wrappers = set()
    for b in prog.bodies.values():
        if in_sat_module(b) or b.kind == "closure":
            continue
        if RESULT in b.ret_ty and not (b.impl and b.impl.get("trait") == SATSOLVER):
            wrappers.add(b.path)
    sites = []
    for b in prog.bodies.values():
        if in_sat_module(b):
            continue
        for s in b.calls():
            c = callee_of(s)
            if c is None:
                # indirect call returning a SolvingResult
                if RESULT in b.local_ty(s.node["dst"]["l"]):
                    sites.append((b, s, "<indirect>"))
                continue
            if callee_is(c, *SOLVE_FNS) or strip_generics(callee_name(c)) in wrappers or c["decl"] in wrappers:
                sites.append((b, s, strip_generics(callee_name(c))))
            elif RESULT in b.local_ty(s.node["dst"]["l"]) and not callee_is(c, UNWRAP):
                # any other call producing a SolvingResult (moves through helpers such as Option::take)
                tyd = b.local_ty(s.node["dst"]["l"])
                if tyd == RESULT:
                    sites.append((b, s, strip_generics(callee_name(c))))
    for b, s, nm in sites:
        anchor = "%s|solve-site#%d" % (b.id, [x[1].bb for x in sites if x[0] is b].index(s.bb))
        cs = consumers(b, s.node["dst"]["l"])
        bad = [c for c in cs if not (c.kind == "call" and callee_is(c.info[0], UNWRAP) and c.info[1] == 0)]
        good = [c for c in cs if c.kind == "call" and callee_is(c.info[0], UNWRAP)]
        if bad:
            r.violation(anchor, "consumer=" + ",".join(sorted({c.describe() for c in bad})), "result of %s is consumed by %s instead of unwrap_model only" % (nm, [c.describe() for c in bad]), s.loc())
        elif len(good) != 1:
            r.violation(anchor, "consumers=%d" % len(good), "result of %s has %d unwrap_model consumers" % (nm, len(good)), s.loc())
        else:
            r.ok(anchor, "result of %s flows only into unwrap_model" % nm, s.loc())
    # coverage: every acceptance / extension computer that can reach a SAT call reaches a checked site
    checked_bodies = {b.id for b, _, _ in sites}
    n_cov = 0
    for tr in ("solvers::specs::CredulousAcceptanceComputer", "solvers::specs::SkepticalAcceptanceComputer", "solvers::specs::SingleExtensionComputer"):
        for imp in prog.impls_of_trait(tr):
            for m in imp["methods"]:
                mb = prog.lib(m["path"])
                if mb is None:
                    continue
                reach = prog.reachable_from([mb], virtual_dispatch=False)
                uses_sat = any(callee_is(callee_of(s), SATSOLVER + "::add_clause") for x in reach.values() for s in x.calls())
                solves = any(x in checked_bodies for x in reach)
                if uses_sat and not any(callee_is(callee_of(s), *SOLVE_FNS) or x.id in checked_bodies for x in reach.values() for s in x.calls()):
                    continue
                if uses_sat:
                    n_cov += 1
                    if not solves:
                        # a method that adds clauses but never solves: an encoding-only helper (e.g. O6)
                        r.note("no solve site reachable from %s (adds clauses only)" % mb.path)
    r.floor(len(sites), 1, "solve sites outside src/sat")
    r.note("%d acceptance/extension methods reach a checked solve site" % n_cov)
    ctx.extra.setdefault("solve_sites", len(sites))

    # no inspection of a SolvingResult outside src/sat other than the logging listener
    r2 = ctx.rule(
        "no-inspect",
        "outside src/sat and SolvingListener impls no code matches on, compares or destructures a SolvingResult",
    )
    n = 0
    for b in prog.bodies.values():
        if in_sat_module(b):
            continue
        fn = prog.enclosing_fn(b) or b
        if fn.impl and fn.impl.get("trait") == LISTENER:
            continue
        for s in b.sites():
            nd = s.node
            if s.si is not None and nd["k"] == "assign" and nd["rv"]["k"] == "discr":
                ty = place_ty(b, nd["rv"]["place"])
                if ty.replace("&", "").replace("mut ", "").strip() == RESULT:
                    t = b.blocks[s.bb]["term"]
                    if t["k"] == "switch" and not flow.is_drop_glue_region(b, b.succ[s.bb]):
                        n += 1
                        r2.violation(b.id, "match", "match on a SolvingResult outside src/sat", s.loc())
            if s.si is None and nd["k"] == "call":
                c = nd.get("callee")
                if c and callee_matches(c, r"PartialEq.*::(eq|ne)$") and any(RESULT == x.replace("&", "").strip() for x in c.get("substs", [])):
                    n += 1
                    r2.violation(b.id, "compare", "comparison of a SolvingResult outside src/sat", s.loc())
                if c and callee_matches(c, r"mem::(discriminant|transmute)") and any(RESULT in x for x in c.get("substs", [])):
                    n += 1
                    r2.violation(b.id, "discriminant", "discriminant/transmute of a SolvingResult outside src/sat", s.loc())
    if n == 0:
        r2.ok("all bodies outside src/sat", "no match / comparison on SolvingResult in %d bodies" % sum(1 for b in prog.bodies.values() if not in_sat_module(b)))

    # unwrap_model itself
    r3 = ctx.rule("unwrap-table", "SolvingResult::unwrap_model maps Satisfiable to Some, Unsatisfiable to None and diverges on Unknown")
    um = prog.lib(UNWRAP)
    if not r3.require_anchor(um, "fn " + UNWRAP):
        return
    adt = prog.adt(RESULT)
    if not r3.require_anchor(adt, "enum " + RESULT):
        return
    # path-sensitive on the variant of `self` (F15): whatever form the function has - one match, tests through helper predicates,
    # early returns - each variant either diverges or returns one Option shape
    from ..flow import explore_cells, cell_block_exit

    table = {}
    for v in adt["variants"]:
        states = explore_cells(prog, um, 0, {1: frozenset([v["idx"]])})
        rets = [dict(cell_block_exit(prog, um, bb, env)) for bb, env in states if um.blocks[bb]["term"]["k"] == "return"]
        if not rets:
            table[v["name"]] = "diverges"
            continue
        shapes = set()
        for env in rets:
            vals = env.get(0)
            if vals is None:
                shapes.add("?")
            else:
                shapes |= {"Some" if x == 1 else "None" for x in vals}
        table[v["name"]] = "/".join(sorted(shapes))
    expected = {"Satisfiable": "Some", "Unsatisfiable": "None", "Unknown": "diverges"}
    for k, v in expected.items():
        r3.check(table.get(k) == v, UNWRAP, "%s->%s" % (k, table.get(k)), "%s -> %s" % (k, v), "%s -> %s (expected %s)" % (k, table.get(k), v), um.loc())
    r3.check(set(table) <= set(expected), UNWRAP, "extra-arms:%s" % sorted(set(table) - set(expected)), "no other arm", loc=um.loc())


def flow_switches(body):
    from ..core import switch_sites

    return list(switch_sites(body))


def return_option_shapes(body, from_bb=None):
    """variants of Option assigned to the return place on paths from `from_bb` (whole body if None)"""
    shapes = set()
    blocks = body.reachable if from_bb is None else ({from_bb} | body.blocks_reachable_from(from_bb))
    for bb in blocks:
        for st in body.blocks[bb]["stmts"]:
            if st["k"] == "assign" and st["dst"]["l"] == 0 and not st["dst"]["p"]:
                rv = st["rv"]
                if rv["k"] == "aggregate" and rv["agg"]["kind"] == "adt":
                    shapes.add(rv["agg"]["variant"])
                else:
                    shapes.add("?")
    return shapes


# ------------------------------------------------------------------------------------------
# verdict tables of the back ends (C15.3, C17.2) and strict reply parser (C16.4)


def result_constructions(body):
    out = []
    for s in body.sites():
        n = s.node
        if s.si is not None and n["k"] == "assign" and n["rv"]["k"] == "aggregate":
            a = n["rv"]["agg"]
            if a["kind"] == "adt" and a["path"] == RESULT:
                out.append((s, a["variant"]))
    return out


def constructions_ctx(prog, b):
    """SolvingResult constructions that decide what `b` returns: in b, in its closures, and in helper
    functions of the SAT layer called from b (one level).  Each entry is (site, variant, conds, cbody):
    `conds` are the branch facts under which the construction runs, expressed on locals of `cbody`
    (for a helper: its conditions on its parameters translated to the caller's argument variables)."""
    out = []
    for body in [b] + prog.closures_of(b):
        for s, v in result_constructions(body):
            out.append((s, v, conditions(body, s.bb), body))
    for cs, t in prog.callees(b, include_closures=True, virtual_dispatch=False):
        if t.kind == "closure" or t is b or not in_sat_module(t) or not t.ret_ty.endswith(RESULT):
            continue
        if t.impl and t.impl.get("trait") == SATSOLVER:
            continue  # delegation to another SatSolver method, judged on its own
        for s, v in result_constructions(t):
            out.append((s, v, flow.translated_conditions(prog, cs.body, cs, t, s.bb), cs.body))
    return out


def _verdict_of(body, conds):
    """classify conditions over an Option<bool> place: returns (place_key, 'sat'|'unsat'|'none'|None)"""
    by_place = {}
    plen = {}
    for c in conds:
        # the verdict is a local, or a field of a local (the reply kept in a struct): the shortest prefix of the place typed Option<bool>
        key = None
        for k in range(len(c.place["p"]) + 1):
            ty = place_ty(body, {"l": c.place["l"], "p": c.place["p"][:k]})
            if k == 0 and "core::option::Option<bool>" in ty or ty.lstrip("&").replace("mut ", "") == "core::option::Option<bool>":
                key = c.place["l"] if k == 0 else (c.place["l"], tuple(str(e.get("f")) if isinstance(e, dict) else str(e) for e in c.place["p"][:k]))
                plen[id(c)] = k
                break
        if key is None:
            continue
        by_place.setdefault(key, []).append(c)
    # `if let Some(is_sat) = status { if is_sat { .. } }`: a bool local that is a copy of the payload of a verdict place
    payload_of = {}
    for c in conds:
        if c.is_discr or c.place["p"] or body.local_ty(c.place["l"]) != "bool":
            continue
        l = c.place["l"]
        for _ in range(4):
            ds = body.defs.get(l, [])
            if len(ds) != 1 or ds[0].si is None or ds[0].node["k"] != "assign" or ds[0].node["rv"]["k"] != "use":
                break
            q = op_place(ds[0].node["rv"]["ops"][0])
            if q is None:
                break
            if q["p"]:
                for key in list(by_place):
                    kl = key if not isinstance(key, tuple) else key[0]
                    if q["l"] == kl and "core::option::Option<bool>" in place_ty(body, {"l": q["l"], "p": q["p"][: (0 if not isinstance(key, tuple) else len(key[1]))]}):
                        payload_of[id(c)] = key
                break
            l = q["l"]
    for c in conds:
        if id(c) in payload_of:
            by_place[payload_of[id(c)]].append(c)
            plen[id(c)] = -1
    res = {}
    for key, cs in by_place.items():
        is_some = any(c.is_discr and ((not c.negated and c.values == ["1"]) or (c.negated and c.values == ["0"])) for c in cs)
        is_none = any(c.is_discr and ((not c.negated and c.values == ["0"]) or (c.negated and c.values == ["1"])) for c in cs)
        val_true = any((not c.is_discr) and len(c.place["p"]) > plen[id(c)] and c.is_true() for c in cs)
        val_false = any((not c.is_discr) and len(c.place["p"]) > plen[id(c)] and c.is_false() for c in cs)
        if is_none:
            res[key] = "none"
        elif is_some and val_true:
            res[key] = "sat"
        elif is_some and val_false:
            res[key] = "unsat"
        else:
            res[key] = "partial"
    return res


def _none_edge_builds_unknown(cons):
    """edge form of `no verdict -> Unknown` (for arms shared by several patterns, e.g. `Some(true) | None`):
    in a body that builds results, from the `None` edge of a switch on the discriminant of an Option<bool>
    every construction that can be reached is Unknown, and there is one"""
    from ..core import switch_sites

    by_body = {}
    for s, v, _, _ in cons:
        by_body.setdefault(s.body.id, (s.body, []))[1].append((s, v))
    for body, sites in by_body.values():
        for sw in switch_sites(body):
            subj = switch_subject(body, sw)
            if subj is None or not subj[1] or "core::option::Option<bool>" not in place_ty(body, subj[0]):
                continue
            for v, tb in sw.node["targets"]:
                if v != "0":
                    continue
                reach = {tb} | body.blocks_reachable_from(tb, avoid={sw.bb})
                got = {vv for s, vv in sites if s.bb in reach}
                if got == {"Unknown"}:
                    return True
    return False


def satsolver_impls(prog):
    return prog.impl_methods(SATSOLVER, "solve_under_assumptions"), prog.impl_methods(SATSOLVER, "solve")


def rule_verdict_tables(ctx, strict_parser=True):
    """returns the list of constructing back ends analysed"""
    prog = ctx.prog
    r = ctx.rule(
        "verdict-table",
        "in every SatSolver impl, Satisfiable is built only when the back end's verdict is Some(true), Unsatisfiable only "
        "when it is Some(false); no verdict (None) is mapped to Unknown; other impls delegate to a SatSolver method",
    )
    sua, solve = satsolver_impls(prog)
    if not r.require_anchor(sua, "impls of SatSolver::solve_under_assumptions"):
        return []
    constructing = []
    undecided_impls = []
    for imp, b in sua + solve:
        cons = constructions_ctx(prog, b)
        if not cons:
            # must delegate: the returned value is the result of a SatSolver solve method
            os_ = [o for o in origins(b, {"l": 0, "p": []}, transparent=()) if o.kind == "call"]
            ok = bool(os_) and all(callee_matches(o.data, r"SatSolver>?::solve(_under_assumptions)?$") for o in os_)
            others = [o for o in origins(b, {"l": 0, "p": []}, transparent=()) if o.kind != "call"]
            if not ok and os_ and not others:
                # the verdict is built further down a chain of the SAT layer's own functions (a reader object, ..): not followed
                deep = []
                for o in os_:
                    t = prog.body_for_callee(o.data, b)
                    if t is not None and in_sat_module(t) and any(result_constructions(y) for z in prog.reachable_from([t], virtual_dispatch=False).values() for y in prog.with_closures(z)):
                        deep.append(t)
                if len(deep) == len(os_):
                    r.ok(b.id, "NOT decided: the SolvingResult is built by %s (further than one helper away)" % sorted({t.path.rsplit("::", 1)[-1] for t in deep}), b.loc())
                    undecided_impls.append(b)
                    continue
            r.check(ok and not others, b.id, "delegation", "delegates to %s" % sorted({strip_generics(callee_name(o.data)) for o in os_}), "returns a SolvingResult that is neither built here nor the result of a SatSolver solve method", b.loc())
            continue
        constructing.append((imp, b, cons))
        vplaces = set()
        seen_variants = {}
        for s, variant, conds, cbody in cons:
            v = _verdict_of(cbody, conds)
            vplaces.update(v.keys())
            verdicts = set(v.values())
            seen_variants.setdefault(variant, []).append(verdicts)
            anchor = "%s|%s" % (b.id, variant)
            if variant == "Satisfiable":
                r.check(verdicts == {"sat"}, anchor, "under=%s" % sorted(verdicts), "Satisfiable built under verdict Some(true)", "Satisfiable built under back-end verdict %s" % sorted(verdicts), s.loc())
            elif variant == "Unsatisfiable":
                r.check(verdicts == {"unsat"}, anchor, "under=%s" % sorted(verdicts), "Unsatisfiable built under verdict Some(false)", "Unsatisfiable built under back-end verdict %s" % sorted(verdicts), s.loc())
            else:
                r.ok(anchor, "Unknown built under %s" % sorted(verdicts), s.loc())
        for variant in ("Satisfiable", "Unsatisfiable", "Unknown"):
            r.check(variant in seen_variants, "%s|%s" % (b.id, variant), "never-built", "%s is constructed" % variant, "%s is never constructed by this back end" % variant, b.loc())
        none_ok = any("none" in vs for vs in seen_variants.get("Unknown", [])) or _none_edge_builds_unknown(cons)
        r.check(none_ok, "%s|Unknown" % b.id, "none-not-unknown", "no verdict -> Unknown", "there is no Unknown construction under 'no verdict'", b.loc())
        r.check(len(vplaces) == 1, b.id, "verdict-places=%d" % len(vplaces), "one verdict variable", "constructions are conditioned on %d different Option<bool> places" % len(vplaces), b.loc())
    r.floor(len(constructing) + len({x.id for x in undecided_impls}), 2, "SatSolver impls that construct verdicts (embedded + buffered)")
    return constructing


def named_local(body, name):
    for l, nm in body.names.items():
        if nm == name:
            return l
    return None


def var_writes(prog, fn_body, local):
    """sites writing the variable held in `local` of fn_body, in the function itself and through
    by-reference captures in its closures: list of (site, rvalue-or-None)"""
    name = fn_body.local_name(local)
    out = []
    for s in fn_body.defs.get(local, []):
        out.append(s)
    if name is None:
        return out
    for cb in prog.closures_of(fn_body):
        for s in cb.sites():
            n = s.node
            if s.si is None or n["k"] != "assign":
                continue
            dst = n["dst"]
            if not dst["p"] or dst["p"][0] != "*":
                continue
            # (*tmp) = ..  where tmp = copy (*_1).k
            for o in origins(cb, {"l": dst["l"], "p": []}, transparent=()):
                if o.kind == "upvar" and cb.upvar_name(o.data) == name and len(dst["p"]) == 1:
                    out.append(s)
    return out


def assigned_const_bool(site):
    n = site.node
    if site.si is None or n["k"] != "assign" or n["rv"]["k"] != "use":
        return None
    k = op_const(n["rv"]["ops"][0])
    if k is not None and "bool" in k:
        return k["bool"]
    return None


def str_test_of(body, cond):
    """if the condition's subject is the bool result of a string test call, return
    (fn_short_name, constant string or None, truth)"""
    if cond.is_discr:
        return None
    for o in origins(body, cond.place, transparent=()):
        if o.kind == "call":
            nm = strip_generics(callee_name(o.data) or "")
            short = nm.rsplit("::", 1)[-1]
            if short in ("eq", "ne", "starts_with", "ends_with", "contains", "is_empty"):
                lit = None
                for a in o.site.node["args"][1:]:
                    for oo in origins(body, a):
                        if oo.kind == "const" and "str" in oo.data:
                            lit = oo.data["str"]
                truth = cond.is_true()
                if not truth and not cond.is_false():
                    return None
                return (short, lit, truth)
    return None


def rule_reply_parser(ctx):
    """C16.4 / C17.2 on the text back end"""
    prog = ctx.prog
    r = ctx.rule(
        "reply-parser",
        "text back end: the verdict variable is set to true only on the exact line `s SATISFIABLE`, to false only on "
        "`s UNSATISFIABLE`; Satisfiable additionally requires the value-line flag and the terminator flag (a flag "
        "raised only under `literal == 0`); unrecognised lines reach a panic",
    )
    sua, _ = satsolver_impls(prog)
    target = None
    for imp, b in sua:
        cons = constructions_ctx(prog, b)
        if cons and any(callee_matches(callee_of(s), r"BufRead::lines$|BufRead::read_line$") for s in b.calls()):
            target = (b, cons)
    if target is None:
        # the parsing moved out of the impl (a reader object fed line by line): exists, but not in a form the flag analysis follows
        moved = [x for x in prog.lib_bodies() if in_sat_module(x) and any(callee_matches(callee_of(s), r"BufRead::lines$|BufRead::read_line$") for s in x.calls())]
        if moved:
            r.ok("reply-parser", "NOT decided: the reply is read in %s, outside the SatSolver impl that builds no verdict itself" % sorted({x.path.rsplit("::", 1)[-1] for x in moved}), moved[0].loc())
            return
    if not r.require_anchor(target, "SatSolver impl parsing a textual reply (BufRead::lines)"):
        return
    b, cons = target
    # --- verdict variable
    vlocal = None
    for s, variant, conds, cbody in cons:
        if cbody is not b:
            continue
        v = _verdict_of(b, conds)
        for k in v:
            vlocal = k
    if isinstance(vlocal, tuple):
        r.ok("reply-parser", "NOT decided: the verdict of the parser is a field of an object (%s) whose methods read the lines; the flag analysis follows a parser written in the SatSolver impl" % strip_generics(b.local_ty(vlocal[0])).rsplit("::", 1)[-1], b.loc())
        return
    if not r.require_anchor(vlocal is not None, "verdict variable (Option<bool>) of the reply parser"):
        return
    writes = var_writes(prog, b, vlocal)
    setters = []  # closure bodies that write Some(param)
    for w in writes:
        n = w.node
        if w.body is b:
            rv = n.get("rv")
            ok = rv is not None and rv["k"] == "aggregate" and rv["agg"].get("variant") == "None"
            r.check(ok, b.id + "|status-init", "init", "verdict variable initialised to None", "verdict variable assigned outside the status setter", w.loc())
            continue
        # in a closure: the stored value must be Some(<closure parameter>)
        good = False
        for o in origins(w.body, n["rv"]["ops"][0] if n["rv"]["k"] == "use" else {"l": -1, "p": []}, transparent=()) if n["rv"]["k"] == "use" else []:
            if o.kind == "agg" and o.data.get("variant") == "Some":
                inner = o.site.node["rv"]["ops"][0]
                if any(oo.kind == "param" and oo.data == 2 for oo in origins(w.body, inner, transparent=())):
                    good = True
        if good:
            setters.append(w.body)
        else:
            # constant store Some(true)/Some(false) directly in a closure: look at its conditions
            r.violation(b.id + "|status-write", "shape", "write to the verdict variable that is not `Some(parameter)` in a setter closure", "unrecognised write to the verdict variable", w.loc())
    if not r.require_anchor(setters, "status setter closure"):
        return
    setter_paths = {x.path for x in setters}
    calls = []
    for s in b.calls():
        c = callee_of(s)
        if c and (c["decl"] in setter_paths or (c.get("resolved") in setter_paths)):
            calls.append(s)
    r.floor(len(calls), 2, "calls of the status setter")
    for s in calls:
        # argument tuple (const bool)
        val = None
        for o in origins(b, s.node["args"][1], transparent=()):
            if o.kind == "agg" and o.data["kind"] == "tuple":
                k = op_const(o.site.node["rv"]["ops"][0])
                if k is not None and "bool" in k:
                    val = k["bool"]
        tests = [t for t in (norm_test(str_test_of(b, c)) for c in conditions(b, s.bb)) if t]
        want = "s SATISFIABLE" if val else "s UNSATISFIABLE"
        ok = val is not None and (("eq", want, True) in tests)
        r.check(ok, b.id + "|status=%s" % val, "guard=%s" % sorted(t for t in tests if t[2]), "status %s set only on the exact line %r" % (val, want), "status %s is set under %s, not under line == %r" % (val, [t for t in tests if t[2]], want), s.loc())
    # --- flags required for Satisfiable
    sat_sites = [(s, conds, cbody) for s, v, conds, cbody in cons if v == "Satisfiable"]
    for s, conds, cbody in sat_sites:
        flag_roles = set()
        for c in conds:
            if cbody is not b or c.is_discr or c.place["p"] or b.local_ty(c.place["l"]) != "bool" or not c.is_true():
                continue
            # the named flags that are certainly true when this condition is (through `a && b` and copies)
            roots = set(flow.truth_implies(b, c.place["l"]) or ())
            roots = {l for l in roots if b.local_ty(l) == "bool"}
            for l in roots:
                role = flag_role(prog, b, l)
                if role:
                    flag_roles.add(role)
        anchor = b.id + "|Satisfiable"
        r.check("value-line" in flag_roles, anchor, "no-value-line-flag", "Satisfiable requires the value-line-seen flag", "Satisfiable is built without testing a flag raised on `v ` lines", s.loc())
        r.check("terminator" in flag_roles, anchor, "no-terminator-flag", "Satisfiable requires the terminator-seen flag", "Satisfiable is built without testing the flag raised by the terminating 0 of the value lines (a truncated model becomes a result)", s.loc())
    # --- unrecognised line -> panic
    found = False
    for bb in b.diverging_blocks():
        tests = [t for t in (norm_test(str_test_of(b, c)) for c in conditions(b, bb)) if t]
        neg = {(t[0], t[1]) for t in tests if not t[2]}
        pos = {(t[0], t[1]) for t in tests if t[2]}
        if {("eq", "s SATISFIABLE"), ("eq", "s UNSATISFIABLE"), ("starts_with", "v "), ("is_empty", None)} <= neg:
            found = True
            extra_pos = sorted(pos)
            # ... whatever the parser has seen so far: the panic is governed by tests of the line only
            state = []
            for c in conditions(b, bb):
                if c.is_discr or str_test_of(b, c):
                    continue
                for o in origins(b, c.place, transparent=()):
                    if o.kind == "call" and callee_decl(o.data) in ("core::option::Option::is_none", "core::option::Option::is_some"):
                        state.append("%s is %s" % (callee_decl(o.data).rsplit("::", 1)[-1], "true" if c.is_true() else "false"))
                    elif o.kind == "const" and "bool" in o.data and len(b.defs.get(c.place["l"], [])) > 1:
                        state.append("a flag of the parser")
            if state:
                r.violation(b.id + "|else-chain", "unexpected-line-tolerated", "a line of no known class reaches the panic only when %s: in the other states of the parser it is skipped, so garbage after the status line (or inside the model) is read as if it were not there" % ", ".join(sorted(set(state))), Site(b, bb, None).loc())
            else:
                r.ok(b.id + "|else-chain", "a line matching no class reaches a panic (negated tests: %s; remaining positive tests: %s)" % (sorted(neg), extra_pos), Site(b, bb, None).loc())
    if not found:
        r.violation(b.id + "|else-chain", "no-panic", "no panic is reached by a line that is neither a status, value, comment nor empty line", b.loc())
    # accepted line classes: every string test on the line must be in the known table
    allowed = {("eq", "s SATISFIABLE"), ("eq", "s UNSATISFIABLE"), ("starts_with", "v "), ("starts_with", "c "), ("eq", "c"), ("eq", "v"), ("is_empty", None)}
    tests_all = set()
    for s in b.calls():
        c = callee_of(s)
        nm = strip_generics(callee_name(c) or "").rsplit("::", 1)[-1] if c else ""
        if nm in ("eq", "ne", "starts_with", "ends_with", "contains", "is_empty") and c and any("String" in x or x in ("str", "&str") for x in c.get("substs", []) + [c["decl"]]):
            lit = None
            for a in s.node["args"][1:]:
                for oo in origins(b, a):
                    if oo.kind == "const" and "str" in oo.data:
                        lit = oo.data["str"]
            tests_all.add(norm_test((nm, lit, True))[:2])
    r.check(tests_all <= allowed, b.id + "|line-classes", "extra=%s" % sorted(tests_all - allowed, key=str), "line classes tested: %s" % sorted(tests_all, key=str), "reply parser accepts line classes outside the DIMACS output grammar: %s" % sorted(tests_all - allowed, key=str), b.loc())


def norm_test(t):
    """canonical form of a string test: `ne` is a negated `eq`, `== ""` is `is_empty`"""
    if not t:
        return t
    kind, lit, truth = t
    if kind == "ne":
        kind, truth = "eq", not truth
    if kind == "eq" and lit == "":
        kind, lit = "is_empty", None
    return (kind, lit, truth)


def flag_role(prog, fn_body, local):
    """role of a bool flag from the conditions of its `= true` writes"""
    writes = var_writes(prog, fn_body, local)
    trues = [w for w in writes if assigned_const_bool(w) is True]
    others = [w for w in writes if assigned_const_bool(w) is None]
    if not trues or others:
        return None
    roles = set()
    for w in trues:
        conds = conditions(w.body, w.bb)
        role = None
        for c in conds:
            t = norm_test(str_test_of(w.body, c))
            if t and t[2] and t[0] == "starts_with" and t[1] == "v ":
                role = "value-line"
        for c in conds:
            # n == 0 on an integer parsed from the reply
            if c.is_discr:
                continue
            for o in origins(w.body, c.place, transparent=()):
                if o.kind == "binop" and o.data["op"] == "Eq" and c.is_true():
                    ks = [op_const(x) for x in o.data["ops"]]
                    if any(k is not None and k.get("int") == 0 for k in ks):
                        role = "terminator"
            ty = place_ty(w.body, c.place)
            if ty in ("isize", "i32", "i64") and not c.negated and c.values == ["0"]:
                role = "terminator"
        roles.add(role)
    if len(roles) == 1:
        return roles.pop()
    return None


# ------------------------------------------------------------------------------------------
# C16.1 / C16.2 header


def find_header_format(prog, body):
    for fs in format_sites(body):
        if fs.template.startswith("p cnf "):
            return fs
    return None


def _all_str_consts(body):
    out = set()
    for s in body.sites():
        n = s.node
        ops = []
        if s.si is not None and n["k"] == "assign":
            ops = n["rv"].get("ops", [])
        elif s.si is None and n["k"] == "call":
            ops = n["args"]
        for o in ops:
            k = op_const(o)
            if k is not None and "str" in k:
                out.add(k["str"])
    return out


def rule_header(ctx):
    prog = ctx.prog
    r = ctx.rule(
        "dimacs-header",
        "the `p cnf V C` line is `p cnf {} {}\\n`; V depends on the assumptions of the call as well as on the stored maximum, "
        "C is the clause counter plus assumptions.len(); the model buffer is sized from the same V",
    )
    target = None
    for b in prog.lib_bodies():
        fs = find_header_format(prog, b)
        if fs:
            target = (b, fs)
    if target is None:
        lit = [x for x in prog.lib_bodies() if in_sat_module(x) and any("p cnf" in c for c in _all_str_consts(x))]
        if lit:
            r.ok("dimacs-header", "NOT decided: `p cnf` is written by %s, not as one format template" % sorted({x.path.rsplit("::", 1)[-1] for x in lit}), lit[0].loc())
            return
    if not r.require_anchor(target, "format site whose template starts with `p cnf `"):
        return
    b, fs = target
    hb = b
    anchor = b.id + "|header"
    r.check(fs.template == "p cnf {} {}\n", anchor, "template=%r" % fs.template, "template is %r" % fs.template, loc=fs.site.loc())
    if len(fs.args) != 2 or any(a is None for a in fs.args):
        r.violation(anchor, "args", "cannot identify the two displayed values of the header", "cannot analyse the header arguments", fs.site.loc())
        return
    v_op, c_op = fs.args[0][1], fs.args[1][1]
    fn = prog.enclosing_fn(b)
    if fn is b and not any("sat::sat_solver::Literal]" in fn.local_ty(i) for i in range(1, fn.n_args + 1)):
        # a helper (`fn dimacs_header(n_vars, n_clauses) -> String`) that formats its parameters: the operands are the
        # arguments of its call in the solving function
        css = [cs for cs in prog.callers_of(b) if any("sat::sat_solver::Literal]" in prog.enclosing_fn(cs.body).local_ty(i) for i in range(1, prog.enclosing_fn(cs.body).n_args + 1))]
        pv = [o.data for o in origins(b, v_op, transparent=()) if o.kind == "param" and not o.fields]
        pc = [o.data for o in origins(b, c_op, transparent=()) if o.kind == "param" and not o.fields]
        if len(css) == 1 and len(pv) == 1 and len(pc) == 1 and css[0].body is prog.enclosing_fn(css[0].body):
            cs = css[0]
            b = fn = cs.body
            v_op, c_op = cs.node["args"][pv[0] - 1], cs.node["args"][pc[0] - 1]
            anchor = b.id + "|header"
    # the assumptions parameter: the `&[Literal]` parameter of the enclosing function
    aparam = None
    for i in range(1, fn.n_args + 1):
        if "sat::sat_solver::Literal]" in fn.local_ty(i):
            aparam = i
    if not r.require_anchor(aparam is not None and fn is b, "assumptions parameter (&[Literal]) of the function formatting the header"):
        return
    v_dep = derives_from_local(b, v_op, aparam)
    vb, vop2 = b, v_op
    pv2 = [o.data for o in origins(b, v_op, transparent=()) if o.kind == "param" and not o.fields]
    if not v_dep and len(pv2) == 1 and len(origins(b, v_op, transparent=())) == 1 and str(b.vis or "").startswith("in:") and len(prog.callers_of(b)) == 1:
        # the count is handed in by the only caller (`dimacs_instance(self.n_vars_with(assumptions), assumptions)`): judged there
        cs0 = prog.callers_of(b)[0]
        cfn = prog.enclosing_fn(cs0.body)
        ap2 = [i for i in range(1, cfn.n_args + 1) if "sat::sat_solver::Literal]" in cfn.local_ty(i)]
        if cs0.body is cfn and ap2 and pv2[0] - 1 < len(cs0.node["args"]):
            vb, vop2 = cfn, cs0.node["args"][pv2[0] - 1]
            v_dep = derives_from_local(cfn, vop2, ap2[0])
    r.check(v_dep, anchor, "vars-ignore-assumptions", "variable count depends on the assumptions", "the variable count of the header does not depend on the assumptions: a variable used only in an assumption exceeds the announced count", fs.site.loc())
    # stored maximum
    seen, calls, consts = data_deps(vb, vop2)
    reads_field = _reads_self_field(vb, seen, "n_vars") or any(callee_matches(callee_of(s), r"SatSolver>?::n_vars$") for s in calls)
    if not reads_field:
        # ... through a private helper of the back end that folds the assumptions into the stored maximum (`self.n_vars_with(assumptions)`)
        for s in calls:
            t = prog.body_for_callee(callee_of(s), vb) if callee_of(s) else None
            if t is not None and t.kind != "closure" and t.impl and vb.impl and t.impl.get("self_adt") == vb.impl.get("self_adt") and t.ret_ty == "usize":
                if _reads_self_field(t, set(range(0, 400)), "n_vars"):
                    reads_field = True
    r.check(reads_field, anchor, "vars-ignore-store", "variable count depends on the stored maximum variable", loc=fs.site.loc())
    # clause count = counter + len(assumptions)
    ok_c = False
    for o in origins(b, c_op, transparent=()):
        if o.kind == "binop" and o.data["op"] in ("Add", "AddWithOverflow"):
            a, bb_ = o.data["ops"]
            srcs = [data_deps(b, a), data_deps(b, bb_)]
            has_len = any(any(callee_matches(callee_of(s), r"^core::slice::len$|Vec::len$") and derives_from_local(b, s.node["args"][0], aparam) for s in sd[1]) for sd in srcs)
            has_cnt = any(_reads_self_field(b, sd[0], "n_clauses") for sd in srcs)
            ok_c = has_len and has_cnt
    r.check(ok_c, anchor, "clause-count", "clause count = stored counter + assumptions.len()", "the clause count of the header is not `stored counter + assumptions.len()`", fs.site.loc())
    # model buffer sized from the same V
    v_locals, _, _ = data_deps(b, v_op, through_calls=False)
    sized = False
    found_buf = False
    for s in b.calls():
        c = callee_of(s)
        if callee_matches(c, r"vec::from_elem$") and "Option<bool>" in b.local_ty(s.node["dst"]["l"]):
            found_buf = True
            ls, _, _ = data_deps(b, s.node["args"][1], through_calls=False)
            v_named = {l for l in v_locals if b.local_name(l)} | set()
            # same named variable, or both read the same expression roots
            v_roots = _value_roots(b, v_op)
            m_roots = _value_roots(b, s.node["args"][1])
            sized = v_roots == m_roots
            r.check(sized, b.id + "|model-size", "roots=%s/%s" % (sorted(m_roots), sorted(v_roots)), "model buffer is sized from the header's variable count", "model buffer size derives from %s but the header's variable count from %s" % (sorted(m_roots), sorted(v_roots)), s.loc())
    if not found_buf:
        elsewhere = [x for x in prog.lib_bodies() if in_sat_module(x) and x is not b and any(callee_matches(callee_of(s), r"vec::from_elem$") and "Option<bool>" in x.local_ty(s.node["dst"]["l"]) for s in x.calls())]
        if elsewhere:
            r.ok(b.id + "|model-size", "NOT decided: the model buffer is allocated in %s, from a value handed over by the function that formats the header" % sorted({x.path.rsplit("::", 1)[-1] for x in elsewhere}), elsewhere[0].loc())
            return
    r.check(found_buf, b.id + "|model-size", "no-buffer", "model buffer allocation found", loc=b.loc())


def _reads_self_field(body, locals_seen, field):
    for s in body.sites():
        n = s.node
        if s.si is None or n["k"] != "assign":
            continue
        if n["dst"]["l"] not in locals_seen and not any(True for _ in ()):
            continue
        rv = n["rv"]
        for p in ([op_place(o) for o in rv.get("ops", [])] + [rv.get("place")]):
            if p is not None and p["l"] == 1 and field in place_fields(p):
                return True
    return False


def _value_roots(body, op):
    """named locals / self fields / parameters an integer value is computed from (through calls)"""
    seen, calls, _ = data_deps(body, op)
    roots = set()
    for l in seen:
        if 1 <= l <= body.n_args:
            roots.add("param#%d" % l)
    for s in body.sites():
        n = s.node
        if s.si is None or n["k"] != "assign" or n["dst"]["l"] not in seen:
            continue
        rv = n["rv"]
        for p in ([op_place(o) for o in rv.get("ops", [])] + [rv.get("place")]):
            if p is not None and p["l"] == 1 and place_fields(p):
                roots.add("self." + str(place_fields(p)[0]))
    for s in calls:
        for a in s.node["args"]:
            p = op_place(a)
            if p is not None and p["l"] == 1 and place_fields(p):
                roots.add("self." + str(place_fields(p)[0]))
    return roots


# ------------------------------------------------------------------------------------------
# C16.3 typestate on child process pipes

DRAIN = r"(io::Read::read_to_end|io::Read::read_to_string|io::copy|io::BufRead::lines|io::Read::bytes|io::BufRead::read_until|io::BufRead::read_line)$"


def rule_child_pipes(ctx):
    prog = ctx.prog
    r = ctx.rule(
        "wait-after-drain",
        "in every function calling Child::wait on a child with piped stdout, the ChildStdout has been read to its end (or "
        "handed to another thread) on every path before the wait, and no ChildStdin is still owned by the waiting function",
    )
    waits = []
    for b in prog.bodies.values():
        for s in b.calls():
            if callee_is(callee_of(s), "std::process::Child::wait", "std::process::Child::try_wait"):
                waits.append((b, s))
    # wait_with_output drains by itself; Command::output / status do not keep pipes
    if not r.require_anchor(waits or any(callee_is(callee_of(s), "std::process::Child::wait_with_output", "std::process::Command::output") for b in prog.bodies.values() for s in b.calls()), "call of std::process::Child::wait (external solver)"):
        return
    for b, w in waits:
        anchor = b.id + "|wait"
        piped_out = any(
            callee_is(callee_of(s), "std::process::Command::stdout") and any(o.kind == "call" and callee_is(o.data, "std::process::Stdio::piped") for o in origins(b, s.node["args"][1], transparent=()))
            for s in b.calls()
        )
        outs = [l for l, d in enumerate(b.locals) if d["ty"] == "std::process::ChildStdout" and b.defs.get(l)]
        ins = [l for l, d in enumerate(b.locals) if d["ty"] == "std::process::ChildStdin" and b.defs.get(l)]
        if not piped_out and not outs:
            r.ok(anchor, "stdout of the child is not piped", w.loc())
        else:
            drained = False
            how = None
            for s in b.calls():
                c = callee_of(s)
                if callee_matches(c, DRAIN) and s.node["args"]:
                    if any(derives_from_local(b, s.node["args"][0], l, through_calls=True) for l in outs) and b.dominates(s, w):
                        drained = True
                        how = strip_generics(callee_name(c))
                if callee_is(c, "std::thread::functions::spawn") and b.dominates(s, w):
                    # ChildStdout moved into the spawned closure
                    for o in origins(b, s.node["args"][0], transparent=()):
                        if o.kind == "agg" and o.data["kind"] == "closure":
                            for op in o.site.node["rv"]["ops"]:
                                p = op_place(op)
                                if p is not None and "m" in op and any(derives_from_local(b, op, l, through_calls=False) for l in outs):
                                    drained = True
                                    how = "moved to a spawned thread"
            if not drained:
                # ... by a helper that is handed the pipe (`drain(&mut stdout)`) and reads it to the end on every path
                for s in b.calls():
                    t = prog.body_for_callee(callee_of(s), b) if callee_of(s) else None
                    if t is None or t.kind == "closure" or not b.dominates(s, w):
                        continue
                    for k, a in enumerate(s.node["args"]):
                        if op_place(a) is None or not any(derives_from_local(b, a, l, through_calls=True) for l in outs):
                            continue
                        for s2 in t.calls():
                            if callee_matches(callee_of(s2), DRAIN) and s2.node["args"] and derives_from_local(t, s2.node["args"][0], k + 1, through_calls=True) and t.postdominates(s2, (0, -1)):
                                drained = True
                                how = "%s in %s" % (strip_generics(callee_name(callee_of(s2))), t.path.rsplit("::", 1)[-1])
            r.check(
                drained,
                anchor,
                "undrained=ChildStdout",
                "stdout drained before wait (%s)" % how,
                "Child::wait is called while the child's piped stdout has not been read to the end: a solver printing more than the pipe capacity blocks forever",
                w.loc(),
            )
        # stdin must not be fed by the waiting thread itself while stdout is piped and not yet drained: a child that
        # answers more than a pipe buffer before it has read all of its input blocks, and so does the feeder
        if piped_out or outs:
            drains = [s for s in b.calls() if callee_matches(callee_of(s), DRAIN) and s.node["args"] and any(derives_from_local(b, s.node["args"][0], l, through_calls=True) for l in outs)]
            for l in ins:
                for s in b.calls():
                    c = callee_of(s)
                    if not c or s in drains:
                        continue
                    d = strip_generics(callee_name(c) or "")
                    if not re.search(r"(^std::io::Write::(write|write_all|write_fmt|write_vectored)$|^std::io::copy|^std::io::util::copy|Write>?::(write|write_all|write_fmt)$)", d) and not re.search(r"io::(copy|Write)", d):
                        continue
                    if not any(derives_from_local(b, a, l, through_calls=True) for a in s.node["args"] if op_place(a) is not None):
                        continue
                    before_drain = not any(b.dominates(dr, s) for dr in drains)
                    r.check(not before_drain, anchor, "stdin-fed-before-drain", "the child's stdin is not written by the waiting thread before stdout is drained", "the waiting thread itself writes the instance to the child's stdin (%s) before the child's piped stdout is drained: a child that prints more than a pipe buffer before consuming its input deadlocks with its feeder" % d, s.loc())
            # ... nor may it wait for the thread that feeds stdin (join) before the drain: same three-way block
            for s in b.calls():
                if not callee_matches(callee_of(s), r"std::thread::(join_handle::)?JoinHandle(::<.*>)?::join$|thread::scoped::ScopedJoinHandle.*::join$"):
                    continue
                feeds = False
                for o in origins(b, s.node["args"][0], transparent=()):
                    if o.kind == "call" and callee_matches(o.data, r"std::thread::(functions::)?spawn$|thread::Builder::spawn$|thread::scoped::Scope.*::spawn$"):
                        for fa in o.data.get("fn_args") or []:
                            clo = prog.by_target[b.target].get(fa)
                            if clo is not None and any("ChildStdin" in (u.get("ty") or "") for u in clo.upvars):
                                feeds = True
                if feeds:
                    before_drain = not any(b.dominates(dr, s) for dr in drains)
                    r.check(not before_drain, anchor, "feeder-joined-before-drain", "the thread feeding the child's stdin is not joined before stdout is drained", "the function waits (join) for the thread that writes the instance to the child's stdin before it drains the child's piped stdout: a child that prints more than a pipe buffer before consuming its input blocks, and so do the feeder and the caller", s.loc())
        # a third pipe: stderr piped but never read blocks a child that writes more than a pipe buffer of diagnostics
        piped_err = [x for x in b.calls() if callee_is(callee_of(x), "std::process::Command::stderr") and any(o.kind == "call" and callee_is(o.data, "std::process::Stdio::piped") for o in origins(b, x.node["args"][1], transparent=()))]
        if piped_err:
            errs = [l for l, d in enumerate(b.locals) if d["ty"] == "std::process::ChildStderr" and b.defs.get(l)]
            drained_err = any(callee_matches(callee_of(x), DRAIN) and x.node["args"] and any(derives_from_local(b, x.node["args"][0], l, through_calls=True) for l in errs) and b.dominates(x, w) for x in b.calls())
            r.check(drained_err, anchor, "undrained=ChildStderr", "piped stderr is drained before wait", "the child's stderr is piped but never read before Child::wait: a solver that prints more than a pipe buffer of diagnostics blocks forever", piped_err[0].loc())
        # stdin: every ChildStdin value owned here must have been moved away (or dropped) before wait
        for l in ins:
            moved = False
            for s in b.sites():
                n = s.node
                if not b.dominates(s, w):
                    continue
                if s.si is not None and n["k"] == "assign":
                    for op in n["rv"].get("ops", []):
                        if "m" in op and op["m"]["l"] == l and not op["m"]["p"]:
                            moved = True
                elif s.si is None and n["k"] == "call":
                    for op in n["args"]:
                        if "m" in op and op["m"]["l"] == l and not op["m"]["p"]:
                            moved = True
                elif s.si is None and n["k"] == "drop" and n["place"]["l"] == l:
                    moved = True
            r.check(moved, anchor, "stdin-live", "ChildStdin moved away before wait", "a ChildStdin is still owned by the waiting function at Child::wait: the child never sees end of input", w.loc())
        if not ins:
            r.note("no ChildStdin value owned by %s" % b.path)


# ------------------------------------------------------------------------------------------
# C15 clauses


def rule_assumptions_transient(ctx):
    prog = ctx.prog
    r = ctx.rule(
        "assumptions-transient",
        "solve_under_assumptions never stores its assumptions: text back end performs no mutable use of the solver's fields, "
        "embedded back end passes them only to the per-call assumption API; inner add_clause is reachable only from SatSolver::add_clause",
    )
    sua, _ = satsolver_impls(prog)
    for imp, b in sua:
        cons = result_constructions(b)
        if not cons:
            continue
        muts = []
        for x in prog.with_closures(b):
            for s in x.sites():
                n = s.node
                if s.si is None:
                    continue
                if n["k"] != "assign":
                    continue
                # direct field store  (*_1).f = ..
                d = n["dst"]
                if x is b and d["l"] == 1 and place_fields(d):
                    muts.append((s, "store to self.%s" % place_fields(d)[0]))
                rv = n["rv"]
                if rv["k"] in ("ref", "rawptr") and rv.get("mut") and x is b and rv["place"]["l"] == 1:
                    f = place_fields(rv["place"])
                    muts.append((s, "&mut self%s" % ("." + str(f[0]) if f else "")))
                # through captured upvars named *self.*
                if x is not b and d["p"] and d["p"][0] == "*":
                    for o in origins(x, {"l": d["l"], "p": []}, transparent=()):
                        if o.kind == "upvar" and str(x.upvar_name(o.data)).startswith("*self"):
                            muts.append((s, "store to captured %s" % x.upvar_name(o.data)))
                if x is not b and rv["k"] == "ref" and rv.get("mut"):
                    for o in origins(x, rv["place"], transparent=()):
                        if o.kind == "upvar" and str(x.upvar_name(o.data)).startswith("*self"):
                            muts.append((s, "&mut captured %s" % x.upvar_name(o.data)))
        # the embedded back end needs `&mut solver` for the inner solve call: allowed iff it only flows to the
        # back end's solve-with-assumptions function
        real = []
        for s, what in muts:
            if what.startswith("&mut self"):
                cs = consumers(s.body, s.node["dst"]["l"])
                if cs and all(c.kind == "call" and c.info[0] is not None and not c.info[0].get("local") and callee_matches(c.info[0], r"solve") for c in cs):
                    continue
            real.append((s, what))
        r.check(not real, b.id, "mutates:%s" % sorted({w for _, w in real}), "no mutable use of solver state in solve_under_assumptions", "solve_under_assumptions mutates solver state: %s" % sorted({w for _, w in real}), (real[0][0].loc() if real else b.loc()))
        # assumptions parameter flows: only into iteration feeding the instance / the back-end call
    # inner add_clause who-may-call
    inner_adders = []
    for b in prog.lib_bodies():
        for s in b.calls():
            c = callee_of(s)
            if c and not c.get("local") and callee_matches(c, r"^cadical::.*add_clause$"):
                inner_adders.append((b, s))
    for b, s in inner_adders:
        fn = prog.enclosing_fn(b)
        ok = fn.trait_method == SATSOLVER + "::add_clause"
        r.check(ok, fn.id, "inner-add_clause", "embedded add_clause called from SatSolver::add_clause", "the embedded solver's add_clause is called from %s (clauses are permanent; assumptions must not be added as clauses)" % fn.path, s.loc())
    r.floor(len(inner_adders), 1, "call sites of the embedded solver's add_clause")
    # text back end: the clause store is written only by add_clause / constructors
    for imp in prog.impls_of_trait(SATSOLVER):
        adt = prog.adt(imp.get("self_adt") or "")
        if not adt:
            continue
        str_fields = [f["name"] for v in adt["variants"] for f in v["fields"] if f["ty"] == "alloc::string::String"]
        for fld in str_fields:
            writers = set()
            for x in prog.lib_bodies():
                fn = prog.enclosing_fn(x)
                if not (fn.impl and fn.impl.get("self_adt") == adt["path"]):
                    continue
                for s in x.sites():
                    n = s.node
                    if s.si is None or n["k"] != "assign":
                        continue
                    rv = n["rv"]
                    if rv["k"] == "ref" and rv.get("mut") and rv["place"]["l"] == 1 and fld in place_fields(rv["place"]) and x is fn:
                        writers.add(fn.path)
                    if n["dst"]["l"] == 1 and fld in place_fields(n["dst"]) and x is fn:
                        writers.add(fn.path)
            bad = [w for w in writers if not w.endswith("::add_clause")]
            r.check(not bad, adt["path"] + "." + fld, "writers=%s" % sorted(bad), "clause store `%s` written only by add_clause (writers: %s)" % (fld, sorted(writers)), "clause store `%s` is written by %s" % (fld, sorted(bad)))


def _read_order(prog, adt_path):
    """order in which the fields of a `Read` implementation are read: the operands of an array of readers, else the
    dominance order of the `Read::read` calls on fields"""
    for i in prog.impls:
        if i.get("trait") == "std::io::Read" and i.get("self_adt") == adt_path:
            for m in i["methods"]:
                if m["name"] != "read":
                    continue
                b = prog.lib(m["path"])
                if b is None:
                    continue
                # an array of `&mut dyn Read` built from the fields
                for s in b.sites():
                    nd = s.node
                    if s.si is not None and nd["k"] == "assign" and nd["rv"]["k"] == "aggregate" and nd["rv"]["agg"]["kind"] == "array":
                        order = []
                        for op in nd["rv"]["ops"]:
                            fs = set()
                            for o in origins(b, op, transparent=()):
                                if o.kind == "param" and o.data == 1 and o.fields:
                                    fs.add(str(o.fields[0]))
                            order.append(next(iter(fs)) if len(fs) == 1 else "?")
                        if order and "?" not in order:
                            return order
                calls = []
                for s in b.calls():
                    if callee_matches(callee_of(s), r"^std::io::Read::read$"):
                        fs = set()
                        for o in origins(b, s.node["args"][0], transparent=()):
                            if o.kind == "param" and o.data == 1 and o.fields:
                                fs.add(str(o.fields[0]))
                        if len(fs) == 1:
                            calls.append((s, next(iter(fs))))
                calls.sort(key=lambda x: sum(1 for y in calls if b.dominates(y[0], x[0])))
                return [f for _, f in calls]
    return []


def rule_clause_store(ctx):
    from .. import outlang

    prog = ctx.prog
    r = ctx.rule(
        "clause-store",
        "text back end: the text `add_clause` appends to the clause store is exactly `(literal )*0\\n` (output language extracted from its "
        "control-flow graph, helpers and per-literal closures inlined) and the clause counter goes up by one on every path; the instance handed "
        "to the solving function is, in reading order, the `p cnf V C\\n` line, the whole clause store, and one `literal 0\\n` line per assumption",
    )
    target = None
    for imp, b in prog.impl_methods(SATSOLVER, "add_clause"):
        adt = prog.adt(imp.get("self_adt") or "")
        if adt and any(f["ty"] == "alloc::string::String" for v in adt["variants"] for f in v["fields"]):
            target = (imp, b, adt)
    if not r.require_anchor(target, "SatSolver::add_clause impl of the text back end (String clause store)"):
        return
    imp, b, adt = target
    store = [f["name"] for v in adt["variants"] for f in v["fields"] if f["ty"] == "alloc::string::String"]
    if not r.require_anchor(len(store) == 1, "single String field (the clause store)"):
        return
    store = store[0]
    # the counter: the usize field that n_vars() does not read
    nv = [x for i2, x in prog.impl_methods(SATSOLVER, "n_vars") if i2.get("self_adt") == adt["path"]]
    nv_fields = self_fields_read(nv[0], {"l": 0, "p": []}) if nv else set()
    counters = [f["name"] for v in adt["variants"] for f in v["fields"] if f["ty"] == "usize" and f["name"] not in nv_fields]
    if not r.require_anchor(len(counters) == 1, "clause counter field (the usize field n_vars() does not read)"):
        return
    cnt = counters[0]
    incs = []
    for x in prog.with_closures(b):
        for s in x.sites():
            n = s.node
            if s.si is not None and n["k"] == "assign" and cnt in [str(y) for y in place_fields(n["dst"])] and (n["dst"]["l"] == 1 or x.kind == "closure"):
                incs.append(s)
    ok = len(incs) == 1 and incs[0].body is b and not b.in_loop(incs[0].bb) and b.postdominates(incs[0], (0, -1))
    inc_ok = False
    if incs:
        rv = incs[0].node["rv"]
        cands = [rv] if rv["k"] == "binop" else [o.data for o in origins(incs[0].body, rv["ops"][0], transparent=()) if o.kind == "binop"] if rv["k"] == "use" else []
        for bo in cands:
            if bo["op"] in ("Add", "AddWithOverflow") and any((op_const(x) or {}).get("int") == 1 for x in bo["ops"]):
                inc_ok = True
    r.check(ok and inc_ok, b.id + "|counter", "incs=%d" % len(incs), "clause counter incremented by 1 exactly once per add_clause, on every path", "clause counter is not incremented exactly once (by 1) per add_clause", (incs[0].loc() if incs else b.loc()))
    # the record language
    INT = outlang.SIGNED
    outlang.clear_cache()
    try:
        lang = outlang.sink_language(prog, b, ("field", store))
        L, REFX = "^(?:%s)$" % lang, "^(?:(?:%s )*0\\n)$" % INT
        from .io_rules import _wit

        w1, w2 = _wit([REFX], [L]), _wit([L], [REFX])
        r.check(w1.get("witness") is None and "error" not in w1 and w2.get("witness") is None and "error" not in w2, b.id + "|terminator", "record-language:%r/%r" % (w1.get("witness"), w2.get("witness")), "every clause record is `(literal )*0` and a newline (L = %s)" % lang, "add_clause does not append exactly one `(literal )*0\\n` record: it cannot write %r / it can write %r (L = %s)" % (w1.get("witness"), w2.get("witness"), lang), b.loc())
    except outlang.Undecided as e:
        r.ok(b.id + "|terminator", "record language not extracted (%s): NOT decided" % e, b.loc())
    # Display of a literal is its signed integer
    disp = [x for x in prog.lib_bodies() if x.kind != "closure" and re.search(r"<sat::sat_solver::Literal as core::fmt::Display>::fmt$", x.path)]
    if r.require_anchor(disp, "Display for sat::Literal"):
        ts = [fs.template for fs in format_sites(disp[0])]
        r.check(ts == ["{}"], disp[0].id, "literal-display=%s" % ts, "a literal is displayed as its integer", "Display of a literal is %s" % ts, disp[0].loc())
    # the instance: reading order and the language of each part
    sua, _ = satsolver_impls(prog)
    for imp2, sb in sua:
        if imp2.get("self_adt") != adt["path"]:
            continue
        # the construction of the reader: an aggregate of a type implementing Read, here or in a constructor it calls
        found = None
        read_adts = {i.get("self_adt") for i in prog.impls if i.get("trait") == "std::io::Read"}
        for s in sb.sites():
            nd = s.node
            if s.si is not None and nd["k"] == "assign" and nd["rv"]["k"] == "aggregate" and nd["rv"]["agg"]["kind"] == "adt" and nd["rv"]["agg"]["path"] in read_adts:
                found = (sb, s, None)
        if found is None:
            for cs, t in prog.callees(sb, include_closures=False, virtual_dispatch=False):
                if t.kind == "closure" or not in_sat_module(t):
                    continue
                for s in t.sites():
                    nd = s.node
                    if s.si is not None and nd["k"] == "assign" and nd["rv"]["k"] == "aggregate" and nd["rv"]["agg"]["kind"] == "adt" and nd["rv"]["agg"]["path"] in read_adts:
                        found = (t, s, cs)
        if found is None:
            elsewhere = [x for x in prog.lib_bodies() if in_sat_module(x) and any(st.si is not None and st.node["k"] == "assign" and st.node["rv"]["k"] == "aggregate" and st.node["rv"]["agg"].get("path") in read_adts for st in x.sites())]
            if elsewhere:
                r.ok("clause-store|reader", "NOT decided: the instance reader is assembled in %s, more than one call away from solve_under_assumptions" % sorted({x.path.rsplit("::", 1)[-1] for x in elsewhere}), elsewhere[0].loc())
                return
        if not r.require_anchor(found, "construction of the DIMACS instance reader"):
            return
        cb, a, via = found
        agg = a.node["rv"]["agg"]
        names = agg.get("field_names") or []
        order = _read_order(prog, agg["path"])
        r.check(len(order) == 3 and sorted(order) == sorted(names), sb.id + "|instance", "read-order:%s" % order, "the reader yields its three parts in the order %s" % order, "cannot establish the order in which the three parts of the instance are read (%s)" % order, a.loc())

        def part_operand(fname):
            """(body, operand) of the string wrapped in the Cursor stored in field fname, in terms of sb where possible"""
            if fname not in names:
                return None
            op = a.node["rv"]["ops"][names.index(fname)]
            for o in origins(cb, op, transparent=()):
                if o.kind == "call" and callee_matches(o.data, r"^std::io::Cursor::<T>::new$|^std::io::cursor::Cursor::new$|Cursor.*::new$"):
                    inner = o.site.node["args"][0]
                    if via is not None:
                        for oo in origins(cb, inner, transparent=()):
                            if oo.kind == "param" and not oo.fields and oo.data - 1 < len(via.node["args"]):
                                return (sb, via.node["args"][oo.data - 1], via)
                    return (cb, inner, o.site)
            return None

        if len(order) == 3:
            want = [("preamble", "p cnf [0-9]+ [0-9]+\\n"), ("store", None), ("assumptions", "(?:%s 0\\n)*" % INT)]
            for fname, (role, ref) in zip(order, want):
                po = part_operand(fname)
                anchor = "%s|instance|%s" % (sb.id, role)
                if po is None:
                    r.ok(anchor, "part `%s` not resolved: NOT decided" % fname, a.loc())
                    continue
                pb, pop, psite = po
                if role == "store":
                    fr = self_fields_read(pb, pop)
                    r.check(store in fr, sb.id + "|instance", "store-not-used", "the second part is the whole clause store", "the DIMACS instance is not built from the clause store (second part reads %s)" % sorted(fr), psite.loc())
                    continue
                if role == "assumptions":
                    # one unit clause per assumption: the header counts assumptions.len(), so nothing may be dropped or merged on the way
                    _, pcalls, _ = data_deps(pb, pop)
                    dropping = sorted({callee_decl(callee_of(c)).rsplit("::", 1)[-1] for c in pcalls if re.search(r"Iterator::(filter|filter_map|skip|skip_while|take|take_while|step_by|dedup\w*|flat_map|flatten|peekable|chain|zip)$|Vec::(dedup\w*|retain|truncate|remove|swap_remove|pop)$|HashSet|BTreeSet|itertools", callee_decl(callee_of(c)) or "")})
                    r.check(not dropping, sb.id + "|assumption-count", "assumption-units-filtered:%s" % dropping, "every assumption gives exactly one unit clause (the header counts assumptions.len())", "the unit clauses of the assumptions pass through %s: their number can differ from assumptions.len(), which the header announces" % dropping, psite.loc())
                outlang.clear_cache()
                try:
                    lang = outlang.string_lang(prog, pb, pop, psite)
                    L, REFX = "^(?:%s)$" % lang, "^(?:%s)$" % ref
                    from .io_rules import _wit

                    w1, w2 = _wit([REFX], [L]), _wit([L], [REFX])
                    key = "assumption-format" if role == "assumptions" else "header-format"
                    r.check(w1.get("witness") is None and w2.get("witness") is None and "error" not in w1 and "error" not in w2, sb.id + "|" + key, "%s-language:%r/%r" % (role, w1.get("witness"), w2.get("witness")), "the %s part is %s (L = %s)" % (role, ref, lang), "the %s part of the instance is not %s: it cannot be %r / it can be %r (L = %s)" % (role, ref, w1.get("witness"), w2.get("witness"), lang), psite.loc())
                except outlang.Undecided as e:
                    r.ok(anchor, "language of the %s part not extracted (%s): NOT decided" % (role, e), psite.loc())


def rule_model_width(ctx):
    prog = ctx.prog
    r = ctx.rule(
        "model-width",
        "the model can be queried for every declared variable: model length and n_vars() are computed from the same quantities",
    )
    for imp, nb in prog.impl_methods(SATSOLVER, "n_vars"):
        sb = None
        for imp2, x in prog.impl_methods(SATSOLVER, "solve_under_assumptions"):
            if imp2.get("self_adt") == imp.get("self_adt"):
                sb = x
        if sb is None or not result_constructions(sb):
            continue
        n_roots = _quantity_roots(prog, nb, {"l": 0, "p": []})
        # operand of Assignment::new
        m_roots = set()
        builders = [sb] + [x for x in prog.reachable_from([sb], virtual_dispatch=False).values() if x.kind != "closure" and x is not sb and x.impl and x.impl.get("self_adt") == imp.get("self_adt") and not x.impl.get("trait")]
        for mb in builders:
            for s in mb.calls():
                if callee_is(callee_of(s), "sat::sat_solver::Assignment::new"):
                    m_roots |= _quantity_roots(prog, mb, s.node["args"][0])
                    # a vector filled by hand: what its pushes / resize are computed from
                    for o in origins(mb, s.node["args"][0], transparent=()):
                        if o.kind == "call" and o.site is not None and callee_decl(o.data) in ("alloc::vec::Vec::new", "alloc::vec::Vec::with_capacity"):
                            for ms in mb.mut_call_defs.get(o.site.node["dst"]["l"], []):
                                for a in ms.node["args"][1:]:
                                    m_roots |= _quantity_roots(prog, mb, a)
                                # a push inside a loop: the bound of the loop
                                for h in mb.in_loop(ms.bb):
                                    blocks = dict(mb.loops())[h]
                                    from ..core import switch_sites as _sws

                                    for sw in _sws(mb):
                                        if sw.bb in blocks and any(t not in blocks for t in [bb for _, bb in sw.node["targets"]] + ([sw.node["otherwise"]] if sw.node.get("otherwise") is not None else [])):
                                            # `while var <= n { values.push(..) }`: what the exit test compares
                                            m_roots |= _quantity_roots(prog, mb, sw.node["discr"])
                                    for nx in mb.calls():
                                        if nx.bb in blocks and callee_decl(callee_of(nx)) == "core::iter::traits::iterator::Iterator::next":
                                            m_roots |= _quantity_roots(prog, mb, nx.node["args"][0])
        if n_roots and not m_roots:
            r.ok(nb.id, "NOT decided: what sizes the model is not traced (n_vars() derives from %s)" % sorted(n_roots), nb.loc())
            continue
        r.check(n_roots and n_roots <= m_roots, nb.id, "roots:%s/%s" % (sorted(n_roots), sorted(m_roots)), "n_vars() derives from %s, all of which size the model (%s)" % (sorted(n_roots), sorted(m_roots)), "n_vars() derives from %s but the model from %s" % (sorted(n_roots), sorted(m_roots)), nb.loc())
        # freshness: a back end that can declare variables while solving (assumptions on unseen variables) must be
        # asked for its variable count *after* the solve call when the model is sized
        backend_solves = [s for s in sb.calls() if (callee_of(s) or {}).get("crate") not in ("std", "core", "alloc", None) and not (callee_of(s) or {}).get("local") and callee_matches(callee_of(s), r"solve")]
        if backend_solves:
            stale = []
            for s in sb.calls():
                if callee_is(callee_of(s), "sat::sat_solver::Assignment::new"):
                    _, calls, _ = data_deps(sb, s.node["args"][0])
                    for c in calls:
                        cc = callee_of(c)
                        if cc and (callee_matches(cc, r"max_variable$|SatSolver>?::n_vars$|SatSolver::n_vars$")):
                            if not any(sb.dominates(bs, c) for bs in backend_solves):
                                stale.append(c)
            r.check(not stale, sb.id + "|fresh-count", "stale-variable-count", "the variable count sizing the model is read after the back end solved", "the model is sized from a variable count read before the back end solved: an assumption on a new variable makes n_vars() exceed the model", stale[0].loc() if stale else sb.loc())


def _quantity_roots(prog, body, op, depth=0):
    """integer quantities a value is computed from: `self.<int field>` reads and calls into the back-end
    crate; calls of local methods on self are expanded (callee summaries)"""
    seen, calls, _ = data_deps(body, op)
    roots = set()
    for s in body.sites():
        n = s.node
        if s.si is None or n["k"] != "assign" or n["dst"]["l"] not in seen:
            continue
        rv = n["rv"]
        for p in ([op_place(o) for o in rv.get("ops", [])] + [rv.get("place")]):
            if p is not None and p["l"] == 1 and place_fields(p):
                f = str(place_fields(p)[0])
                ty = [e["ty"] for e in p["p"] if isinstance(e, dict) and "f" in e][0]
                if ty in ("usize", "i32", "isize", "u32"):
                    roots.add("self." + f)
    for s in calls:
        c = callee_of(s)
        if c and not c.get("local") and c.get("crate") not in ("std", "core", "alloc"):
            roots.add(strip_generics(callee_name(c)))
        elif c and depth < 3:
            tgt = prog.body_for_callee(c, body)
            if tgt is not None and tgt.kind != "closure" and tgt.ret_ty in ("usize", "i32", "isize"):
                roots |= _quantity_roots(prog, tgt, {"c": {"l": 0, "p": []}}, depth + 1)
    for x in prog.closures_of(body):
        # quantities read inside closures feeding the value (iterator adaptors)
        if any(callee_of(cs) and x.path in (callee_of(cs).get("fn_args") or []) for cs in calls):
            for s in x.calls():
                c = callee_of(s)
                if c and not c.get("local") and c.get("crate") not in ("std", "core", "alloc"):
                    roots.add(strip_generics(callee_name(c)))
    return roots


def _returns_at_least_param(t, k):
    """True: the function returns a local that starts as parameter k and is only overwritten by a value tested greater than it (a running
    maximum); False: it returns something smaller-able; None: not of a recognised shape"""
    rets = [o for o in origins(t, {"l": 0, "p": []}, transparent=())]
    locs = set()
    for st in t.sites():
        nd = st.node
        if st.si is not None and nd["k"] == "assign" and nd["dst"]["l"] == 0 and not nd["dst"]["p"] and nd["rv"]["k"] == "use":
            q = op_place(nd["rv"]["ops"][0])
            if q is not None and not q["p"]:
                locs.add(q["l"])
    if len(locs) != 1:
        if any(o.kind == "call" and callee_matches(o.data, r"^core::cmp::(Ord::max|max)$") and any(op_place(a) is not None and op_place(a)["l"] == k for a in o.site.node["args"]) for o in rets):
            return True
        return None
    L = locs.pop()
    init = False
    for d in t.defs.get(L, []):
        if d.si is None or d.node["k"] != "assign":
            return None
        rv = d.node["rv"]
        if rv["k"] == "use" and op_place(rv["ops"][0]) is not None and op_place(rv["ops"][0])["l"] == k and not op_place(rv["ops"][0])["p"]:
            init = True
            continue
        guarded = False
        for c in conditions(t, d.bb):
            if c.is_discr or not c.is_true():
                continue
            for oo in origins(t, c.place, transparent=()):
                if oo.kind == "binop" and oo.data["op"] in ("Gt", "Ge", "Lt", "Le"):
                    a0, a1 = oo.data["ops"]
                    new_side, old_side = (a0, a1) if oo.data["op"] in ("Gt", "Ge") else (a1, a0)
                    po = op_place(old_side)
                    if po is not None and po["l"] == L:
                        guarded = True
        if not guarded:
            return None
    return True if init else None


def rule_variable_count_monotone(ctx, owners=None):
    """C15: the number of variables a back end knows never decreases (C16: `owners` restricts it to the text back end,
    whose header is printed from that counter while the stored clauses stay)"""
    prog = ctx.prog
    r = ctx.rule(
        "variable-count-monotone",
        "in every SatSolver impl, the integer fields `n_vars()` is computed from are only ever raised: each store outside the constructors is "
        "`max(field, x)`, `field + k`, or `x` under the test `x > field`; a variable that was reserved or used stays known (the model covers it, "
        "`1 + n_vars()` selectors stay fresh)",
    )
    n = 0
    for imp, nb in prog.impl_methods(SATSOLVER, "n_vars"):
        owner = imp.get("self_adt")
        adt = prog.adt(owner) if owner else None
        if adt is None or (owners and not re.search(owners, owner)):
            continue
        int_fields = {f["name"] for v in adt["variants"] for f in v["fields"] if f["ty"] in ("usize", "isize", "i32", "u32", "i64", "u64")}
        read = {f for f in self_fields_read(nb, {"l": 0, "p": []}) if f in int_fields}
        if not read:
            r.ok(nb.id, "n_vars() reads no integer field of %s (delegation)" % owner, nb.loc())
            continue
        for b in prog.lib_bodies():
            if b.kind == "closure" and prog.enclosing_fn(b).impl and prog.enclosing_fn(b).impl.get("self_adt") == owner:
                fnb = prog.enclosing_fn(b)
            elif b.impl and b.impl.get("self_adt") == owner:
                fnb = b
            else:
                continue
            if fnb.n_args == 0:
                continue  # constructors initialise
            for s in b.sites():
                nd = s.node
                if s.si is None or nd["k"] != "assign":
                    continue
                fl = [str(x) for x in place_fields(nd["dst"])]
                target = None
                if b is fnb and nd["dst"]["l"] == 1 and len(fl) == 1 and fl[0] in read:
                    target = fl[0]
                elif b.kind == "closure" and nd["dst"]["p"] and fl and fl[-1] in read and len(fl) <= 2:
                    # (*self_ref).field inside a closure capturing self
                    if any(o.kind == "upvar" for o in origins(b, {"l": nd["dst"]["l"], "p": []}, transparent=())):
                        target = fl[-1]
                if target is None and b.kind == "closure" and nd["dst"]["p"] == ["*"]:
                    # a disjoint capture of the field itself: upvar named `*self.<field>`
                    for o in origins(b, {"l": nd["dst"]["l"], "p": []}, transparent=()):
                        if o.kind == "upvar" and not o.fields:
                            m = re.search(r"self\.(\w+)$", b.upvar_name(o.data) or "")
                            if m and m.group(1) in read:
                                target = m.group(1)
                if target is None:
                    continue
                if "&mut" not in fnb.local_ty(1) and b is fnb:
                    continue
                n += 1
                anchor = "%s.%s|%s" % (owner, target, strip_generics(b.id))
                ok = None
                rv = nd["rv"]

                def reads_field(op):
                    p = op_place(op)
                    if p is None:
                        return False
                    for o in origins(b, op, transparent=()):
                        if o.kind in ("param", "upvar") and o.fields and str(o.fields[-1]) == target:
                            return True
                        if o.kind == "upvar" and not o.fields and re.search(r"self\.%s$" % re.escape(target), b.upvar_name(o.data) or ""):
                            return True
                    return False

                if rv["k"] == "use":
                    for o in origins(b, rv["ops"][0], transparent=()):
                        if o.kind == "call" and callee_matches(o.data, r"^core::cmp::(Ord::max|max)$"):
                            ok = any(reads_field(a) for a in o.site.node["args"])
                        elif o.kind == "call" and prog.body_for_callee(o.data, b) is not None and any(reads_field(a) for a in o.site.node["args"] if op_place(a) is not None):
                            # a local helper given the old value: `max_var_id(self.n_vars, lits)` - judged by its shape
                            t = prog.body_for_callee(o.data, b)
                            k = [i + 1 for i, a in enumerate(o.site.node["args"]) if op_place(a) is not None and reads_field(a)][0]
                            verdict = _returns_at_least_param(t, k)
                            if verdict is None:
                                undecided = True
                                ok = True
                            else:
                                ok = verdict
                        elif o.kind == "binop" and o.data["op"] in ("Add", "AddWithOverflow"):
                            ok = any(reads_field(a) for a in o.data["ops"])
                        else:
                            # x stored under the test x > field
                            ok = False
                            for c in conditions(b, s.bb):
                                if c.is_discr:
                                    continue
                                for oo in origins(b, c.place, transparent=()):
                                    if oo.kind == "binop" and oo.data["op"] in ("Gt", "Lt", "Ge", "Le"):
                                        a0, a1 = oo.data["ops"]
                                        gt = oo.data["op"] in ("Gt", "Ge")
                                        new_side, old_side = (a0, a1) if gt else (a1, a0)
                                        if c.is_true() and reads_field(old_side) and not reads_field(new_side):
                                            ok = True
                elif rv["k"] == "binop" and rv["op"] in ("Add", "AddWithOverflow"):
                    ok = any(reads_field(a) for a in rv["ops"])
                r.check(bool(ok), anchor, "non-monotone-store", "the stored value is max(old, x) / old + k / x under x > old", "`%s` (read by n_vars()) is overwritten with a value that can be smaller than the current one: variables the solver already knows are forgotten" % target, s.loc())
    r.floor(n, 1 if owners else 2, "stores to the variable-count fields of the back ends")


_VEC_SHRINKERS = r"^alloc::vec::Vec::(truncate|pop|remove|swap_remove|clear|drain|retain|retain_mut|dedup|dedup_by|dedup_by_key|split_off)$"


def rule_model_not_truncated(ctx):
    """C15: nothing shortens the model vector"""
    prog = ctx.prog
    r = ctx.rule(
        "model-never-truncated",
        "the vector handed to Assignment::new in a SAT back end is only ever extended: no truncate / pop / clear / drain on it, and a `resize` "
        "only under a test that the new length exceeds a non-constant quantity (the current number of variables): a model always covers every "
        "variable the solver answered for",
    )
    n = 0
    for b in prog.lib_bodies():
        if not in_sat_module(b):
            continue
        for s in b.calls():
            if not callee_is(callee_of(s), "sat::sat_solver::Assignment::new"):
                continue
            n += 1
            anchor = "%s|model" % b.id
            vec_locals, _, _ = data_deps(b, s.node["args"][0], through_calls=False)
            vec_locals = {l for l in vec_locals if b.local_ty(l).startswith("alloc::vec::Vec<core::option::Option<bool>")}
            bad = None
            for l in vec_locals:
                for m in b.mut_call_defs.get(l, []):
                    c = callee_of(m)
                    if callee_matches(c, _VEC_SHRINKERS):
                        bad = (m, "%s can shorten the model" % callee_decl(c).rsplit("::", 1)[-1])
                    elif callee_matches(c, r"^alloc::vec::Vec::resize(_with)?$"):
                        new_len = m.node["args"][1]
                        roots_new = _value_roots(b, new_len)
                        guarded = False
                        for cnd in conditions(b, m.bb):
                            if cnd.is_discr or not cnd.is_true():
                                continue
                            for o in origins(b, cnd.place, transparent=()):
                                if o.kind == "binop" and o.data["op"] in ("Gt", "Ge", "Lt", "Le"):
                                    a0, a1 = o.data["ops"]
                                    big, small = (a0, a1) if o.data["op"] in ("Gt", "Ge") else (a1, a0)
                                    if op_const(small) is None and (_value_roots(b, big) & roots_new):
                                        guarded = True
                        if not guarded:
                            bad = (m, "resize is not guarded by a test that the new length exceeds the current number of variables")
            r.check(bad is None, anchor, "model-can-shrink", "the model vector is only extended", "the model vector of %s can be shortened (%s): variables the solver knows are missing from the model" % (b.path, bad[1] if bad else ""), (bad[0].loc() if bad else s.loc()))
    r.floor(n, 2, "Assignment::new sites in the SAT layer")


def rule_reply_is_stdout(ctx):
    """C15 / C16: the reply handed to the parser is exactly what the child wrote"""
    prog = ctx.prog
    r = ctx.rule(
        "reply-is-stdout",
        "in the function that runs the external solver, the bytes read from the child's stdout reach the reply parser unchanged (no clear / "
        "truncate / edit of the buffer) and the child's exit status decides nothing (SAT solvers conventionally exit with 10 / 20)",
    )
    n = 0
    for b in prog.lib_bodies():
        waits = [s for s in b.calls() if callee_is(callee_of(s), "std::process::Child::wait", "std::process::Child::wait_with_output")]
        if not waits:
            continue
        n += 1
        anchor = b.id + "|reply"
        drains = [s for s in b.calls() if callee_matches(callee_of(s), DRAIN) and len(s.node["args"]) >= 2]
        bufs = set()
        for d in drains:
            seen, _, _ = data_deps(b, d.node["args"][1], through_calls=False)
            bufs |= {l for l in seen if b.local_ty(l).startswith("alloc::vec::Vec<u8") or b.local_ty(l) == "alloc::string::String"}
        edits = []
        for l in bufs:
            for m in b.mut_call_defs.get(l, []):
                if any((m.bb, m.si) == (dd.bb, dd.si) for dd in drains):
                    continue
                c = callee_of(m)
                d = callee_decl(c) if c else "?"
                if callee_matches(c, DRAIN):
                    continue
                if d in ("alloc::vec::Vec::new", "alloc::vec::Vec::with_capacity", "alloc::string::String::new", "core::ops::deref::DerefMut::deref_mut", "alloc::vec::Vec::reserve"):
                    continue
                edits.append((m, d))
        r.check(not edits, anchor, "reply-edited:%s" % sorted({d.rsplit("::", 1)[-1] for _, d in edits}), "the buffer read from the child's stdout is handed over unchanged", "the reply buffer is modified after it was read (%s): the parser does not see what the solver wrote" % sorted({d for _, d in edits}), edits[0][0].loc() if edits else b.loc())
        # exit status
        st = [s for s in b.calls() if callee_matches(callee_of(s), r"^std::process::ExitStatus::(success|code|signal)$|ExitStatusExt")]
        r.check(not st, anchor, "exit-status-decides", "the child's exit status is not inspected", "the child's exit status is inspected: solvers exiting with 10 / 20 (the SAT competition convention) would be treated as failed", st[0].loc() if st else b.loc())
    r.floor(n, 1, "functions waiting for an external solver")


def rule_n_vars_covers_reservations(ctx):
    """C15: what reserve() records, n_vars() reports"""
    prog = ctx.prog
    r = ctx.rule(
        "reservations-are-counted",
        "in every SatSolver impl, the integer field(s) `reserve` writes are read by `n_vars()` (or both delegate to the wrapped solver): a "
        "reserved variable is a declared variable - the model has a value for it and `1 + n_vars()` never hands out its number as a fresh selector",
    )
    n = 0
    for imp, nb in prog.impl_methods(SATSOLVER, "n_vars"):
        owner = imp.get("self_adt")
        adt = prog.adt(owner) if owner else None
        rb = None
        for imp2, b2 in prog.impl_methods(SATSOLVER, "reserve"):
            if imp2.get("self_adt") == owner:
                rb = b2
        if adt is None or rb is None:
            continue
        n += 1
        int_fields = {f["name"] for v in adt["variants"] for f in v["fields"] if f["ty"] in ("usize", "isize", "i32", "u32", "i64", "u64")}
        written = set()
        for y in prog.with_closures(rb):
            for s in y.sites():
                nd = s.node
                if s.si is not None and nd["k"] == "assign" and nd["dst"]["p"]:
                    fl = [str(x) for x in place_fields(nd["dst"])]
                    if fl and fl[-1] in int_fields and (nd["dst"]["l"] == 1 or y.kind == "closure"):
                        written.add(fl[-1])
        read = {f for f in self_fields_read(nb, {"l": 0, "p": []}) if f in int_fields}
        # through private helpers of the same type whose result n_vars() returns
        _, rcalls, _ = data_deps(nb, {"l": 0, "p": []})
        for c in rcalls:
            t = prog.body_for_callee(callee_of(c), nb) if callee_of(c) else None
            if t is not None and t.impl and t.impl.get("self_adt") == owner and t is not nb:
                read |= {f for f in self_fields_read(t, {"l": 0, "p": []}) if f in int_fields}
        # delegation: reserve forwards to a wrapped solver's reserve, n_vars to its n_vars
        res_deleg = any(callee_matches(callee_of(s), r"SatSolver::reserve$") for s in rb.calls())
        nv_deleg = any(callee_matches(callee_of(s), r"SatSolver::n_vars$") for s in nb.calls())
        anchor = "%s|reserve/n_vars" % owner
        if not written:
            r.check(res_deleg == nv_deleg or not res_deleg, anchor, "delegation-mismatch", "reserve writes no integer field (%s)" % ("delegates, as n_vars does" if res_deleg else "nothing to record"), "reserve delegates to the wrapped solver but n_vars does not", rb.loc())
            continue
        r.check(written <= read, anchor, "reserved-not-counted:%s" % sorted(written - read), "n_vars() reads what reserve() writes (%s)" % sorted(written), "`reserve` records the reservation in %s, which `n_vars()` does not read: reserved variables are not counted - the model does not cover them and `1 + n_vars()` can hand out a reserved variable's number as a fresh selector" % sorted(written - read), nb.loc())
    r.floor(n, 2, "SatSolver impls with reserve and n_vars")


_SWALLOW = re.compile(r"core::result::Result::<.*>::(ok|unwrap_or_default|unwrap_or|unwrap_or_else|is_ok)$|core::result::Result::(ok|unwrap_or_default|unwrap_or|unwrap_or_else)$")


def _result_item_dropped(prog, body, clo):
    """does the closure turn an Err item (a failed read) into a value / into `stop` instead of aborting: a call of Result::ok,
    unwrap_or*, or an Err arm of a match on the item from which the closure can return"""
    for s in clo.calls():
        d = callee_decl(callee_of(s))
        if _SWALLOW.search(d) or re.search(r"Result::(ok|unwrap_or|unwrap_or_default|unwrap_or_else)$", strip_generics(d)):
            for o in origins(clo, s.node["args"][0], transparent=()):
                if o.kind == "param":
                    return "calls %s on the read result" % d.rsplit("::", 1)[-1]
    for sw in switch_sites(clo):
        from ..flow import switch_subject

        subj = switch_subject(clo, sw)
        if not subj or not subj[1]:
            continue
        ty = clo.local_ty(subj[0]["l"])
        if not re.match(r"^&?(mut )?(core::result::)?Result<", ty) or "Error" not in ty:
            continue
        if not any(o.kind == "param" for o in origins(clo, {"l": subj[0]["l"], "p": []}, transparent=())):
            continue
        err_t = [tb for v, tb in sw.node["targets"] if v == "1"]
        if not err_t and sw.node.get("otherwise") is not None and any(v == "0" for v, tb in sw.node["targets"]):
            err_t = [sw.node["otherwise"]]
        for tb in err_t:
            reach = {tb} | clo.blocks_reachable_from(tb)
            if any(clo.blocks[x]["term"]["k"] == "return" for x in reach if not clo.blocks[x]["cleanup"]):
                return "its Err arm returns a value"
    return None


def rule_reply_read_errors_abort(ctx):
    """C16.4 / C17.2: a reply that cannot be read (I/O error, bytes that are no text) is not a reply that ended"""
    prog = ctx.prog
    r = ctx.rule(
        "reply-read-errors-abort",
        "text back end: a failed read of the solver's reply (the Err items of `BufRead::lines`: I/O error, invalid UTF-8) aborts the call; it is "
        "not dropped (`Result::ok`, `flatten`, `unwrap_or…`) and does not end the reading as if the reply were complete (`map_while(Result::ok)`, "
        "`let Ok(..) else break`) - what was read before the garbage would be taken for the whole reply",
    )
    n = 0
    for b in sorted(prog.lib_bodies(), key=lambda x: x.id):
        if not in_sat_module(b):
            continue
        for s in b.calls():
            if not callee_matches(callee_of(s), r"BufRead::lines$"):
                continue
            n += 1
            anchor = "%s|lines" % b.id
            # adaptors applied to the line iterator (forward data flow from the call's destination)
            frontier = {s.node["dst"]["l"]}
            bad = None
            handled = False
            for _ in range(8):
                nxt = set()
                for s2 in b.calls():
                    args = s2.node.get("args") or []
                    if not args:
                        continue
                    p0 = op_place(args[0])
                    if p0 is None:
                        continue
                    deps, _, _ = data_deps(b, args[0], through_calls=False)
                    if not (deps & frontier) and p0["l"] not in frontier:
                        continue
                    c2 = callee_of(s2)
                    d2 = callee_decl(c2)
                    fa = c2.get("fn_args") or []
                    if d2.endswith("Iterator::flatten"):
                        bad = ("flatten", s2)
                    for f in fa:
                        if _SWALLOW.search(f) or re.search(r"Result::<.*>::ok$|Result::ok$", f):
                            bad = ("%s(Result::ok)" % d2.rsplit("::", 1)[-1], s2)
                        clo = prog.by_target[b.target].get(f)
                        if clo is not None and clo.kind == "closure" and clo.n_args >= 2 and "Result<" in clo.local_ty(2):
                            why = _result_item_dropped(prog, b, clo)
                            if why:
                                bad = ("%s: the closure %s" % (d2.rsplit("::", 1)[-1], why), s2)
                            else:
                                handled = True
                    if d2 == "core::iter::traits::iterator::Iterator::next":
                        # a loop over the items in this body: the Err arm of the match on the item must not leave / continue the loop
                        item = s2.node["dst"]["l"]
                        for sw in switch_sites(b):
                            from ..flow import switch_subject

                            subj = switch_subject(b, sw)
                            if not subj or not subj[1]:
                                continue
                            ty = b.local_ty(subj[0]["l"])
                            if not re.match(r"^&?(mut )?(core::result::)?Result<", ty) or "Error" not in ty:
                                continue
                            dd, _, _ = data_deps(b, {"l": subj[0]["l"], "p": []}, through_calls=False)
                            if item not in dd and subj[0]["l"] != item:
                                continue
                            err_t = [tb for v, tb in sw.node["targets"] if v == "1"]
                            if not err_t and any(v == "0" for v, tb in sw.node["targets"]):
                                err_t = [sw.node["otherwise"]]
                            for tb in err_t:
                                reach = {tb} | b.blocks_reachable_from(tb)
                                if any(b.blocks[x]["term"]["k"] == "return" for x in reach if not b.blocks[x]["cleanup"]):
                                    bad = ("the Err arm of the match on a read line goes on", sw)
                                else:
                                    handled = True
                    if s2.node.get("dst") is not None:
                        nxt.add(s2.node["dst"]["l"])
                if not (nxt - frontier):
                    break
                frontier |= nxt
            if bad:
                r.violation(anchor, "read-error-swallowed", "a failed read of the solver's reply is swallowed (%s): the lines read before it are taken for the complete reply" % bad[0], bad[1].loc())
            elif handled:
                r.ok(anchor, "an Err item of the reply's lines diverges", s.loc())
            else:
                r.ok(anchor, "NOT decided: no handler of the read results recognised", s.loc())
    if n == 0:
        r.ok("lines", "NOT decided: no BufRead::lines reader in the SAT layer", None)


def rule_feeder_writes_what_it_read(ctx):
    """C16: the bytes handed to the external solver are the bytes of the instance"""
    prog = ctx.prog
    from ..prov import prov, show, subterms, roots

    r = ctx.rule(
        "feeder-writes-what-it-read",
        "the code that copies the DIMACS text to the child's stdin writes what it read and nothing else: a growing `String` / `Vec` filled by "
        "`read_to_string` / `read_to_end`, `io::copy`, or - with a fixed buffer filled by `Read::read` - the slice `..n` of the bytes that call "
        "reported; writing the whole fixed buffer sends stale bytes and NUL padding",
    )
    n = 0
    for b in sorted(prog.lib_bodies(), key=lambda x: x.id):
        if not in_sat_module(b):
            continue
        reads = [s for s in b.calls() if callee_decl(callee_of(s)) == "std::io::Read::read"]
        writes = [s for s in b.calls() if callee_matches(callee_of(s), r"^std::io::Write::(write_all|write)$")]
        if not writes:
            continue
        whole = [s for s in b.calls() if callee_matches(callee_of(s), r"^std::io::Read::(read_to_string|read_to_end)$|^std::io::copy$|^std::io::copy::copy$")]
        if not reads:
            if whole:
                n += 1
                r.ok(b.id, "the text is read as a whole (%s) and written as it is" % callee_decl(callee_of(whole[0])).rsplit("::", 1)[-1], whole[0].loc())
            continue
        for rd in reads:
            n += 1
            buf = roots(prog, b, rd.node["args"][1])
            for w in writes:
                anchor = "%s|write" % b.id
                ok = bad = False
                for e in prov(prog, b, w.node["args"][1]):
                    sl = [t for t in subterms(e) if isinstance(t, tuple) and t[0] == "call" and re.search(r"Index::index$", t[1]) and len(t[2]) == 2 and isinstance(t[2][1], tuple) and t[2][1][0] == "agg" and "Range" in str(t[2][1][1])]
                    if sl:
                        ok = True
                        continue
                    if roots(prog, b, w.node["args"][1]) & buf:
                        bad = True
                if bad and not ok:
                    r.violation(anchor, "whole-buffer-written", "the whole fixed buffer is written after a `read` that filled only its first n bytes: the solver receives stale text and padding after the instance", w.loc())
                elif ok:
                    r.ok(anchor, "writes the slice of the buffer the read filled", w.loc())
                else:
                    r.ok(anchor, "NOT decided: what is written is not traced to the read buffer", w.loc())
    if n == 0:
        r.ok("feeder", "NOT decided: no code copying a reader to a writer in the SAT layer", None)


# ------------------------------------------------------------------------------------------
# C15: the embedded back end hands the clauses and the assumptions over as they are (found by a probe round)

_DROPPING = r"Iterator::(skip|take|filter|filter_map|step_by|skip_while|take_while|map_while)$"


def rule_embedded_backend_translation(ctx):
    prog = ctx.prog
    from ..prov import prov, show, subterms

    r = ctx.rule(
        "embedded-backend-translation",
        "the embedded back end (a SatSolver impl that calls a foreign solver object directly): add_clause hands every literal of the clause to "
        "the foreign `add_clause`, solve_under_assumptions hands every assumption to the foreign solve call - each through a conversion that "
        "does no arithmetic on it -, the model is read for the variables 1..=max_variable(), and n_vars() is the larger of the foreign "
        "solver's count and the reservation",
    )
    n = 0
    for imp in prog.impls_of_trait(SATSOLVER):
        sadt = imp.get("self_adt") or ""
        methods = {m["name"]: prog.lib(m["path"]) for m in imp["methods"]}
        foreign = [s for b in methods.values() if b is not None for s in b.calls() if (callee_of(s) or {}).get("crate") not in (None, "crustabri", "core", "alloc", "std") and re.search(r"::add_clause$", callee_decl(callee_of(s)) or "")]
        if not foreign:
            continue  # a back end that stores / forwards text
        fcrate = callee_of(foreign[0]).get("crate")

        def judge_list(b, site, arg, what, pk):
            nonlocal n
            n += 1
            anchor = "%s|%s" % (b.id, what)
            trees = list(prov(prog, b, arg))
            verdict = None
            for e in trees:
                calls = [t for t in subterms(e) if isinstance(t, tuple) and t[0] == "call"]
                drop = [t[1].rsplit("::", 1)[-1] for t in calls if re.search(_DROPPING, t[1])]
                if drop:
                    r.violation(anchor, "literals-dropped:%s" % drop[0], "the %s handed to the foreign solver go through `%s`: not every literal of the call reaches the solver" % (what, drop[0]), site.loc())
                    return
                from_param = any(t[0] == "param" and t[2] == pk and not t[3] for t in subterms(e))
                if not any(isinstance(t, tuple) and t[0] == "param" and t[2] == pk for t in subterms(e)) and not any(isinstance(t, tuple) and t[0] in ("?", "var") for t in subterms(e)):
                    r.violation(anchor, "not-handed-over", "what is handed to the foreign solver (%s) does not come from the %s of the call at all" % (show(e)[:60], what), site.loc())
                    return
                maps = [t for t in calls if re.search(r"Iterator::map$", t[1])]
                unknown = [t for t in calls if not re.search(r"Iterator::(map|copied|cloned|rev)$|IntoIterator::into_iter$|slice::.*iter$|Vec.*::iter$|Deref::deref$|to_vec$|Clone::clone$", t[1])]
                if not from_param or unknown or len(maps) > 1:
                    verdict = "NOT decided: %s" % show(e)[:80]
            # the conversion closure(s)
            for cs in b.calls():
                c = callee_of(cs)
                if not callee_matches(c, r"Iterator::map$"):
                    continue
                seen, dcalls, _ = data_deps(b, arg)
                if not any((x.bb, x.si) == (cs.bb, cs.si) for x in dcalls):
                    continue
                for cp in c.get("fn_args") or []:
                    cb = prog.lib(cp)
                    if cb is None:
                        verdict = verdict or "NOT decided: conversion by a function that is not followed"
                        continue
                    for e in prov(prog, cb, {"l": 0, "p": []}):
                        ops = [t for t in subterms(e) if isinstance(t, tuple) and t[0] == "op"]
                        if ops:
                            r.violation(anchor, "literal-altered:%s" % ops[0][1], "the conversion of a literal for the foreign solver computes on it (`%s`): the solver is given another literal than the one of the call" % ops[0][1], cb.loc())
                            return
                        okc = all(re.search(r"convert::(From::from|Into::into)$|Clone::clone$|Deref::deref$", t[1]) for t in subterms(e) if isinstance(t, tuple) and t[0] == "call")
                        if not okc:
                            verdict = verdict or "NOT decided: conversion %s" % show(e)[:60]
            r.ok(anchor, verdict or "every literal of the %s reaches the foreign solver, converted without arithmetic" % what, site.loc())

        for nm, b in sorted(methods.items()):
            if b is None:
                continue
            for s in b.calls():
                c = callee_of(s)
                if (c or {}).get("crate") != fcrate:
                    continue
                d = callee_decl(c)
                if re.search(r"::add_clause$", d) and nm == "add_clause" and len(s.node["args"]) >= 2:
                    judge_list(b, s, s.node["args"][1], "clause literals", 2)
                elif re.search(r"::solve_with$|::solve_under_assumptions$|::solve_assuming$", d) and len(s.node["args"]) >= 2:
                    judge_list(b, s, s.node["args"][1], "assumptions", 2)
        # the model: variables 1..=max_variable()
        sb = methods.get("solve_under_assumptions")
        if sb is not None:
            n += 1
            found = None
            for y in [sb]:
                for s in y.calls():
                    if callee_matches(callee_of(s), r"ops::range::RangeInclusive::(<.*>::)?new$") and len(s.node["args"]) == 2:
                        k = op_const(s.node["args"][0])
                        ends = list(prov(prog, y, s.node["args"][1]))
                        if k is not None and "int" in k and ends and all(e[0] == "call" and re.search(r"::max_variable$", e[1]) for e in ends):
                            found = ("incl", k["int"], s)
                for s in y.sites():
                    nd = s.node
                    if s.si is not None and nd["k"] == "assign" and nd["rv"]["k"] == "aggregate" and (nd["rv"]["agg"].get("path") or "").endswith("ops::range::Range") and len(nd["rv"]["ops"]) == 2:
                        k = op_const(nd["rv"]["ops"][0])
                        ends = list(prov(prog, y, nd["rv"]["ops"][1]))
                        if k is not None and "int" in k and ends and all(e[0] == "call" and re.search(r"::max_variable$", e[1]) for e in ends):
                            found = found or ("excl", k["int"], s)
            anchor = "%s|model-range" % sb.id
            if found is None:
                r.ok(anchor, "NOT decided: no range from a constant to max_variable() is built for the model", sb.loc())
            elif found[0] == "excl":
                r.violation(anchor, "model-range:%d..max" % found[1], "the model is read for the variables %d..max_variable(), exclusive: the value of the last variable is never read (it is reported as unassigned or missing)" % found[1], found[2].loc())
            else:
                r.check(found[1] == 1, anchor, "model-range:%d..=max" % found[1], "the model is read for 1..=max_variable()", "the model is read from variable %d on: the values are shifted by %d against the variables" % (found[1], 1 - found[1]), found[2].loc())
        # n_vars
        nb = methods.get("n_vars")
        if nb is not None:
            n += 1
            for e in prov(prog, nb, {"l": 0, "p": []}):
                t = e
                while isinstance(t, tuple) and t[0] == "cast":
                    t = t[1]
                if isinstance(t, tuple) and t[0] == "call" and re.search(r"::max$", t[1]) and len(t[2]) == 2 and any(isinstance(a, tuple) and a[0] == "call" and re.search(r"::max_variable$", a[1]) for a in t[2]):
                    r.ok(nb.id + "|n-vars", "n_vars = max(foreign count, reservation)", nb.loc())
                elif isinstance(t, tuple) and t[0] == "call" and re.search(r"::min$", t[1]):
                    r.violation(nb.id + "|n-vars", "n-vars-min", "n_vars() is the *smaller* of the foreign solver's variable count and the reservation: variables above it are in use, and a selector taken as n_vars()+1 collides with them", nb.loc())
                else:
                    r.ok(nb.id + "|n-vars", "NOT decided: %s" % show(e)[:80], nb.loc())
    r.floor(n, 3, "translation points of the embedded back end")
