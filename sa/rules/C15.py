"""C15 - SAT solver objects honour the incremental solving contract (contract-shape clauses)"""
from . import satlayer, litalg


def run(ctx):
    satlayer.rule_assumptions_transient(ctx)
    satlayer.rule_clause_store(ctx)
    satlayer.rule_verdict_tables(ctx)
    satlayer.rule_model_width(ctx)
    satlayer.rule_variable_count_monotone(ctx)
    satlayer.rule_n_vars_covers_reservations(ctx)
    satlayer.rule_header(ctx)  # the text back end declares every variable of the call, assumptions included: its model covers them as the embedded one's does
    satlayer.rule_model_not_truncated(ctx)
    satlayer.rule_reply_is_stdout(ctx)
    litalg.rule_literal_algebra(ctx)
    satlayer.rule_embedded_backend_translation(ctx)
    ctx.assume("the embedded CaDiCaL solver and the external program decide satisfiability correctly (trusted)")
    ctx.assume("rustc's MIR and resolved callees")
    return (
        "F1 mutable-use census of solve_under_assumptions (assumptions never persist), who-may-call on the embedded add_clause, "
        "F2 clause-store discipline, F5 verdict tables, root agreement of model width and n_vars(). Does not decide that models "
        "satisfy the clauses or that the two back ends agree (value clauses)."
    )
