"""C06: immutability of the framework under queries, statelessness of the static solvers,
re-initialisation of encoder-internal state, back ends used through the trait only."""
import re

from ..core import (
    Site,
    callee_of,
    callee_is,
    callee_name,
    callee_decl,
    callee_matches,
    strip_generics,
    op_place,
    op_const,
    origins,
    data_deps,
    place_fields,
    self_fields_read,
)
from ..flow import conditions, consumers
from ..census import field_uses

AAF = "aa::aa_framework::AAFramework"
STORE_TYPES = (AAF, "aa::arguments::ArgumentSet", "utils::label::LabelSet", "utils::label::Label")
ENCODER = "encodings::specs::ConstraintsEncoder"
SOLVER_TRAITS = (
    "solvers::specs::SingleExtensionComputer",
    "solvers::specs::CredulousAcceptanceComputer",
    "solvers::specs::SkepticalAcceptanceComputer",
)
SATSOLVER = "sat::sat_solver::SatSolver"


def static_solver_types(prog):
    """ADTs in src/solvers implementing a solver trait (+ the helper types they embed by value)"""
    out = {}
    for tr in SOLVER_TRAITS:
        for imp in prog.impls_of_trait(tr):
            p = imp.get("self_adt")
            if p and p.startswith("solvers::"):
                out[p] = prog.adt(p)
    # embedded helpers (by-value fields of local ADT type in src/solvers)
    changed = True
    while changed:
        changed = False
        for p, a in list(out.items()):
            for v in a["variants"]:
                for f in v["fields"]:
                    m = re.match(r"^(solvers::[A-Za-z_:0-9]+)<", f["ty"])
                    if m and m.group(1) in prog.adts and m.group(1) not in out:
                        out[m.group(1)] = prog.adt(m.group(1))
                        changed = True
    return out


def rule_framework_immutable(ctx):
    prog = ctx.prog
    r = ctx.rule(
        "framework-immutable",
        "querying cannot modify the framework: every static solver, helper and encoder reaches it only through `&AAFramework<T>`; the store types "
        "contain no cell, atomic, trait object or raw-pointer field of their own; the package has no `unsafe`",
    )
    r.check(not prog.unsafe, "package", "unsafe=%d" % len(prog.unsafe), "0 unsafe blocks / impls / fns in lib and bins", "unsafe code present: %s" % [(u["file"], u["line"]) for u in prog.unsafe[:5]])
    for p in STORE_TYPES:
        a = prog.adt(p)
        if not r.require_anchor(a, "type " + p):
            continue
        bad = [c for c in a["cells"] if re.search(r": (cell|atomic|dyn|fnptr|closure):", c)]
        own_raw = [f["name"] for v in a["variants"] for f in v["fields"] if f["ty"].lstrip().startswith("*")]
        r.check(not bad and not own_raw, p, "interior-mutability:%s" % sorted({c.split(": ")[1].split(":")[0] for c in bad} | ({"rawptr"} if own_raw else set())), "%s has no interior mutability (deep type walk over %d field types)" % (p, sum(len(v["fields"]) for v in a["variants"])), "%s can be mutated through a shared reference: %s" % (p, (bad + own_raw)[:3]))
    solvers = static_solver_types(prog)
    r.floor(len(solvers), 7, "static solver / helper types")
    extra = [p for p in ("solvers::maximal_extension_computer::MaximalExtensionComputer", "utils::connected_components_computer::ConnectedComponentsComputer") if prog.adt(p)]
    for p in sorted(solvers) + extra:
        a = prog.adt(p)
        for v in a["variants"]:
            for f in v["fields"]:
                if "aa::aa_framework::AAFramework<" in f["ty"]:
                    ok = re.match(r"^&'?[a-z_]* ?aa::aa_framework::AAFramework<T>$", f["ty"]) is not None
                    r.check(ok, "%s.%s" % (p, f["name"]), "framework-field:%s" % f["ty"], "%s holds the framework as a shared reference" % p, "%s holds the framework as `%s`" % (p, f["ty"]))
                if re.search(r"aa::arguments::ArgumentSet<|utils::label::LabelSet<", f["ty"]) and not f["ty"].startswith("&"):
                    r.violation("%s.%s" % (p, f["name"]), "owns-store", "%s owns a copy of store data (%s): answers could refer to arguments that are not the caller's" % (p, f["ty"]))
    # encoder trait methods take &AAFramework
    tr = prog.traits.get(ENCODER)
    if r.require_anchor(tr, "trait " + ENCODER):
        n = 0
        for imp in prog.impls_of_trait(ENCODER):
            for m in imp["methods"]:
                sig = prog.sigs.get(("lib", m["path"]))
                if not sig:
                    continue
                for t in sig["inputs"]:
                    if "aa::aa_framework::AAFramework<" in t:
                        n += 1
                        r.check(t.startswith("&") and not t.startswith("&mut") and "&'a mut" not in t and not re.match(r"^&('[a-z_]+ )?mut ", t), m["path"], "encoder-takes:%s" % t, "encoder method takes the framework by shared reference", "encoder method %s takes the framework as `%s`" % (m["path"], t))
        r.floor(n, 8, "framework parameters of ConstraintsEncoder impl methods")


def rule_solvers_stateless(ctx):
    prog = ctx.prog
    r = ctx.rule(
        "solvers-stateless",
        "no method of a static solver type writes a field of `self` or keeps a SAT solver between queries: fields are only initialised by "
        "constructors, no field has a SAT-solver type, and every SAT solver used by a query comes from calling the stored factory in that activation",
    )
    solvers = static_solver_types(prog)
    n = 0
    for p, a in sorted(solvers.items()):
        for v in a["variants"]:
            for f in v["fields"]:
                n += 1
                muts = [u for u in field_uses(prog, p, f["name"]) if u.mut and u.op != "init"]
                # a &mut borrow of an embedded helper used to call its (stateless) methods is a use, not a write;
                # it is accepted when the callee is a method of a static solver type (checked field by field itself)
                real = []
                for u in muts:
                    if u.op.startswith("solvers::") and any(u.op.startswith(sp + "::") or strip_generics(u.op).startswith(sp) for sp in solvers):
                        continue
                    if u.op in ("captured", "read", "match", "read-field"):
                        continue
                    # calling the boxed factory / encoder through & is not a mutation
                    if re.search(r"ops::function::Fn::call$|deref::Deref::deref$|convert::AsRef::as_ref$", u.op):
                        continue
                    real.append(u)
                r.check(not real, "%s.%s" % (p, f["name"]), "written:%s" % sorted({u.op for u in real}), "field %s.%s is never written after construction" % (p.rsplit("::", 1)[-1], f["name"]), "static solver state %s.%s is modified by %s: answers can depend on earlier queries" % (p.rsplit("::", 1)[-1], f["name"], sorted({u.fn.path for u in real})), real[0].site.loc() if real else None)
                # no stored SAT solver
                if re.search(r"dyn sat::sat_solver::SatSolver", f["ty"]) and not re.search(r"dyn core::ops::function::Fn\(\) -> ", f["ty"]):
                    r.violation("%s.%s" % (p, f["name"]), "stores-sat-solver", "%s keeps a SAT solver in a field (%s): clauses of one query leak into the next" % (p, f["ty"]))
                if re.search(r": (cell|atomic):", " ".join(c for c in a["cells"] if c.split(": ")[0].endswith("." + f["name"]))):
                    r.violation("%s.%s" % (p, f["name"]), "cell-in-solver", "%s.%s contains a cell type: state can change through &self" % (p, f["name"]))
    r.floor(n, 15, "fields of static solver types")
    # every solver object a query works on derives from a factory call in the same query
    nq = 0
    solver_mods = {p.rsplit("::", 1)[0] for p in solvers}
    seen_bodies = set()
    for p in sorted(solvers):
        for b in prog.lib_bodies():
            fn = prog.enclosing_fn(b)
            # the solver's own methods, and the private helper types / functions of its module (a goal enum, a search helper)
            own = fn.impl and fn.impl.get("self_adt") == p
            helper = (not own) and fn.path.rsplit("::", 2)[0].startswith(p.rsplit("::", 1)[0]) and not (fn.impl and fn.impl.get("self_adt") in solvers) and "tests" not in fn.path
            if not (own or helper) or b.id in seen_bodies:
                continue
            seen_bodies.add(b.id)
            for s in b.calls():
                c = callee_of(s)
                if c and c.get("trait") == SATSOLVER and callee_matches(c, r"::(add_clause|solve|solve_under_assumptions|reserve)$"):
                    nq += 1
                    ok = False
                    srcs = origins(b, s.node["args"][0], transparent=("core::ops::deref::Deref::deref", "core::ops::deref::DerefMut::deref_mut", "core::convert::AsMut::as_mut", "core::convert::AsRef::as_ref", "core::cell::RefCell::borrow_mut", "core::cell::RefCell::borrow", "alloc::rc::Rc::new", "core::cell::RefCell::new", "alloc::boxed::Box::new", "core::option::Option::take", "core::option::Option::unwrap", "core::option::Option::expect", "core::option::Option::unwrap_or_else", "core::mem::replace", "core::mem::take"))
                    kinds = set()
                    for o in srcs:
                        if o.kind == "call" and (callee_matches(o.data, r"ops::function::Fn::call$") or o.data.get("decl") == "<indirect>"):
                            kinds.add("factory")
                        elif o.kind == "param" or o.kind == "upvar":
                            kinds.add("passed-in")
                        elif o.kind == "agg" and o.data.get("variant") == "None":
                            continue  # the empty state of a local Option<solver>
                        elif o.kind == "call":
                            from .provenance import encoding_helper_summary

                            t = prog.body_for_callee(o.data, b) if o.data.get("decl") != "<indirect>" else None
                            if t is not None and encoding_helper_summary(prog, t):
                                kinds.add("factory")  # a helper of the solver that calls the factory, encodes and returns the new solver
                            else:
                                kinds.add("call:" + callee_decl(o.data))
                        else:
                            kinds.add(o.kind)
                    ok = kinds <= {"factory", "passed-in"} and bool(kinds)
                    r.check(ok, "%s|%s" % (b.id, callee_decl(c).rsplit("::", 1)[-1]), "solver-origin:%s" % sorted(kinds), "SAT solver comes from the factory call of this query (or is handed in by the caller)", "the SAT solver used here comes from %s, not from a factory call of the current query" % sorted(kinds), s.loc())
    r.floor(nq, 8, "SAT-solver uses inside static solver methods")


def rule_encoder_state_reset(ctx):
    prog = ctx.prog
    r = ctx.rule(
        "encoder-state-reset",
        "a ConstraintsEncoder with interior mutability overwrites all of it at the start of each encoding: in both encode methods a whole-value "
        "store into every cell field dominates every other use of that field",
    )
    n = 0
    for imp in prog.impls_of_trait(ENCODER):
        p = imp.get("self_adt")
        a = prog.adt(p or "")
        if not a or not p.startswith("encodings::"):
            continue
        cell_fields = sorted({c.split(": ")[0].split(".", 1)[1] for c in a["cells"] if re.search(r": (cell|atomic):", c)})
        if not cell_fields:
            r.ok(p, "encoder without interior mutability (stateless)")
            continue
        for m in imp["methods"]:
            if not m["name"].startswith("encode_"):
                continue
            b = prog.lib(m["path"])
            if b is None:
                continue
            for fld in cell_fields:
                n += 1
                # whole-value store: (*deref_mut(borrow_mut(deref(&self.fld)))) = value   in the method body itself
                resets = []
                others = []
                for s in b.sites():
                    nd = s.node
                    if s.si is not None and nd["k"] == "assign" and nd["dst"]["p"] == ["*"]:
                        if any(o.kind == "call" and callee_matches(o.data, r"cell::RefCell::borrow_mut$") and fld in self_fields_read(b, o.site.node["args"][0]) for o in origins(b, {"l": nd["dst"]["l"], "p": []}, transparent=("core::ops::deref::DerefMut::deref_mut",))):
                            resets.append(s)
                # `self.fld.set(v)` / `.replace(v)` on a Cell
                _CELLSET = r"cell::Cell::(set|replace)$|cell::RefCell::replace$"
                for s in b.calls():
                    if callee_matches(callee_of(s), _CELLSET) and s.node["args"] and fld in self_fields_read(b, s.node["args"][0]):
                        resets.append(s)
                # ... or a call of a helper method of the encoder that does the whole-value store on all of its paths
                # (`self.reset_aux_vars(..)`)
                for s in b.calls():
                    c = callee_of(s)
                    t = prog.body_for_callee(c, b) if c and c.get("decl") != "<indirect>" else None
                    if t is None or t.kind == "closure" or not t.impl or t.impl.get("self_adt") != p:
                        continue
                    for s2 in t.sites():
                        nd2 = s2.node
                        if s2.si is not None and nd2["k"] == "assign" and nd2["dst"]["p"] == ["*"] and t.postdominates(s2, (0, -1)):
                            if any(o.kind == "call" and callee_matches(o.data, r"cell::RefCell::borrow_mut$") and fld in self_fields_read(t, o.site.node["args"][0]) for o in origins(t, {"l": nd2["dst"]["l"], "p": []}, transparent=("core::ops::deref::DerefMut::deref_mut",))):
                                resets.append(s)
                    for s2 in t.calls():
                        if callee_matches(callee_of(s2), _CELLSET) and s2.node["args"] and fld in self_fields_read(t, s2.node["args"][0]) and t.postdominates(s2, (0, -1)):
                            resets.append(s)
                # other uses: any read of self.fld (clones handed to helpers, borrows)
                for s in b.sites():
                    nd = s.node
                    if s.si is not None and nd["k"] == "assign" and nd["rv"]["k"] == "ref" and nd["rv"]["place"]["l"] == 1 and fld in [str(x) for x in place_fields(nd["rv"]["place"])]:
                        others.append(s)
                for x in prog.closures_of(b):
                    for u in x.upvars:
                        if u["name"].lstrip("*") in ("self." + fld, "self"):
                            # closure creation site in b
                            for s in b.sites():
                                nd = s.node
                                if s.si is not None and nd["k"] == "assign" and nd["rv"]["k"] == "aggregate" and nd["rv"]["agg"].get("kind") == "closure" and nd["rv"]["agg"].get("path") == x.path:
                                    others.append(s)
                ok = len(resets) >= 1 and all(any(b.dominates(rs, o) or (rs.bb == o.bb) or _feeds(b, o, rs) for rs in resets) for o in others)
                first = resets[0] if resets else None
                # the reset must not be conditional
                uncond = first is not None and b.postdominates(first, (0, -1))
                r.check(ok and uncond, "%s|%s" % (b.id, fld), "stale-state", "cell field %s is overwritten before any other use in %s" % (fld, m["name"]), "cell field %s of the encoder is not (unconditionally) re-initialised at the start of %s: the previous encoding's variables leak into this one" % (fld, m["name"]), b.loc())
    r.floor(n, 4, "(encode method, cell field) pairs of stateful encoders")


def _feeds(b, use_site, reset_site):
    """the borrow at use_site is the one consumed by the reset store itself"""
    if use_site.bb > reset_site.bb:
        return False
    seen, calls, _ = data_deps(b, {"l": reset_site.node["dst"]["l"], "p": []})
    return use_site.node["dst"]["l"] in seen


def rule_backend_abstraction(ctx):
    prog = ctx.prog
    r = ctx.rule(
        "backend-through-trait",
        "outside src/sat every call on a SAT solver object is a SatSolver trait method (no back-end specific method, no downcast); back ends "
        "are constructed only by the default factory, the app's factory and the documented constructors",
    )
    n = 0
    impl_types = {imp.get("self_adt") for imp in prog.impls_of_trait(SATSOLVER)}
    for b in prog.bodies.values():
        if b.path.startswith("sat::") or "<sat::" in b.path.split(" as ")[0]:
            continue
        for s in b.calls():
            c = callee_of(s)
            if not c:
                continue
            d = callee_decl(c)
            # inherent methods / associated fns of back-end types
            m = re.match(r"^(sat::[a-z_]+::[A-Za-z]+)::([a-z_]+)$", d)
            if m and m.group(1) in impl_types and m.group(1) != "sat::sat_solver::SatSolver":
                n += 1
                ok = m.group(2) in ("new", "default")
                r.check(ok, b.id, "backend-specific:%s" % d, "constructs a back end (%s)" % d, "back-end specific method %s is called outside src/sat" % d, s.loc())
            if re.search(r"any::Any|downcast", d):
                r.violation(b.id, "downcast", "downcast outside src/sat", s.loc())
            if c.get("trait") == SATSOLVER:
                n += 1
                r.check(c.get("virtual") or c.get("resolved") is None or True, b.id + "|" + d.rsplit("::", 1)[-1], "non-trait", "SatSolver::%s through the trait" % d.rsplit("::", 1)[-1], loc=s.loc())
    r.floor(n, 30, "SAT solver calls outside src/sat")
