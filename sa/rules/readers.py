"""C13: panic census over the readers (F8) and guard dominance of the ICCMA'23 reader (F4/F7)."""
import re

from ..core import (
    Site,
    callee_of,
    callee_is,
    callee_name,
    callee_decl,
    callee_matches,
    strip_generics,
    op_place,
    op_const,
    origins,
    data_deps,
    derives_from_local,
    place_fields,
    self_fields_read,
)
from ..flow import conditions, consumers, switch_subject
from ..core import switch_sites
from .. import engine
from . import io_rules

READER = "io::specs::InstanceReader"

# ------------------------------------------------------------------------------------------
# small value-range reasoning


def _resolve_place(body, p, depth=0):
    """(base local, fields) of a place, looking through `(*r)` when r is a single-definition borrow"""
    if p["p"] and p["p"][0] == "*" and depth < 6:
        ds = body.defs.get(p["l"], [])
        if len(ds) == 1 and ds[0].si is not None and ds[0].node["k"] == "assign" and ds[0].node["rv"]["k"] == "ref":
            base, flds = _resolve_place(body, ds[0].node["rv"]["place"], depth + 1)
            rest = {"l": 0, "p": p["p"][1:]}
            return base, flds + tuple(str(x) for x in place_fields(rest))
        if len(ds) == 1 and ds[0].si is not None and ds[0].node["k"] == "assign" and ds[0].node["rv"]["k"] == "use":
            q = op_place(ds[0].node["rv"]["ops"][0])
            if q is not None:
                # a copied reference: (*tmp) with tmp = copy <reference place>
                base, flds = _resolve_place(body, q, depth + 1)
                rest = {"l": 0, "p": p["p"][1:]}
                return base, flds + tuple(str(x) for x in place_fields(rest))
    return p["l"], tuple(str(x) for x in place_fields(p))


def value_root(body, op_or_place, limit=12):
    """follow single-definition copy / integer-cast chains to a root local or place"""
    p = op_or_place if "l" in op_or_place else op_place(op_or_place)
    if p is None:
        return None
    for _ in range(limit):
        if p["p"]:
            base, flds = _resolve_place(body, p)
            if flds or base != p["l"]:
                if not flds:
                    p = {"l": base, "p": []}
                    continue
                return ("place", base, flds)
            return ("place", base, flds)
        l = p["l"]
        ds = body.defs.get(l, [])
        if len(ds) != 1 or ds[0].si is None or ds[0].node["k"] != "assign":
            break
        rv = ds[0].node["rv"]
        if rv["k"] in ("use",) or (rv["k"] == "cast" and rv.get("cast") in ("IntToInt",)):
            q = op_place(rv["ops"][0])
            if q is None:
                break
            p = q
        else:
            break
    return ("local", p["l"]) if not p["p"] else ("place",) + _resolve_place(body, p)


def _cmp_facts(body, bb):
    """(root, lower bound) facts implied by the integer comparisons dominating block bb"""
    out = []
    for c in conditions(body, bb):
        if c.is_discr:
            continue
        truth = True if c.is_true() else (False if c.is_false() else None)
        if truth is None:
            continue
        for o in origins(body, c.place, transparent=()):
            if o.kind == "call" and truth and callee_matches(o.data, r"^core::ops::range::(RangeInclusive|Range|RangeFrom)::<.*>::contains$|^core::ops::range::(RangeInclusive|Range|RangeFrom)::contains$"):
                rg = _range_bounds(body, o.site.node["args"][0])
                item = _deref_root(body, o.site.node["args"][1])
                if rg is not None and item is not None:
                    k0 = op_const(rg[0])
                    if k0 is not None and "int" in k0:
                        out.append((item, k0["int"], o))
                continue
            if o.kind != "binop":
                continue
            op = o.data["op"]
            a, b = o.data["ops"]
            ka, kb = op_const(a), op_const(b)
            if kb is not None and "int" in kb and ka is None:
                root, k = value_root(body, a), kb["int"]
                lb = {("Ge", True): k, ("Gt", True): k + 1, ("Lt", False): k, ("Le", False): k + 1, ("Eq", True): k}.get((op, truth))
                if lb is None and op == "Ne" and truth and k == 0:
                    lb = 1
                if lb is None and op == "Eq" and truth is False and k == 0 and op_place(a) is not None and _is_unsigned(body, op_place(a)):
                    lb = 1  # `if index == 0 { return Err(..) }` on an unsigned value
                if lb is not None:
                    out.append((root, lb, o))
            elif ka is not None and "int" in ka and kb is None:
                root, k = value_root(body, b), ka["int"]
                lb = {("Le", True): k, ("Lt", True): k + 1, ("Gt", False): k, ("Ge", False): k + 1, ("Eq", True): k}.get((op, truth))
                if lb is not None:
                    out.append((root, lb, o))
    return out


def _deref_root(body, refop):
    """value root of `*r` for a reference operand r (`&n` handed to a call)"""
    q = op_place(refop)
    if q is None:
        return None
    return value_root(body, {"l": q["l"], "p": list(q["p"]) + ["*"]} if q["p"] else {"l": q["l"], "p": ["*"]})


def _range_bounds(body, refop):
    """(start operand, end operand or None, inclusive) of the range a reference operand points to"""
    for o in origins(body, refop, transparent=()):
        if o.kind == "call" and callee_matches(o.data, r"range::RangeInclusive::<.*>::new$|range::RangeInclusive::new$"):
            return (o.site.node["args"][0], o.site.node["args"][1], True)
        if o.kind == "agg" and (o.data.get("path") or "").startswith("core::ops::range::Range"):
            ops = o.site.node["rv"]["ops"]
            nm = o.data["path"].rsplit("::", 1)[-1]
            if nm == "Range" and len(ops) == 2:
                return (ops[0], ops[1], False)
            if nm == "RangeFrom" and len(ops) == 1:
                return (ops[0], None, False)
    return None


def _precast_place(body, op, limit=12):
    """the place at the root of a copy / integer-cast chain (its type tells whether the value was signed before the casts)"""
    p = op_place(op)
    for _ in range(limit):
        if p is None or p["p"]:
            return p
        ds = body.defs.get(p["l"], [])
        if len(ds) != 1 or ds[0].si is None or ds[0].node["k"] != "assign":
            return p
        rv = ds[0].node["rv"]
        if rv["k"] == "use" or (rv["k"] == "cast" and rv.get("cast") == "IntToInt"):
            q = op_place(rv["ops"][0])
            if q is None:
                return p
            p = q
        else:
            return p
    return p


def lower_bound(prog, body, op, site, depth=0):
    """a proven lower bound of an integer operand at `site` (None = unknown)"""
    k = op_const(op)
    if k is not None and "int" in k:
        return k["int"]
    p = op_place(op)
    if p is None or depth > 6:
        return None
    root = value_root(body, op)
    # signedness is that of the value before any `as usize`: a negative isize does not become >= 0 by being cast
    p = _precast_place(body, op) or p
    best = None
    for r, lb, _ in _cmp_facts(body, site.bb):
        if r == root:
            best = lb if best is None else max(best, lb)
    if best is not None:
        return best
    if root is None or root[0] != "local":
        # a field of a call result: `?` on a Result produced by a local closure / function
        if root is not None and root[0] == "place":
            l = root[1]
            # which component of an `Ok((a, b))` payload: the last tuple field of the projection
            comp = None
            flds_ = [str(f) for f in (root[2] or [])]
            if len(flds_) >= 1 and flds_[-1].isdigit():
                comp = int(flds_[-1])
            for o in origins(body, {"l": l, "p": []}, transparent=("core::ops::try_trait::Try::branch", "anyhow::Context::with_context", "anyhow::Context::context")):
                if o.kind == "call":
                    tgt = prog.body_for_callee(o.data, body)
                    if tgt is not None:
                        got = ok_value_lower_bound(prog, tgt, depth + 1, comp) if comp is not None else None
                        return got if got is not None else ok_value_lower_bound(prog, tgt, depth + 1)
        return 0 if _is_unsigned(body, p) else None
    l = root[1]
    ds = body.defs.get(l, [])
    if len(ds) == 1 and ds[0].si is not None and ds[0].node["k"] == "assign":
        rv = ds[0].node["rv"]
        if rv["k"] == "binop" and rv["op"] in ("Add", "AddWithOverflow"):
            a, b = rv["ops"]
            la, lb2 = lower_bound(prog, body, a, ds[0], depth + 1), lower_bound(prog, body, b, ds[0], depth + 1)
            if la is not None and lb2 is not None:
                return la + lb2
    if len(ds) == 1 and ds[0].si is None:
        c = callee_of(ds[0])
        if callee_matches(c, r"(Vec::len|slice::len|str::len|LabelSet::len|ArgumentSet::len|n_arguments)$"):
            return 0
    return 0 if _is_unsigned(body, {"l": l, "p": []}) else None


def _is_unsigned(body, p):
    ty = body.local_ty(p["l"])
    for e in p["p"]:
        if isinstance(e, dict) and "f" in e:
            ty = e["ty"]
    return ty in ("usize", "u32", "u64", "u8", "u16")


def ok_value_lower_bound(prog, fn, depth=0, comp=None):
    """min over the `Ok(v)` constructions of fn of lower_bound(v) (of component `comp` when v is a tuple built in place); a function
    that returns `opt.ok_or_else(..)` / `opt.ok_or(..)` gives the bound of the payload of `opt`"""
    res = None
    found = False
    if depth > 6:
        return None
    for s in fn.sites():
        n = s.node
        if s.si is not None and n["k"] == "assign" and n["rv"]["k"] == "aggregate" and n["rv"]["agg"].get("path") == "core::result::Result" and n["rv"]["agg"].get("variant") == "Ok":
            found = True
            opv = n["rv"]["ops"][0]
            if comp is not None:
                got = None
                for o in origins(fn, opv, transparent=()):
                    if o.kind == "agg" and o.data.get("kind") == "tuple" and comp < len(o.site.node["rv"]["ops"]):
                        lbc = lower_bound(prog, fn, o.site.node["rv"]["ops"][comp], o.site, depth + 1)
                        if lbc is None:
                            return None
                        got = lbc if got is None else min(got, lbc)
                    else:
                        return None
                lb = got
            else:
                lb = lower_bound(prog, fn, opv, s, depth + 1)
            if lb is None:
                return None
            res = lb if res is None else min(res, lb)
    if not found and comp is None:
        for o in origins(fn, {"l": 0, "p": []}, transparent=()):
            if o.kind == "call" and callee_decl(o.data) in ("core::option::Option::ok_or_else", "core::option::Option::ok_or") and o.site.node["args"]:
                lb = option_payload_lower_bound(prog, fn, o.site.node["args"][0], depth + 1)
                if lb is None:
                    return None
                found = True
                res = lb if res is None else min(res, lb)
            elif o.kind == "call" and is_try_residual(o.data):
                continue
            else:
                return None
    return res if found else None


def option_payload_lower_bound(prog, body, op, depth=0):
    """a proven lower bound of the integer inside `Some(..)` of an Option operand built by adaptors: `filter(|n| *n >= k)` proves k,
    `map(|n| n as usize)` keeps a non-negative bound, `ok()` of a parse proves nothing"""
    if depth > 8:
        return None
    res = None
    for o in origins(body, op, transparent=()):
        if o.kind != "call" or not o.site.node.get("args"):
            return None
        d = callee_decl(o.data)
        a0 = o.site.node["args"][0]
        clos = [prog.by_target[body.target].get(x) or prog.lib(x) for x in (o.data.get("fn_args") or [])]
        clos = [c for c in clos if c is not None]
        if d == "core::option::Option::filter" and len(clos) == 1:
            inner = option_payload_lower_bound(prog, body, a0, depth + 1)
            pred = None
            clo = clos[0]
            for ro in origins(clo, {"l": 0, "p": []}, transparent=()):
                if ro.kind == "binop" and ro.data["op"] in ("Ge", "Gt", "Le", "Lt"):
                    x, y = ro.data["ops"]
                    kx, ky = op_const(x), op_const(y)
                    px = any(oo.kind == "param" and oo.data == 2 for oo in origins(clo, x, transparent=())) if op_place(x) is not None else False
                    py = any(oo.kind == "param" and oo.data == 2 for oo in origins(clo, y, transparent=())) if op_place(y) is not None else False
                    opn = ro.data["op"]
                    if px and ky is not None and "int" in ky and opn in ("Ge", "Gt"):
                        pred = ky["int"] + (1 if opn == "Gt" else 0)
                    elif py and kx is not None and "int" in kx and opn in ("Le", "Lt"):
                        pred = kx["int"] + (1 if opn == "Lt" else 0)
            cand = [v for v in (inner, pred) if v is not None]
            lb = max(cand) if cand else None
        elif d == "core::option::Option::map" and len(clos) == 1:
            inner = option_payload_lower_bound(prog, body, a0, depth + 1)
            clo = clos[0]
            same = all(oo.kind == "param" and oo.data == 2 for oo in origins(clo, {"l": 0, "p": []}, transparent=())) and bool(origins(clo, {"l": 0, "p": []}, transparent=()))
            lb = inner if (same and inner is not None and inner >= 0) else None
        elif d in ("core::result::Result::ok",):
            lb = None
        else:
            return None
        if lb is None:
            return None
        res = lb if res is None else min(res, lb)
    return res


# ------------------------------------------------------------------------------------------
# F8 panic census

# confirmed by reading: (function path regex, kind) -> (max count, reason)
# keyed by the enclosing *function* (closures count against their function's budget)
PANIC_TABLE = [
    (r"^utils::label::LabelSet::<T>::get_label_by_id$", "Option::unwrap", 1, "called with ids of live arguments: the ICCMA lookup passes n-1 with 1<=n<=n_arguments on the compact framework built by the same reader; the store passes ids recorded in its own indexes"),
    (r"^utils::label::LabelSet::<T>::get_label_by_id$", "Index::index", 1, "same ids, all < labels.len()"),
    (r"^utils::label::LabelSet::<T>::get_label$", "Index::index", 1, "map values are ids handed out by new_label (I3: label_to_id holds live ids < labels.len())"),
    (r"^aa::aa_framework::AAFramework::<T>::new_attack$", "Index::index", 2, "ids returned by get_argument are < labels.len() = length of the index vectors (C12 index-pairing growth rule); attack ids stored in the index lists are < attacks.len() (C12 index-pairing)"),
    (r"^aa::aa_framework::AAFramework::<T>::new_attack$", "IndexMut::index_mut", 2, "same ids"),
    (r"^aa::aa_framework::AAFramework::<T>::new_attack$", "Overflow:Sub", 2, "attacks.len() - 1 right after a push"),
    (r"^aa::aa_framework::AAFramework::<T>::new_attack_by_ids$", "Overflow:Sub", 3, "attacks.len() - 1 after a push (2); `n - 1` in the error text needs n = 0, which the ICCMA reader excludes by its own range test before calling (observation O3)"),
    (r"^utils::label::LabelSet::<T>::len$", "Overflow:Sub", 1, "removed counter <= labels.len() (C12 removed-counter)"),
    (r"^utils::label::LabelSet::<T>::new_label$", "Overflow:Sub", 1, "labels.len() - 1 right after a push"),
    (r"Iccma23Reader as io::specs::InstanceReader<usize>>::read$|^io::iccma23_reader::Iccma23Reader::[a-z_0-9]+$", "Result::unwrap", 1, "new_attack_by_ids cannot fail: both ids passed the reader's range test 1<=k<=n (rule iccma-guards)"),
]


def _capture_group_exists(prog, b, s):
    """`captures.get(k).unwrap()`: k is a constant, or a parameter that every caller binds to a constant, not larger than 2 -
    the number of groups of the names patterns is checked by aspartix-grammar (capture-group shape)"""
    for o in origins(b, s.node["args"][0], transparent=()):
        if not (o.kind == "call" and callee_matches(o.data, r"^regex::regex::string::Captures::get$")):
            return None
        idx = o.site.node["args"][1]
        ks = []
        k = op_const(idx)
        if k is not None and "int" in k:
            ks.append(k["int"])
        else:
            for oo in origins(b, idx, transparent=()):
                if oo.kind == "param" and b.kind != "closure" and not oo.fields:
                    css = prog.callers_of(b)
                    if not css:
                        return None
                    for cs in css:
                        kk = op_const(cs.node["args"][oo.data - 1]) if oo.data - 1 < len(cs.node["args"]) else None
                        if kk is None or "int" not in kk:
                            return None
                        ks.append(kk["int"])
                else:
                    return None
        if ks and all(0 <= x <= 2 for x in ks):
            return "capture group %s of a pattern whose group count is checked by aspartix-grammar" % sorted(set(ks))
    return None


def panic_sources(prog, b):
    """(site, kind, detail) for every potential panic in body b"""
    out = []
    for s in b.sites():
        n = s.node
        if s.si is not None:
            continue
        if n["k"] == "call":
            c = n.get("callee")
            d = callee_decl(c)
            if d in ("core::option::Option::unwrap", "core::option::Option::expect"):
                out.append((s, "Option::unwrap", None))
            elif d in ("core::result::Result::unwrap", "core::result::Result::expect", "core::result::Result::unwrap_err", "core::result::Result::expect_err"):
                out.append((s, "Result::unwrap", None))
            elif d == "core::ops::index::Index::index":
                out.append((s, "Index::index", None))
            elif d == "core::ops::index::IndexMut::index_mut":
                out.append((s, "IndexMut::index_mut", None))
            elif d.startswith("core::panicking::") or d.startswith("std::rt::begin_panic") or d in ("std::process::exit", "std::process::abort"):
                out.append((s, "panic", d))
            elif re.search(r"(RefCell::borrow(_mut)?|Vec::(remove|swap_remove|insert|drain|split_off|truncate)|slice::(split_at|copy_from_slice)|str::split_at|Duration::|from_utf8_unchecked|Option::unwrap_unchecked)$", d):
                out.append((s, "may-panic-call", d))
            elif n.get("target") is None:
                out.append((s, "diverging-call", d))
        elif n["k"] == "assert":
            m = n["msg"]
            if m.startswith("Overflow"):
                # which operation
                opk = "?"
                for o in origins(b, n["cond"], transparent=()):
                    if o.kind == "binop":
                        opk = o.data["op"].replace("WithOverflow", "")
                out.append((s, "Overflow:" + opk, None))
            elif m.startswith("BoundsCheck"):
                out.append((s, "BoundsCheck", None))
            elif m.startswith("MisalignedPointerDereference") or m.startswith("NullPointerDereference"):
                continue  # compiler-inserted debug checks of the vec! lowering
            else:
                out.append((s, "assert:" + m.split(" ")[0], None))
    return out


def _option_var(b, arg, limit=8):
    """the named Option variable behind `x.as_ref()/as_mut()/&x/x` (None when it is not a plain variable)"""
    p = op_place(arg)
    for _ in range(limit):
        if p is None or p["p"] and p["p"] != ["*"]:
            return None
        l = p["l"]
        if b.local_name(l) is not None and b.local_ty(l).lstrip("&").replace("mut ", "").startswith("core::option::Option<"):
            return l
        ds = b.defs.get(l, [])
        if len(ds) != 1:
            return None
        d = ds[0]
        if d.si is None:
            if callee_decl(callee_of(d)) in ("core::option::Option::as_ref", "core::option::Option::as_mut", "core::option::Option::as_deref"):
                p = op_place(d.node["args"][0])
                continue
            return None
        rv = d.node["rv"]
        if rv["k"] in ("ref",):
            p = rv["place"]
        elif rv["k"] in ("use",):
            p = op_place(rv["ops"][0])
        else:
            return None
    return None


def _field_option_filled(prog, b, s):
    """`if self.f.is_none() { self.f = Some(..); } self.f.as_mut().unwrap()`: the Option is a field place, filled on the is_none edge"""
    from ..core import switch_sites

    def place_of(op):
        for o in origins(b, op, transparent=("core::option::Option::as_ref", "core::option::Option::as_mut")):
            if o.kind in ("param", "local") or True:
                pass
        # the place behind `&mut (*_1).f` handed to as_mut / is_none
        q = op_place(op)
        seen = 0
        while q is not None and not q["p"] and seen < 6:
            seen += 1
            ds = b.defs.get(q["l"], [])
            if len(ds) != 1:
                return None
            nd = ds[0].node
            if ds[0].si is None:
                if callee_decl(callee_of(ds[0])) in ("core::option::Option::as_ref", "core::option::Option::as_mut"):
                    q = op_place(nd["args"][0])
                    continue
                return None
            if nd["k"] == "assign" and nd["rv"]["k"] == "ref":
                return nd["rv"]["place"]
            if nd["k"] == "assign" and nd["rv"]["k"] == "use":
                q = op_place(nd["rv"]["ops"][0])
                continue
            return None
        return None

    def same(p1, p2):
        return p1 is not None and p2 is not None and p1["l"] == p2["l"] and [str(e.get("f")) if isinstance(e, dict) else str(e) for e in p1["p"]] == [str(e.get("f")) if isinstance(e, dict) else str(e) for e in p2["p"]]

    P = place_of(s.node["args"][0])
    if P is None or not any(isinstance(e, dict) and "f" in e for e in P["p"]):
        return None
    some_blocks, none_blocks = set(), set()
    for w in b.sites():
        nd = w.node
        if w.si is not None and nd["k"] == "assign" and same(nd["dst"], P):
            vs = {nd["rv"]["agg"].get("variant")} if nd["rv"]["k"] == "aggregate" else {oo.data.get("variant") if oo.kind == "agg" else "?" for oo in origins(b, nd["rv"]["ops"][0], transparent=())} if nd["rv"]["k"] == "use" else {"?"}
            (some_blocks if vs == {"Some"} else none_blocks).add(w.bb)
    if not some_blocks or any(b.reaches(x, s.bb) for x in none_blocks):
        return None
    for sw in switch_sites(b):
        if sw.bb not in b.dom.get(s.bb, ()):
            continue
        for o in origins(b, sw.node["discr"], transparent=()):
            if o.kind == "call" and callee_decl(o.data) == "core::option::Option::is_none" and same(place_of(o.site.node["args"][0]), P):
                true_t = sw.node["otherwise"]
                if true_t in some_blocks or not b.reaches(true_t, s.bb, avoid=some_blocks):
                    return "is_none(field) => the field is set to Some(..) on every path before the unwrap"
    return None


def _option_known_some(prog, b, s):
    """Option::unwrap whose operand is a variable proved Some by a dominating test, or built as Some"""
    w0 = _field_option_filled(prog, b, s)
    if w0:
        return w0
    arg = s.node["args"][0]
    os_ = origins(b, arg, transparent=("core::option::Option::as_ref", "core::option::Option::as_mut"))
    if os_ and all(o.kind == "agg" and o.data.get("variant") == "Some" for o in os_):
        return "operand is built as Some"
    # the Option variable behind the operand
    P = _option_var(b, arg)
    if P is None:
        return None
    for c in conditions(b, s.bb):
        if c.is_discr and c.place["l"] == P and not c.place["p"] and not c.negated and c.values == ["1"]:
            return "dominated by a match on Some"
        if not c.is_discr:
            for o in origins(b, c.place, transparent=()):
                if o.kind == "call":
                    d = callee_decl(o.data)
                    if d in ("core::option::Option::is_none", "core::option::Option::is_some"):
                        sd, _, _ = data_deps(b, o.site.node["args"][0], through_calls=False)
                        if P in sd:
                            if (d.endswith("is_none") and c.is_false()) or (d.endswith("is_some") and c.is_true()):
                                # never reset to None in between: all other writes are Some(..)
                                ok = True
                                for w in b.defs.get(P, []):
                                    if w.si is not None and w.node["k"] == "assign":
                                        vs = {oo.data.get("variant") for oo in origins(b, w.node["rv"]["ops"][0] if w.node["rv"]["k"] == "use" else {"l": -1, "p": []}, transparent=()) if oo.kind == "agg"} if w.node["rv"]["k"] == "use" else ({w.node["rv"]["agg"].get("variant")} if w.node["rv"]["k"] == "aggregate" else {"?"})
                                        if vs - {"Some", "None"}:
                                            ok = False
                                        if "None" in vs and b.reaches(s.bb, w.bb):
                                            ok = False
                                if ok:
                                    return "dominated by %s(%s) == %s" % (d.rsplit("::", 1)[-1], b.local_name(P), c.is_true())
    # `if p.is_none() { p = Some(..) }` followed by the unwrap: every path from the is_none-true edge to the
    # unwrap passes through an assignment of Some to the variable
    from ..core import switch_sites
    some_blocks = set()
    for w in b.defs.get(P, []):
        if w.si is not None and w.node["k"] == "assign":
            rv = w.node["rv"]
            vs = set()
            if rv["k"] == "aggregate":
                vs = {rv["agg"].get("variant")}
            elif rv["k"] == "use":
                os2 = origins(b, rv["ops"][0], transparent=())
                vs = {oo.data.get("variant") if oo.kind == "agg" else "?" for oo in os2}
            if vs == {"Some"}:
                some_blocks.add(w.bb)
    for sw in switch_sites(b):
        if sw.bb not in b.dom.get(s.bb, ()):
            continue
        t = sw.node
        for o in origins(b, t["discr"], transparent=()):
            if o.kind == "call" and callee_decl(o.data) == "core::option::Option::is_none":
                sd, _, _ = data_deps(b, o.site.node["args"][0], through_calls=False)
                if P not in sd:
                    continue
                true_t = t["otherwise"]
                if some_blocks and true_t not in some_blocks and not b.reaches(true_t, s.bb, avoid=some_blocks) and true_t != s.bb:
                    # and no later reset to None between
                    return "is_none(%s) => %s = Some(..) on every path before the unwrap" % (b.local_name(P), b.local_name(P))
                if true_t in some_blocks:
                    return "is_none(%s) => %s = Some(..) before the unwrap" % (b.local_name(P), b.local_name(P))
    return None


STORE_TYPES = ("aa::aa_framework::AAFramework", "aa::arguments::ArgumentSet", "utils::label::LabelSet")


def _store_index_source_ok(prog, b, op, site, depth=0):
    """is an index operand inside the framework store an id / position the store itself vouches for?
    sources accepted: Label::id(..); an element read out of one of the store's own vectors; the position / index produced by
    iterating such a vector; a parameter of a non-public helper whose every call passes such a value; a parameter under a
    dominating range test against the store's own count"""
    if depth > 3:
        return False
    os_ = list(origins(b, op, transparent=("core::ops::deref::Deref::deref", "core::clone::Clone::clone", "core::option::Option::unwrap", "core::option::Option::expect", "core::result::Result::unwrap", "core::result::Result::expect", "core::ops::try_trait::Try::branch", "anyhow::Context::with_context", "anyhow::Context::context")))
    if not os_:
        return False
    for o in os_:
        if o.kind == "call":
            d = callee_decl(o.data)
            if d == "utils::label::Label::id":
                continue
            if d in ("core::ops::index::Index::index", "core::iter::traits::iterator::Iterator::next", "core::iter::traits::iterator::Iterator::position", "core::slice::iter", "core::iter::traits::collect::IntoIterator::into_iter"):
                # an element / a position of a vector of the store
                fr = self_fields_read(b, o.site.node["args"][0]) if b.kind != "closure" else {"?"}
                if fr or b.kind == "closure":
                    continue
                return False
            if d in ("alloc::vec::Vec::len",):
                return False  # len itself is out of bounds: left to the arithmetic guards
            t = prog.body_for_callee(o.data, b) if o.data.get("decl") != "<indirect>" else None
            if t is not None and t.kind != "closure" and t.impl and t.impl.get("self_adt") in STORE_TYPES and ("usize" in t.ret_ty):
                continue  # a position / id computed by another method of the store
            return False
        elif o.kind == "param":
            fn = prog.enclosing_fn(b)
            if b.kind == "closure":
                continue  # element of an iteration (over a store vector, see the parent)
            # range test against the store's own count
            guarded = False
            for c in conditions(b, site.bb):
                if c.is_discr:
                    continue
                for oo in origins(b, c.place, transparent=()):
                    if oo.kind == "binop" and oo.data["op"] in ("Lt", "Ge", "Le", "Gt"):
                        _, calls, _ = data_deps(b, c.place)
                        if any(callee_matches(callee_of(x), r"n_arguments$|ArgumentSet::len$|LabelSet::len$|Vec::len$") for x in calls):
                            sd, _, _ = data_deps(b, c.place, through_calls=False)
                            if o.data in sd:
                                guarded = True
            if guarded:
                continue
            sig = prog.sigs.get(("lib", fn.path))
            if sig is not None and sig["vis"] != "pub" and fn is b:
                css = prog.callers_of(b)
                if css and all(o.data - 1 < len(cs.node["args"]) and _store_index_source_ok(prog, cs.body, cs.node["args"][o.data - 1], cs, depth + 1) for cs in css):
                    continue
            return False
        elif o.kind == "upvar":
            continue  # captured id of the enclosing store method (judged there)
        elif o.kind in ("undef", "partial"):
            continue
        else:
            return False
    return True


def _wrapper_index_impl(prog, b, s):
    """`impl Index<usize> for Slots { fn index(&self, id) -> .. { &self.0[id] } }` of a crate-private wrapper: the panic is the one of
    the wrapper's own `[..]`, and every use of it is an Index::index site that the census judges where it is written"""
    if b.kind == "closure" or not b.impl or not re.search(r"ops::index::Index(Mut)?$", b.impl.get("trait") or ""):
        return None
    a = prog.adt(b.impl.get("self_adt") or "")
    if not a or str(a.get("vis") or "pub") == "pub" or len(s.node.get("args") or []) < 2:
        return None
    oi = origins(b, s.node["args"][1], transparent=())
    oc = origins(b, s.node["args"][0], transparent=("core::ops::deref::Deref::deref",))
    if oi and all(o.kind == "param" and o.data == 2 and not o.fields for o in oi) and oc and all(o.kind == "param" and o.data == 1 for o in oc):
        return "the Index impl of the private wrapper %s hands its index to the wrapped vector: the panic is that of each `[..]` on the wrapper, which is an Index::index site judged where it is written" % a["path"].rsplit("::", 1)[-1]
    return None


def _store_internal_index(prog, b, s):
    w = _wrapper_index_impl(prog, b, s)
    if w:
        return w
    fn = prog.enclosing_fn(b)
    if not (fn.impl and fn.impl.get("self_adt") in STORE_TYPES):
        return None
    if len(s.node.get("args") or []) < 2:
        return None
    if _store_index_source_ok(prog, b, s.node["args"][1], s):
        return "index vouched for by the store itself (an id from Label::id, an element or position of one of its vectors, or a helper parameter bound to such a value by every caller): in range by the C12 invariants"
    return None


def _const_index_guard(prog, b, s):
    """v[k] with constant k under a dominating test fixing len(v)"""
    n = s.node
    if n["k"] == "call":
        k = op_const(n["args"][1])
        vec = n["args"][0]
    else:
        return None
    if k is None or "int" not in k:
        return None
    vroot, _, _ = data_deps(b, vec, through_calls=False)
    for c in conditions(b, s.bb):
        if c.is_discr:
            continue
        for o in origins(b, c.place, transparent=()):
            if o.kind == "binop":
                a, bb_ = o.data["ops"]
                kb = op_const(bb_)
                if kb is None or "int" not in kb:
                    continue
                _, calls, _ = data_deps(b, a)
                lens = [cs for cs in calls if callee_matches(callee_of(cs), r"(Vec::len|slice::len)$")]
                same = False
                for cs in lens:
                    sd, _, _ = data_deps(b, cs.node["args"][0], through_calls=False)
                    if sd & vroot - {None}:
                        same = True
                if not same:
                    continue
                nfix = None
                if o.data["op"] == "Ne" and c.is_false():
                    nfix = kb["int"]
                if o.data["op"] == "Eq" and c.is_true():
                    nfix = kb["int"]
                if o.data["op"] in ("Ge",) and c.is_true():
                    nfix = kb["int"]
                if o.data["op"] in ("Gt",) and c.is_true():
                    nfix = kb["int"] + 1
                if o.data["op"] in ("Lt",) and c.is_false():
                    nfix = kb["int"]
                if nfix is not None and k["int"] < nfix:
                    return "index %d under a dominating test len %s %d" % (k["int"], o.data["op"], kb["int"])
    return None


def _index_below_count_guard(prog, b, s):
    """`v[i]` under a dominating test `i < n` / not `i >= n` where n is a length / argument count (the update-by-id range test)"""
    if len(s.node["args"]) < 2:
        return None
    root = value_root(b, s.node["args"][1])
    if root is None:
        return None
    for c in conditions(b, s.bb):
        if c.is_discr:
            continue
        truth = True if c.is_true() else (False if c.is_false() else None)
        if truth is None:
            continue
        for o in origins(b, c.place, transparent=()):
            if o.kind != "binop":
                continue
            a, n_ = o.data["ops"]
            below = (o.data["op"] == "Lt" and truth) or (o.data["op"] == "Ge" and not truth)
            if below and value_root(b, a) == root:
                _, calls, _ = data_deps(b, n_)
                if any(callee_matches(callee_of(x), r"(Vec::len|slice::len|ArgumentSet::len|LabelSet::len|n_arguments)$") for x in calls):
                    return "index below a count by a dominating range test"
    return None


def _bounds_assert_guard(prog, b, s):
    """slice[k] bounds assert with constant k under a dominating len test"""
    n = s.node
    for o in origins(b, n["cond"], transparent=()):
        if o.kind == "binop" and o.data["op"] == "Lt":
            idx, ln = o.data["ops"]
            k = None
            for oo in origins(b, idx, transparent=()):
                if oo.kind == "const" and "int" in oo.data:
                    k = oo.data["int"]
            if k is None:
                return None
            # a fixed-size array: the length is a constant too
            klen = [oo.data["int"] for oo in origins(b, ln, transparent=()) if oo.kind == "const" and "int" in oo.data]
            if len(klen) == 1 and len(origins(b, ln, transparent=())) == 1 and k < klen[0]:
                return "constant index %d into an array of %d elements" % (k, klen[0])
            # the slice whose metadata is read
            sl = None
            for oo in origins(b, ln, transparent=()):
                if oo.kind == "unknown" and isinstance(oo.data, dict) and "PtrMetadata" in str(oo.data.get("dbg", "")):
                    sl = oo
            for c in conditions(b, s.bb):
                if c.is_discr:
                    continue
                for oc in origins(b, c.place, transparent=()):
                    if oc.kind == "binop":
                        a, bb_ = oc.data["ops"]
                        kb = op_const(bb_)
                        if kb is None or "int" not in kb:
                            continue
                        _, calls, _ = data_deps(b, a)
                        if not any(callee_matches(callee_of(cs), r"(Vec::len|slice::len)$") for cs in calls):
                            continue
                        nfix = None
                        if oc.data["op"] == "Ne" and c.is_false():
                            nfix = kb["int"]
                        if oc.data["op"] == "Eq" and c.is_true():
                            nfix = kb["int"]
                        if nfix is not None and k < nfix:
                            return "index %d under a dominating test len == %d" % (k, nfix)
    return None


def reader_reach(prog):
    roots = []
    for m in ("read", "read_arg_from_str"):
        for imp, b in prog.impl_methods(READER, m):
            roots.append(b)
    return roots, prog.reachable_from(roots, virtual_dispatch=False)


def rule_panic_census(ctx):
    prog = ctx.prog
    r = ctx.rule(
        "panic-census",
        "every panic source (unwrap/expect, indexing, arithmetic and bounds assertions, explicit panics) reachable from InstanceReader::read / "
        "read_arg_from_str of both readers is discharged by a dominating guard idiom or is in the confirmed table with its reason",
    )
    roots, reach = reader_reach(prog)
    if not r.require_anchor(len(roots) == 4, "read and read_arg_from_str of the two readers"):
        return
    pats = io_rules.regex_statics(prog)
    used = {}
    n_src = 0
    for b in sorted(reach.values(), key=lambda x: x.id):
        for s, kind, detail in panic_sources(prog, b):
            n_src += 1
            anchor = "%s|%s" % (b.id, kind)
            why = None
            if kind == "Option::unwrap":
                why = _option_known_some(prog, b, s) or _capture_group_exists(prog, b, s)
            elif kind == "Result::unwrap":
                # Regex::new on a constant that compiles
                for o in origins(b, s.node["args"][0], transparent=()):
                    if o.kind == "call" and callee_matches(o.data, r"^regex::regex::string::Regex::new$"):
                        m = re.match(r"^<(.+) as core::ops::deref::Deref>::deref", b.path)
                        p = pats.get(m.group(1)) if m else None
                        if p is not None:
                            res = engine.relang({"pos": [p], "neg": []})
                            if "error" not in res:
                                why = "constant pattern compiles (%d DFA product states explored)" % res.get("states", 0)
            elif kind in ("Index::index", "IndexMut::index_mut"):
                why = _const_index_guard(prog, b, s) or _store_internal_index(prog, b, s) or _index_below_count_guard(prog, b, s)
            elif kind == "BoundsCheck":
                why = _bounds_assert_guard(prog, b, s)
            elif kind == "Overflow:Add":
                for o in origins(b, s.node["cond"], transparent=()):
                    if o.kind == "binop":
                        ks = [op_const(x) for x in o.data["ops"]]
                        if any(k is not None and k.get("int") in (1, 2) for k in ks):
                            why = "increment of a count bounded by memory (len / enumerate index / counter)"
            elif kind == "Overflow:Sub":
                for o in origins(b, s.node["cond"], transparent=()):
                    if o.kind == "binop":
                        a, k = o.data["ops"]
                        kk = op_const(k)
                        if kk is not None and "int" in kk:
                            lb = lower_bound(prog, b, a, s)
                            if lb is not None and lb >= kk["int"]:
                                why = "operand >= %d by a dominating range test / construction" % lb
            if why:
                r.ok(anchor, "%s: %s" % (kind, why), s.loc())
                continue
            # table
            hit = None
            for i, (fre, k, mx, reason) in enumerate(PANIC_TABLE):
                if k == kind and re.search(fre, prog.enclosing_fn(b).path):
                    hit = (i, mx, reason)
            if hit is not None:
                used[hit[0]] = used.get(hit[0], 0) + 1
                if used[hit[0]] <= hit[1]:
                    r.ok(anchor, "%s: listed - %s" % (kind, hit[2]), s.loc())
                    continue
            r.violation(anchor, "undischarged" + (":" + detail if detail else ""), "%s in %s can be reached from an instance reader and is neither guarded by a recognised idiom nor in the confirmed table: a malformed input may panic" % (kind + (" " + detail if detail else ""), b.path), s.loc())
    r.floor(n_src, 20, "panic sources reachable from the readers")
    ctx.extra["panic_sources"] = n_src
    ctx.extra["reader_reachable_bodies"] = len(reach)


# ------------------------------------------------------------------------------------------
# ICCMA'23 reader guards


def _is_exact_call_result(prog, body, op, regex, parent=None, call_site=None):
    """the operand is (a copy of) the result of a call matching `regex` - no arithmetic in between;
    inside a closure the value may come from a by-reference capture of such a variable of `parent`"""
    root = value_root(body, op)
    if root is None:
        return False
    if root[0] == "local" and not (body.kind != "closure" and call_site is not None and 1 <= root[1] <= body.n_args):
        ds = body.defs.get(root[1], [])
        return len(ds) == 1 and ds[0].si is None and callee_matches(callee_of(ds[0]), regex)
    if root[0] in ("local", "place") and body.kind != "closure" and call_site is not None and parent is not None and 1 <= root[1] <= body.n_args and not (root[0] == "place" and root[2]):
        # a parameter of a plain function: the value is what the caller passes at `call_site`
        if root[1] - 1 < len(call_site.node["args"]):
            return _is_exact_call_result(prog, parent, call_site.node["args"][root[1] - 1], regex)
        return False
    if root[0] == "place" and body.kind == "closure" and root[1] == 1 and parent is not None and root[2]:
        try:
            nm = body.upvar_name(int(root[2][0]))
        except ValueError:
            return False
        fld = int(root[2][0])
        for ps in parent.sites():
            n = ps.node
            if ps.si is not None and n["k"] == "assign" and n["rv"]["k"] == "aggregate" and n["rv"]["agg"].get("kind") == "closure" and n["rv"]["agg"].get("path") == body.path:
                if fld < len(n["rv"]["ops"]):
                    cap = value_root(parent, n["rv"]["ops"][fld])
                    # a by-reference capture: `&local`
                    q = op_place(n["rv"]["ops"][fld])
                    if q is not None and not q["p"]:
                        ds = parent.defs.get(q["l"], [])
                        if len(ds) == 1 and ds[0].si is not None and ds[0].node["rv"]["k"] == "ref" and not ds[0].node["rv"]["place"]["p"]:
                            return _is_exact_call_result(prog, parent, {"c": {"l": ds[0].node["rv"]["place"]["l"], "p": []}}, regex)
                    if cap and cap[0] == "local":
                        return _is_exact_call_result(prog, parent, {"c": {"l": cap[1], "p": []}}, regex)
    return False


_VALUE_KEEPING = (
    "core::ops::try_trait::Try::branch",
    "anyhow::Context::with_context",
    "anyhow::Context::context",
    "core::option::Option::ok_or_else",
    "core::option::Option::ok_or",
    "core::result::Result::map_err",
    "core::option::Option::unwrap",
    "core::option::Option::expect",
    "core::result::Result::unwrap",
    "core::result::Result::expect",
    "core::result::Result::ok",
)
_PAYLOAD_MAPPERS = r"^core::(option::Option|result::Result)::(map|and_then|is_some_and|is_ok_and)$"
_PARSE = r"^core::str::parse$|^core::str::<impl str>::parse$|str::traits::FromStr::from_str$"


def _fields_place(l, fields):
    return {"l": l, "p": [{"f": f} for f in fields]}


def _caller_operand(prog, body, param_local, stack):
    """[(caller body, operand, fields prefix, rest of the stack)] the values a parameter of `body` receives: from the call site on the
    stack, else from every call site of the function; a closure handed to Option::map & co. receives the payload of the receiver"""
    from ..tags import _closure_capture_operand

    out = []
    if body.kind == "closure":
        k = param_local - 2
        sites = []
        if stack:
            sites = [stack[-1]]
            rest = stack[:-1]
        else:
            rest = []
            par = None
            for x in prog.bodies_in(body.target):
                if x.path == body.parent["direct"]:
                    par = x
            if par is not None:
                for cs in par.calls():
                    c = callee_of(cs)
                    if c is not None and body.path in (c.get("fn_args") or []):
                        if callee_matches(c, _PAYLOAD_MAPPERS) and k == 0:
                            out.append((par, cs.node["args"][0], ("0",), []))
                        else:
                            out.append((par, None, (), []))
                    elif c is not None and prog.body_for_callee(c, par) is body:
                        sites.append((par, cs))
        for pb, cs in sites:
            if len(cs.node["args"]) < 2:
                out.append((pb, None, (), rest))
                continue
            found = False
            for oo in origins(pb, cs.node["args"][1], transparent=()):
                if oo.kind == "agg" and oo.data["kind"] == "tuple" and k < len(oo.site.node["rv"]["ops"]):
                    out.append((pb, oo.site.node["rv"]["ops"][k], (), rest))
                    found = True
            if not found:
                out.append((pb, None, (), rest))
        return out
    k = param_local - 1
    if stack:
        pb, cs = stack[-1]
        return [(pb, cs.node["args"][k] if k < len(cs.node["args"]) else None, (), stack[:-1])]
    for cs in prog.callers_of(body):
        out.append((cs.body, cs.node["args"][k] if k < len(cs.node["args"]) else None, (), []))
    return out


class IndexForm:
    """one way an argument id is produced: `parsed number - minus`, the number parsed at `parse` (a call site of str::parse in `body`,
    reached through the call `stack`), the subtraction at `sub` (site, operand) or None; `unknown` when the value is something else"""

    def __init__(self, minus, body=None, parse=None, stack=(), sub=None, unknown=None):
        self.minus, self.body, self.parse, self.stack, self.sub, self.unknown = minus, body, parse, list(stack), sub, unknown


def index_forms(prog, body, place_or_op, stack=(), minus=0, sub=None, depth=0):
    from ..tags import _closure_capture_operand

    out = []
    if depth > 12:
        return [IndexForm(minus, unknown="depth")]
    stack = list(stack)
    for o in origins(body, place_or_op, transparent=_VALUE_KEEPING):
        if o.kind == "binop" and o.data["op"] in ("Sub", "SubWithOverflow") and (op_const(o.data["ops"][1]) or {}).get("int") is not None:
            out += index_forms(prog, body, o.data["ops"][0], stack, minus + op_const(o.data["ops"][1])["int"], sub or (body, o.site, o.data["ops"][0], list(stack)), depth + 1)
        elif o.kind == "binop" and o.data["op"] in ("Add", "AddWithOverflow") and (op_const(o.data["ops"][1]) or {}).get("int") is not None:
            out += index_forms(prog, body, o.data["ops"][0], stack, minus - op_const(o.data["ops"][1])["int"], sub, depth + 1)
        elif o.kind == "call" and callee_matches(o.data, _PARSE):
            out.append(IndexForm(minus, body, o.site, stack, sub))
        elif o.kind == "call":
            tgt = prog.body_for_callee(o.data, body) if callee_decl(o.data) != "<indirect>" else None
            if tgt is not None:
                out += index_forms(prog, tgt, _fields_place(0, o.fields), stack + [(body, o.site)], minus, sub, depth + 1)
            elif callee_matches(o.data, _PAYLOAD_MAPPERS):
                # the payload produced by the mapping closure
                done = False
                for fa in o.data.get("fn_args") or []:
                    cb = prog.by_target[body.target].get(fa) or prog.by_target["lib"].get(fa)
                    if cb is not None:
                        out += index_forms(prog, cb, _fields_place(0, o.fields[1:] if o.fields else ()), stack + [(body, o.site)], minus, sub, depth + 1)
                        done = True
                if not done:
                    out.append(IndexForm(minus, unknown=callee_decl(o.data)))
            else:
                dty = body.local_ty(o.site.node["dst"]["l"]) if not o.site.node["dst"]["p"] else ""
                if not o.fields and dty and not re.match(r"^(usize|isize|u\d+|i\d+)$", dty):
                    continue  # not a number: the error value of the other variant, projected by field position
                out.append(IndexForm(minus, unknown=callee_decl(o.data)))
        elif o.kind == "param":
            got = _caller_operand(prog, body, o.data, stack)
            if not got:
                out.append(IndexForm(minus, unknown="parameter without a visible caller"))
            for pb, aop, pre, rest in got:
                if aop is None:
                    out.append(IndexForm(minus, unknown="argument not traced"))
                    continue
                q = op_place(aop)
                if q is None:
                    out.append(IndexForm(minus, unknown="constant"))
                    continue
                pl = {"l": q["l"], "p": list(q["p"]) + [{"f": f} for f in tuple(pre) + tuple(o.fields)]}
                out += index_forms(prog, pb, pl, rest, minus, sub, depth + 1)
        elif o.kind == "upvar":
            par, cap = _closure_capture_operand(prog, body, o.data)
            q = op_place(cap) if cap is not None else None
            if q is None:
                out.append(IndexForm(minus, unknown="capture"))
            else:
                # a by-reference capture is `&local`
                ds = par.defs.get(q["l"], [])
                if not q["p"] and len(ds) == 1 and ds[0].si is not None and ds[0].node["k"] == "assign" and ds[0].node["rv"]["k"] == "ref":
                    q = ds[0].node["rv"]["place"]
                pl = {"l": q["l"], "p": list(q["p"]) + [{"f": f} for f in o.fields]}
                rest = stack[:-1] if stack and stack[-1][0] is par else []
                out += index_forms(prog, par, pl, rest, minus, sub, depth + 1)
        elif o.kind == "const":
            out.append(IndexForm(minus, unknown="constant"))
        else:
            out.append(IndexForm(minus, unknown=o.kind))
    return out


def _resolves_to_call(prog, body, op, regex, stack, depth=0):
    """the operand is (a copy of) the result of a call matching `regex`, possibly handed down through parameters / captures"""
    from ..tags import _closure_capture_operand

    if depth > 8:
        return False
    root = value_root(body, op)
    if root is None:
        return False
    l = root[1]
    flds = root[2] if root[0] == "place" else ()
    if body.kind == "closure" and l == 1 and flds:
        try:
            fld = int(flds[0])
        except ValueError:
            return False
        par, cap = _closure_capture_operand(prog, body, fld)
        q = op_place(cap) if cap is not None else None
        if q is None:
            return False
        ds = par.defs.get(q["l"], [])
        if not q["p"] and len(ds) == 1 and ds[0].si is not None and ds[0].node["k"] == "assign" and ds[0].node["rv"]["k"] == "ref":
            q = ds[0].node["rv"]["place"]
        rest = stack[:-1] if stack and stack[-1][0] is par else []
        return _resolves_to_call(prog, par, {"c": q}, regex, rest, depth + 1)
    if flds:
        return False
    first_param = 2 if body.kind == "closure" else 1
    if first_param <= l <= body.n_args and not body.defs.get(l):
        got = _caller_operand(prog, body, l, list(stack))
        return bool(got) and all(aop is not None and _resolves_to_call(prog, pb, aop, regex, rest, depth + 1) for pb, aop, pre, rest in got)
    ds = body.defs.get(l, [])
    return len(ds) == 1 and ds[0].si is None and callee_matches(callee_of(ds[0]), regex)


def _word_index(prog, body, op, stack, depth=0):
    """which word of the line an operand is: the constant index of `words[i]`, or the position of the `next()` call on the word iterator"""
    if depth > 8:
        return None
    res = None
    for o in origins(body, op, transparent=_VALUE_KEEPING + ("core::ops::deref::Deref::deref",)):
        if o.kind == "call" and callee_decl(o.data) == "core::ops::index::Index::index":
            kk = op_const(o.site.node["args"][1])
            if kk is not None and "int" in kk:
                res = kk["int"]
        elif o.kind == "call" and callee_matches(o.data, r"iter::traits::iterator::Iterator::next$"):
            it = value_root(body, {"l": op_place(o.site.node["args"][0])["l"], "p": ["*"]}) if op_place(o.site.node["args"][0]) is not None else None
            n = 0
            for s2 in body.calls():
                if s2 is o.site or (s2.bb, s2.si) == (o.site.bb, o.site.si):
                    continue
                if callee_matches(callee_of(s2), r"iter::traits::iterator::Iterator::next$") and body.dominates(s2, o.site):
                    q = op_place(s2.node["args"][0])
                    it2 = value_root(body, {"l": q["l"], "p": ["*"]}) if q is not None else None
                    if it2 == it:
                        n += 1
            res = n
        elif o.kind == "param":
            for pb, aop, pre, rest in _caller_operand(prog, body, o.data, list(stack)):
                if aop is not None:
                    w = _word_index(prog, pb, aop, rest, depth + 1)
                    if w is not None:
                        res = w
    return res


def _form_bounds(prog, f):
    """(lower bound of the parsed number, upper bound is the framework's argument count) where the number is used: at the subtraction and
    at every `Ok(..)` / `Some(..)` built from it in the parsing function"""
    b = f.body
    payload_local = f.parse.node["dst"]["l"]
    checkpoints = []
    for s in b.sites():
        n = s.node
        if s.si is not None and n["k"] == "assign" and n["rv"]["k"] == "aggregate" and n["rv"]["agg"].get("variant") in ("Ok", "Some") and n["rv"]["ops"]:
            roots, _, _ = data_deps(b, n["rv"]["ops"][0], through_calls=False)
            if payload_local in roots:
                vop = n["rv"]["ops"][0]
                # the number itself: peel a subtraction in the same function
                for o in origins(b, vop, transparent=()):
                    if o.kind == "binop" and o.data["op"] in ("Sub", "SubWithOverflow"):
                        vop = o.data["ops"][0]
                checkpoints.append((b, s, vop, f.stack))
    if f.sub is not None:
        checkpoints.append((f.sub[0], f.sub[1], f.sub[2], f.sub[3]))
    lbs, ubs = [], []
    for cb, site, vop, stack in checkpoints:
        lbs.append(lower_bound(prog, cb, vop, site))
        ub = False
        root = value_root(cb, vop)
        for c in conditions(cb, site.bb):
            if c.is_discr or not c.is_true():
                continue
            for o in origins(cb, c.place, transparent=()):
                if o.kind == "binop" and o.data["op"] == "Le":
                    a, b2 = o.data["ops"]
                    if value_root(cb, a) == root and _resolves_to_call(prog, cb, b2, r"AAFramework::n_arguments$", stack):
                        ub = True
                elif o.kind == "binop" and o.data["op"] == "Ge":
                    a, b2 = o.data["ops"]
                    if value_root(cb, b2) == root and _resolves_to_call(prog, cb, a, r"AAFramework::n_arguments$", stack):
                        ub = True
                elif o.kind == "call" and callee_matches(o.data, r"range::RangeInclusive::<.*>::contains$|range::RangeInclusive::contains$"):
                    rg = _range_bounds(cb, o.site.node["args"][0])
                    if rg is not None and rg[2] and _deref_root(cb, o.site.node["args"][1]) == root and _resolves_to_call(prog, cb, rg[1], r"AAFramework::n_arguments$", stack):
                        ub = True
        ubs.append(ub)
    known = [x for x in lbs if x is not None]
    return (max(known) if known else None), any(ubs), len(checkpoints)


def _check_id(prog, r, body, op, site, anchor, role, want_word):
    forms = index_forms(prog, body, op)
    unknown = [f for f in forms if f.unknown is not None]
    if not forms or unknown:
        r.ok(anchor, "NOT decided: the %s id is not traced to a parsed number (%s)" % (role, sorted({str(f.unknown) for f in unknown})[:3]), site.loc())
        return
    bad = [f for f in forms if f.minus != 1]
    if not r.check(not bad, anchor, "not-k-minus-1", "%s id is k - 1" % role, "the %s id is `parsed index - %s`, not `parsed index - 1`" % (role, bad[0].minus if bad else "?"), site.loc()):
        return
    for f in forms:
        if want_word is not None:
            w = _word_index(prog, f.body, f.parse.node["args"][0], f.stack)
            if w is None:
                r.ok(anchor + "|word", "NOT decided: the word the %s is parsed from was not identified" % role, f.parse.loc())
            else:
                r.check(w == want_word, anchor, "word=%s" % w, "%s is parsed from word %d of the line" % (role, want_word), "the %s is parsed from word %s of the line" % (role, w), site.loc())
        lb, ub, ncp = _form_bounds(prog, f)
        r.check(lb is not None and lb >= 1, anchor, "lower-bound=%s" % lb, "accepted indexes are >= 1", "an index < 1 can be accepted (k - 1 underflows)", f.parse.loc())
        r.check(ub, anchor, "no-upper-bound", "accepted indexes are <= the framework's argument count", "an index above the number of arguments can be accepted", f.parse.loc())


def _blank_line_rejected(prog, rd):
    """None when the loop shape is not recognised, else (ok, what): after a blank line, a line with content returns an error before any
    framework construction / attack insertion and before the next line is read.  Path-sensitive on the bool / enum cells of the function."""
    from ..flow import cell_steps

    empt = []  # (switch block, true target, false target)
    comm = []
    for sw in switch_sites(rd):
        t = sw.node
        p = op_place(t["discr"])
        if p is None or p["p"]:
            continue
        for o in origins(rd, p, transparent=()):
            if o.kind == "call" and callee_matches(o.data, r"String::is_empty$|str::is_empty$"):
                zero = [tb for x, tb in t["targets"] if x == "0"]
                if zero:
                    empt.append((sw.bb, t["otherwise"], zero[0]))
            if o.kind == "call" and callee_matches(o.data, r"str::starts_with$|String::starts_with$|str::<impl str>::starts_with$"):
                zero = [tb for x, tb in t["targets"] if x == "0"]
                if zero:
                    comm.append((sw.bb, t["otherwise"], zero[0]))
    if not empt:
        return None
    class _L:
        pass

    loops = []
    for h, blks in rd.loops():
        if any(e[0] in blks for e in empt):
            l = _L()
            l.header, l.blocks = h, blks
            loops.append(l)
    if not loops:
        return None
    loop = max(loops, key=lambda l: len(l.blocks))
    build = {s.bb for s in rd.calls() if callee_matches(callee_of(s), r"AAFramework::new_attack_by_ids$|AAFramework::new_attack$|ArgumentSet::new_with_labels$|AAFramework::new_with_argument_set$")}
    need = {"ne"} | ({"nc"} if any(c[0] in loop.blocks for c in comm) else set())
    seen = set()
    work = []
    for sb, tt, ft in empt:
        work.append((tt, (), frozenset()))
    bad = None
    while work and bad is None:
        bb, envt, flags = work.pop()
        if (bb, envt, flags) in seen or len(seen) > 20000:
            continue
        seen.add((bb, envt, flags))
        if bb == loop.header:
            flags = frozenset()
        if bb in build and bb in loop.blocks:
            bad = "a line after a blank line reaches the framework construction / attack insertion"
            break
        for sc, e2, edge in cell_steps(prog, rd, bb, envt):
            f2 = set(flags)
            for sb, tt, ft in empt:
                if bb == sb and sc == ft and sc != tt:
                    f2.add("ne")
            for sb, tt, ft in comm:
                if bb == sb and sc == ft and sc != tt:
                    f2.add("nc")
            if sc == loop.header and need <= f2:
                bad = "a line with content after a blank line is skipped instead of rejected"
                break
            if sc not in loop.blocks and sc != loop.header:
                # leaving the loop: the end of the input (normal) or an error return
                continue
            work.append((sc, e2, frozenset(f2)))
    return (bad is None, bad)


def _check_preamble(prog, r, rd):
    from .grounded import inherited_conditions, _cond_trees
    from ..prov import prov, subterms, show

    pre = None
    # the function whose result becomes the number of arguments of the new framework (feeds ArgumentSet::new_with_labels)
    lab_calls = set()
    for y in prog.with_closures(rd):
        for s0 in y.calls():
            if callee_matches(callee_of(s0), r"ArgumentSet::new_with_labels$"):
                _, cs0, _ = data_deps(y, s0.node["args"][0])
                lab_calls |= {(y.id, c.bb, c.si) for c in cs0}
    for y in prog.with_closures(rd):
        for s in y.calls():
            t = prog.body_for_callee(callee_of(s), y) if callee_of(s) else None
            if t is not None and t.kind != "closure" and re.match(r"^core::result::Result<usize, ", t.ret_ty) and (y.id, s.bb, s.si) in lab_calls:
                pre = t
    if pre is None:
        r.ok(rd.id + "|preamble", "NOT decided: no preamble function (-> Result<usize>) called by read", rd.loc())
        return
    kind_params = [i for i in range(1, pre.n_args + 1) if pre.local_ty(i) == "&str"]
    oks = [s for s in pre.sites() if s.si is not None and s.node["k"] == "assign" and s.node["rv"]["k"] == "aggregate" and s.node["rv"]["agg"].get("path") == "core::result::Result" and s.node["rv"]["agg"].get("variant") == "Ok"]
    if not oks:
        r.ok(pre.id + "|preamble", "NOT decided: no `Ok(..)` built in the preamble function", pre.loc())
        return
    for k, s in enumerate(oks):
        anchor = "%s|preamble#%d" % (pre.id, k)
        conds = _cond_trees(prog, inherited_conditions(prog, pre, s.bb))
        first = kindok = False
        saw_str_tests = False
        for e, t in conds:
            if e[0] == "call" and re.search(r"cmp::PartialEq::(ne|eq)$", e[1]) and len(e[2]) == 2:
                holds_eq = (e[1].endswith("::eq") and t) or (e[1].endswith("::ne") and not t)
                consts = [a[1] for a in e[2] if a[0] == "const" and isinstance(a[1], str)]
                params = [a for a in e[2] if a[0] == "param" and a[2] in kind_params and not a[3]]
                saw_str_tests = True
                if holds_eq and "p" in consts:
                    first = True
                if holds_eq and params:
                    kindok = True
        if not saw_str_tests:
            r.ok(anchor, "NOT decided: no string comparison governs the accepted preamble", s.loc())
        else:
            r.check(first, anchor, "first-word-not-checked", "accepted only when the first word is `p`", "a preamble is accepted without its first word being compared with \"p\"", s.loc())
            r.check(kindok or not kind_params, anchor, "kind-not-checked", "accepted only when the second word is the expected kind", "a preamble is accepted without its second word being compared with the expected kind (`p cnf 3` read as a framework)", s.loc())
        # the count: >= 0 accepted, negative rejected
        lb = None
        found = False
        for o in origins(pre, s.node["rv"]["ops"][0], transparent=("core::option::Option::unwrap", "core::option::Option::expect")):
            if o.kind == "agg" and o.data.get("variant") == "Some":
                found = True
                lb = lower_bound(prog, pre, o.site.node["rv"]["ops"][0], o.site)
        if not found:
            lb = lower_bound(prog, pre, s.node["rv"]["ops"][0], s)
            root = value_root(pre, s.node["rv"]["ops"][0])
            found = root is not None
        if found:
            r.check(lb == 0, anchor, "count-lower-bound=%s" % lb, "a count is accepted iff it is >= 0 (the empty framework is well-formed)", ("a negative argument count can be accepted" if lb is None else "the preamble `p af %d` is rejected although it is well-formed" % (lb - 1)), s.loc())


def rule_iccma_guards(ctx):
    prog = ctx.prog
    r = ctx.rule(
        "iccma-guards",
        "ICCMA'23 reader: labels are 1..=n; an attack word is accepted only under 1 <= k <= n (n = the framework's argument count) and maps to id k-1, "
        "first word = attacker, second = attacked; content after a blank line is an error; the query argument k maps to id k-1 under the same range test",
    )
    rd = None
    for imp, b in prog.impl_methods(READER, "read"):
        if any(callee_matches(callee_of(s), r"^aa::aa_framework::AAFramework::new_attack_by_ids$") for y in prog.with_closures(b) for s in y.calls()):
            rd = b
    if rd is None:
        for imp, b in prog.impl_methods(READER, "read"):
            hs = [x for x in prog.reachable_from([b], virtual_dispatch=False).values() if x is not b and x.path.startswith("io::") and any(callee_matches(callee_of(s), r"^aa::aa_framework::AAFramework::new_attack_by_ids$") for y in prog.with_closures(x) for s in y.calls())]
            if hs:
                r.ok("iccma-guards", "NOT decided: the attacks are inserted by %s, a helper of the reader that `read` hands each content line to (the guards are judged in a `read` that inserts the attacks itself)" % hs[0].path.rsplit("::", 1)[-1], hs[0].loc())
                return
    if not r.require_anchor(rd, "InstanceReader::read inserting attacks by id"):
        return
    ins = [s for y in prog.with_closures(rd) for s in y.calls() if callee_matches(callee_of(s), r"^aa::aa_framework::AAFramework::new_attack_by_ids$")]
    # G5: labels 1..=n
    lab = [s for s in rd.calls() if callee_matches(callee_of(s), r"^aa::arguments::ArgumentSet::new_with_labels$")]
    ok = False
    for s in lab:
        _, calls, _ = data_deps(rd, s.node["args"][0])
        for c in calls:
            if callee_matches(callee_of(c), r"range::RangeInclusive::new$"):
                k = op_const(c.node["args"][0])
                if k is not None and k.get("int") == 1:
                    # upper end = result of the preamble reader
                    _, c2, _ = data_deps(rd, c.node["args"][1])
                    if any((callee_of(x) or {}).get("local") and "usize" in (prog.body_for_callee(callee_of(x), rd).ret_ty if prog.body_for_callee(callee_of(x), rd) else "") for x in c2):
                        ok = True
    if not ok and not lab:
        # the framework is built by a private helper (`new_framework(n)`): labels 1..=param there, the count handed over here
        for cs, t in prog.callees(rd, include_closures=False, virtual_dispatch=False):
            if t.kind == "closure" or not t.path.startswith("io::"):
                continue
            for s in t.calls():
                if not callee_matches(callee_of(s), r"^aa::arguments::ArgumentSet::new_with_labels$"):
                    continue
                _, calls, _ = data_deps(t, s.node["args"][0])
                for c in calls:
                    if callee_matches(callee_of(c), r"range::RangeInclusive::new$"):
                        k = op_const(c.node["args"][0])
                        ups = [o for o in origins(t, c.node["args"][1], transparent=()) if o.kind == "param"]
                        if k is not None and k.get("int") == 1 and ups and ups[0].data - 1 < len(cs.node["args"]):
                            _, c2, _ = data_deps(rd, cs.node["args"][ups[0].data - 1])
                            if any((callee_of(x) or {}).get("local") and "usize" in (prog.body_for_callee(callee_of(x), rd).ret_ty if prog.body_for_callee(callee_of(x), rd) else "") for x in c2):
                                ok = True
    r.check(ok, rd.id + "|labels", "labels-not-1..=n", "arguments are labelled 1..=n in declaration order", "the arguments are not labelled 1..=n (n read from the preamble)", rd.loc())
    # G2/G6/G7: per inserted id
    for s in ins:
        for pos, role in ((1, "attacker"), (2, "attacked")):
            _check_id(prog, r, s.body, s.node["args"][pos], s, "%s|%s" % (rd.id, role), role, pos - 1)
    # G1 the preamble `p <kind> <n>`: the count is returned only for first word "p", second word = the expected kind, n >= 0 (0 included)
    _check_preamble(prog, r, rd)
    # G1b the preamble is read once: inside the line loop the framework is (re)built only while there is none yet
    from ..prov import prov as _pv, subterms as _sub
    from .grounded import inherited_conditions as _ic, _cond_trees as _ct

    for y in prog.with_closures(rd):
        for s in y.calls():
            if not callee_matches(callee_of(s), r"AAFramework::new_with_argument_set$|AAFramework::<.*>::new_with_argument_set$") or not y.in_loop(s.bb):
                continue
            dst_roots = set()
            guard = None
            for c, t in _ct(prog, _ic(prog, y, s.bb)):
                if c[0] == "call" and re.search(r"Option::is_(none|some)$", c[1]):
                    guard = (c[1].endswith("is_none")) == bool(t)
            raw = [c for c in conditions(y, s.bb) if c.is_discr and "core::option::Option<aa::aa_framework::AAFramework" in y.local_ty(c.place["l"]).replace("&", "")]
            for c in raw:
                if not c.negated and c.values == ["0"]:
                    guard = True
                elif (not c.negated and c.values == ["1"]) or (c.negated and c.values == ["0"]):
                    guard = False
            if guard is None:
                # `if af.is_none() || other { build }`: no test of the framework option governs the construction on every path
                has_test = any(re.search(r"Option::is_(none|some)$", callee_decl(callee_of(x))) for x in y.calls()) or any("Option<aa::aa_framework::AAFramework" in y.local_ty((switch_subject(y, sw) or ({"l": 0},))[0]["l"]) for sw in switch_sites(y) if switch_subject(y, sw))
                if has_test:
                    r.violation(rd.id + "|preamble-once", "framework-rebuilt", "inside the line loop the framework can be built again although one exists already (the construction is not governed by `there is no framework yet` on every path): a later preamble-like line throws away the attacks read so far", s.loc())
                else:
                    r.ok(rd.id + "|preamble-once", "NOT decided: how the reader knows that the preamble was read is not recognised", s.loc())
            else:
                r.check(guard, rd.id + "|preamble-once", "framework-rebuilt", "the framework is built only while there is none yet", "the framework is built inside the line loop when one exists already", s.loc())
    # G4 content after a blank line
    res = _blank_line_rejected(prog, rd)
    if res is None:
        r.ok(rd.id + "|blank-line", "NOT decided: no `is_empty()` test on the line inside a loop was found", rd.loc())
    else:
        r.check(res[0], rd.id + "|blank-line", "blank-line-flag", "content after a blank line is rejected before it is parsed", "content after a blank line is not rejected: %s" % res[1], rd.loc())
    # query argument lookup
    for imp, b in prog.impl_methods(READER, "read_arg_from_str"):
        byid = [s for y in prog.with_closures(b) for s in y.calls() if callee_matches(callee_of(s), r"ArgumentSet::get_argument_by_id$")]
        if not byid:
            continue
        for s in byid:
            _check_id(prog, r, s.body, s.node["args"][1], s, b.id + "|lookup", "query argument", None)


def _capture_operand(prog, clo, field):
    from ..tags import _closure_capture_operand

    return _closure_capture_operand(prog, clo, field)


def rule_declaration_order(ctx):
    prog = ctx.prog
    r = ctx.rule(
        "declaration-order",
        "Aspartix reader: argument labels are pushed in line order on one vector that is handed unchanged to ArgumentSet::new_with_labels; the "
        "attack operands are (first captured name, second captured name)",
    )
    rd = None
    for imp, b in prog.impl_methods(READER, "read"):
        if any(callee_matches(callee_of(s), r"^aa::aa_framework::AAFramework::new_attack$") for s in b.calls()):
            rd = b
    if rd is None:
        for imp, b in prog.impl_methods(READER, "read"):
            hs = [x for x in prog.reachable_from([b], virtual_dispatch=False).values() if x is not b and x.path.startswith("io::") and any(callee_matches(callee_of(s), r"^aa::aa_framework::AAFramework::new_attack$") for s in x.calls())]
            if hs:
                r.ok("declaration-order", "NOT decided: the attacks are inserted by %s, a helper of the reader (the label vector and the operands are followed in a `read` that builds the framework itself)" % hs[0].path.rsplit("::", 1)[-1], hs[0].loc())
                return
    if not r.require_anchor(rd, "InstanceReader::read inserting attacks by label"):
        return
    # the label vector reaches ArgumentSet::new_with_labels unchanged: directly, or through a local helper / closure that
    # receives it (e.g. `framework_from_labels(&arg_labels)`)
    nl = []  # (site in rd whose operand is the label vector, operand)
    for x in prog.with_closures(rd):
        for s in x.calls():
            c = callee_of(s)
            if callee_matches(c, r"^aa::arguments::ArgumentSet::new_with_labels$"):
                nl.append((x, s, s.node["args"][0]))
                continue
            t = prog.body_for_callee(c, x) if c else None
            if t is not None and t.kind != "closure" and t.path.startswith("io::"):
                for s2 in t.calls():
                    if callee_matches(callee_of(s2), r"^aa::arguments::ArgumentSet::new_with_labels$"):
                        for k in range(1, t.n_args + 1):
                            if derives_from_local(t, s2.node["args"][0], k) and k - 1 < len(s.node["args"]):
                                nl.append((x, s, s.node["args"][k - 1]))
    r.floor(len(nl), 1, "ArgumentSet::new_with_labels calls")
    vecs = set()
    for x, s, op in nl:
        named = set()
        os_ = list(origins(x, op))
        # through a by-reference capture of the reader function's vector
        more = []
        for o in os_:
            if o.kind == "upvar":
                par, cop = _capture_operand(prog, x, o.data)
                if par is rd and cop is not None:
                    more += list(origins(rd, cop))
        for o in os_ + more:
            if o.site is not None and o.body is rd:
                dl = o.site.node["dst"]["l"]
                if rd.local_name(dl) and rd.local_ty(dl).startswith("alloc::vec::Vec<"):
                    named.add(dl)
        vecs |= named
        r.check(len(named) == 1, rd.id + "|labels", "label-source", "labels come straight from the label vector", loc=s.loc())
    for v in vecs:
        muts = rd.mut_call_defs.get(v, [])
        ops = sorted({callee_decl(callee_of(m)).rsplit("::", 1)[-1] for m in muts})
        r.check(set(ops) <= {"push", "deref", "as_slice"}, rd.id + "|labels", "label-vector-ops=%s" % ops, "the label vector only sees push (declaration order kept)", "the label vector is reordered or edited: %s" % ops, rd.loc())
    # attack operands
    na = [s for s in rd.calls() if callee_matches(callee_of(s), r"^aa::aa_framework::AAFramework::new_attack$")]
    for s in na:
        def tuple_field(op):
            out = set()
            p = op_place(op)
            for o in origins(rd, op):
                out.add((o.kind, o.fields))
            # local refs:  &a  where (a, b) = result
            seen, _, _ = data_deps(rd, op, through_calls=False)
            fields = set()
            for l in seen:
                for d in rd.defs.get(l, []):
                    if d.si is not None and d.node["k"] == "assign" and d.node["rv"]["k"] == "use":
                        q = op_place(d.node["rv"]["ops"][0])
                        if q is not None and q["p"]:
                            fl = [x for x in place_fields(q)]
                            if fl:
                                fields.add(str(fl[-1]))
            return fields
        f1, f2 = tuple_field(s.node["args"][1]), tuple_field(s.node["args"][2])
        r.check(f1 == {"0"} and f2 == {"1"}, rd.id + "|attack-direction", "operands=%s/%s" % (sorted(f1), sorted(f2)), "attack inserted as (first name, second name)", "the attack operands are not (first captured name, second captured name)", s.loc())


# ------------------------------------------------------------------------------------------
# I/O errors while reading lines are reported (found by seeded change C13/E)

_ITER_NEUTRAL = (
    "core::iter::traits::iterator::Iterator::enumerate",
    "core::iter::traits::collect::IntoIterator::into_iter",
    "core::iter::traits::iterator::Iterator::by_ref",
    "core::iter::traits::iterator::Iterator::peekable",
)


def rule_line_errors_reported(ctx):
    prog = ctx.prog
    r = ctx.rule(
        "line-errors-reported",
        "both readers iterate `BufRead::lines()` directly (at most enumerated) and hand the `io::Result<String>` of every line to `?` / "
        "`with_context` / a match: a line that cannot be read (I/O error, invalid UTF-8) is an error of the whole read, never a silent end of "
        "input or a skipped line",
    )
    roots, reach = reader_reach(prog)
    n = 0
    for b in sorted(reach.values(), key=lambda x: x.id):
        for s in b.calls():
            if not callee_matches(callee_of(s), r"^std::io::BufRead::lines$"):
                continue
            n += 1
            anchor = "%s|lines" % b.id
            # follow the iterator value
            cur = [s.node["dst"]["l"]]
            seen = set()
            nexts = []
            bad = None
            while cur:
                l = cur.pop()
                if l in seen:
                    continue
                seen.add(l)
                for c in consumers(b, l, follow_refs=True):
                    if c.kind != "call":
                        continue
                    d = callee_decl(c.info[0]) if c.info[0] else "<indirect>"
                    if d in _ITER_NEUTRAL:
                        cur.append(c.site.node["dst"]["l"])
                    elif d == "core::iter::traits::iterator::Iterator::next":
                        nexts.append(c.site)
                    elif d.startswith("core::iter::traits::iterator::Iterator::") or d.startswith("core::iter::"):
                        bad = d.rsplit("::", 1)[-1]
            if bad:
                r.violation(anchor, "adaptor:%s" % bad, "the lines iterator goes through `%s` before the reader sees the lines: read errors can be swallowed or end the input silently" % bad, s.loc())
                continue
            if not nexts:
                r.ok(anchor, "lines are not consumed by a `for` loop in this body: NOT decided", s.loc())
                continue
            # the io::Result<String> of each item
            ok = False
            for nx in nexts:
                res = nx.node["dst"]["l"]
                # locals holding (a copy/move of) the Result part of the item
                items = []
                for st in b.sites():
                    nd = st.node
                    if st.si is not None and nd["k"] == "assign" and nd["rv"]["k"] == "use":
                        q = op_place(nd["rv"]["ops"][0])
                        if q is not None and q["l"] == res and q["p"] and "core::result::Result<alloc::string::String" in b.local_ty(nd["dst"]["l"]):
                            items.append(nd["dst"]["l"])
                for it in items:
                    for c in consumers(b, it, follow_refs=True):
                        if c.kind == "call":
                            d = callee_decl(c.info[0]) if c.info[0] else ""
                            if d in ("anyhow::Context::with_context", "anyhow::Context::context", "core::ops::try_trait::Try::branch", "core::result::Result::map_err", "core::result::Result::unwrap", "core::result::Result::expect"):
                                ok = True
                            else:
                                # handed to a function of the reader that checks it (`self.read_line(.., line)` doing `line?`)
                                t = prog.body_for_callee(c.info[0], b) if c.info[0] else None
                                if t is not None and t.kind != "closure":
                                    for k in range(1, t.n_args + 1):
                                        if "core::result::Result<alloc::string::String" in t.local_ty(k) and k - 1 < len(c.site.node["args"]):
                                            for c2 in consumers(t, k, follow_refs=True):
                                                d2 = callee_decl(c2.info[0]) if c2.kind == "call" and c2.info[0] else ""
                                                if c2.kind == "match" or d2 in ("anyhow::Context::with_context", "anyhow::Context::context", "core::ops::try_trait::Try::branch", "core::result::Result::map_err", "core::result::Result::unwrap", "core::result::Result::expect"):
                                                    ok = True
                        elif c.kind == "match":
                            ok = True
            r.check(ok, anchor, "line-result-not-checked", "the io::Result of every line is propagated (`?` / with_context) or matched", "the io::Result<String> yielded for a line is not propagated or matched: a read error is not reported", s.loc())
    r.floor(n, 2, "BufRead::lines() iterations reachable from the readers")
